"""E1 orchestration: run the zkfacts driver over /repo for each feature configuration, with a
content-addressed cache under /var/tmp/zkverif (rebuilt from nothing if absent)."""
import fcntl, hashlib, json, os, shutil, subprocess, sys, time

REPO = os.environ.get("ZK_REPO", "/repo")
VERIF = os.path.dirname(os.path.dirname(os.path.abspath(__file__)))
CACHE = os.environ.get("ZK_CACHE", "/var/tmp/zkverif")
DRIVER = os.path.join(VERIF, "driver", "target", "debug", "zkfacts")

# id -> (cargo args, expected fact files, must_compile)
CONFIGS = {
    "default": (["--workspace"], ["rln.rlib", "zerokit_utils.rlib", "rln_cli.executable"]),
    "optimal": (["-p", "rln", "--no-default-features"], ["rln.rlib", "zerokit_utils.rlib"]),
    "full": (["-p", "rln", "--features", "fullmerkletree"], ["rln.rlib", "zerokit_utils.rlib"]),
    "stateless": (["-p", "rln", "--no-default-features", "--features", "stateless"], ["rln.rlib", "zerokit_utils.rlib"]),
    "arkzkey": (["-p", "rln", "--features", "arkzkey"], ["rln.rlib", "zerokit_utils.rlib"]),
    "cli": (["-p", "rln-cli", "--bins", "--example", "relay"], ["relay.executable", "rln_cli.executable", "rln.rlib"]),
    "cli_stateless": (["-p", "rln-cli", "--example", "stateless", "--features", "stateless"], ["stateless.executable", "rln.rlib"]),
}
FIXTURE_CFG = "fixtures"


def sysroot():
    return subprocess.check_output(["rustc", "+nightly", "--print", "sysroot"], text=True).strip()


def driver_version():
    try:
        return subprocess.check_output([DRIVER, "--zkfacts-version"], text=True,
                                       env=dict(os.environ, LD_LIBRARY_PATH=sysroot() + "/lib")).strip()
    except Exception as e:
        return "nodriver"


def tree_hash(root=REPO, extra=""):
    """hash of the working tree contents (tracked + untracked, not ignored)"""
    h = hashlib.sha256()
    try:
        files = subprocess.check_output(["git", "-C", root, "ls-files", "-co", "--exclude-standard"], text=True).split("\n")
    except Exception:
        files = []
        for dp, dn, fn in os.walk(root):
            if "/target" in dp or "/.git" in dp:
                continue
            for f in fn:
                files.append(os.path.relpath(os.path.join(dp, f), root))
    for f in sorted(set(files)):
        if not f:
            continue
        p = os.path.join(root, f)
        if not os.path.isfile(p):
            continue
        h.update(f.encode())
        h.update(b"\0")
        with open(p, "rb") as fh:
            while True:
                b = fh.read(1 << 20)
                if not b:
                    break
                h.update(b)
        h.update(b"\1")
    h.update(extra.encode())
    return h.hexdigest()[:24]


def build_driver(log=sys.stderr):
    env = dict(os.environ, CARGO_NET_OFFLINE="true")
    r = subprocess.run(["cargo", "+nightly", "build", "--offline"], cwd=os.path.join(VERIF, "driver"), env=env,
                       stdout=subprocess.PIPE, stderr=subprocess.STDOUT, text=True)
    if r.returncode != 0:
        log.write(r.stdout)
        raise SystemExit("zkverif: cannot build the zkfacts driver")


def _run_cargo(cfg, manifest_dir, args, out_dir, target_dir, members):
    """one configuration of one tree; the target directory of a configuration is shared by all analysed trees (dependencies are
    built once), so the fingerprint reset and the cargo run are serialised per target directory"""
    os.makedirs(target_dir, exist_ok=True)
    tl = open(target_dir.rstrip("/") + ".lock", "w")
    fcntl.flock(tl, fcntl.LOCK_EX)
    try:
        return _run_cargo_locked(cfg, manifest_dir, args, out_dir, target_dir, members)
    finally:
        fcntl.flock(tl, fcntl.LOCK_UN)
        tl.close()


def _run_cargo_locked(cfg, manifest_dir, args, out_dir, target_dir, members):
    os.makedirs(out_dir, exist_ok=True)
    # cargo's freshness cache would skip the wrapper: drop the members' fingerprints
    fp = os.path.join(target_dir, "debug", ".fingerprint")
    if os.path.isdir(fp):
        for d in os.listdir(fp):
            if any(d.startswith(m + "-") for m in members):
                shutil.rmtree(os.path.join(fp, d), ignore_errors=True)
    env = dict(os.environ)
    env.update({
        "LD_LIBRARY_PATH": sysroot() + "/lib",
        "RUSTFLAGS": "-Zmir-opt-level=0 -Awarnings",
        "RUSTC_WORKSPACE_WRAPPER": DRIVER,
        "ZKFACTS_OUT": out_dir,
        "CARGO_TARGET_DIR": target_dir,
        "CARGO_NET_OFFLINE": "true",
    })
    env.pop("RUSTC_WRAPPER", None)
    cmd = ["cargo", "+nightly", "check", "--offline"] + args
    r = subprocess.run(cmd, cwd=manifest_dir, env=env, stdout=subprocess.PIPE, stderr=subprocess.STDOUT, text=True)
    return r.returncode, r.stdout


MEMBERS = ["rln", "zerokit_utils", "rln-cli", "rln-wasm", "rln_cli", "rln_wasm", "zkfix"]


def ensure_facts(cfgs, log=sys.stderr):
    """returns {cfg: {"dir":..., "ok": bool, "log": str}} for the current /repo tree"""
    os.makedirs(CACHE, exist_ok=True)
    if not os.path.exists(DRIVER):
        build_driver(log)
    dv = driver_version()
    th = tree_hash(REPO, dv)
    if FIXTURE_CFG in cfgs:
        fxh = tree_hash(os.path.join(VERIF, "fixtures", "zkfix"), dv)
    base = os.path.join(CACHE, "facts", th)
    res = {}
    # one lock per analysed tree (several trees - /repo and scratch worktrees - may be extracted at the same time); the fixture
    # crate is shared by all of them and has its own lock
    lock = open(os.path.join(CACHE, "lock-" + th), "w")
    fcntl.flock(lock, fcntl.LOCK_EX)
    fxlock = None
    if FIXTURE_CFG in cfgs and not os.path.exists(os.path.join(CACHE, "facts-fixtures", fxh, "META")):
        fxlock = open(os.path.join(CACHE, "lock-fixtures"), "w")
        fcntl.flock(fxlock, fcntl.LOCK_EX)
    try:
        todo = []
        dirs = {}
        for cfg in cfgs:
            d = os.path.join(base, cfg)
            if cfg == FIXTURE_CFG:
                d = os.path.join(CACHE, "facts-fixtures", fxh)
            dirs[cfg] = d
            meta = os.path.join(d, "META")
            if os.path.exists(meta):
                try:
                    os.utime(base, None)
                except OSError:
                    pass
                res[cfg] = json.load(open(meta))
                res[cfg]["dir"] = d
                res[cfg]["cached"] = True
            else:
                todo.append(cfg)
        if todo:
            from concurrent.futures import ThreadPoolExecutor

            def work(cfg):
                d = dirs[cfg]
                shutil.rmtree(d, ignore_errors=True)
                os.makedirs(d)
                t0 = time.time()
                if cfg == FIXTURE_CFG:
                    mdir = os.path.join(VERIF, "fixtures", "zkfix")
                    args, expect = [], ["zkfix.rlib"]
                else:
                    mdir = REPO
                    args, expect = CONFIGS[cfg]
                tdir = os.path.join(CACHE, "target", cfg)
                rc, out = _run_cargo(cfg, mdir, args, d, tdir, MEMBERS)
                missing = [e for e in expect if not os.path.exists(os.path.join(d, e + ".json"))]
                meta = {"cfg": cfg, "ok": rc == 0 and not missing, "rc": rc, "missing": missing,
                        "log": out[-6000:], "wall_s": round(time.time() - t0, 2), "tree": th, "driver": dv}
                json.dump(meta, open(os.path.join(d, "META"), "w"))
                meta["dir"] = d
                meta["cached"] = False
                return cfg, meta

            with ThreadPoolExecutor(max_workers=min(6, len(todo))) as ex:
                for cfg, meta in ex.map(work, todo):
                    res[cfg] = meta
        # garbage-collect old fact sets (keep the 6 most recent trees) and lock files of trees that are long gone
        try:
            for x in os.listdir(CACHE):
                if x.startswith("lock-") and x != "lock-fixtures" and x != "lock-" + th and time.time() - os.path.getmtime(os.path.join(CACHE, x)) > 86400:
                    os.unlink(os.path.join(CACHE, x))
        except Exception:
            pass
        try:
            fd = os.path.join(CACHE, "facts")
            ds = sorted((os.path.getmtime(os.path.join(fd, x)), x) for x in os.listdir(fd))
            now = time.time()
            for mt, x in ds[:-6]:
                # another analysis (a self-test lane on a scratch worktree) may still be reading a recent set: only sets that have
                # not been touched for 20 minutes are collected
                if x != th and now - mt > 1200:
                    shutil.rmtree(os.path.join(fd, x), ignore_errors=True)
        except Exception:
            pass
    finally:
        if fxlock is not None:
            fcntl.flock(fxlock, fcntl.LOCK_UN)
            fxlock.close()
        fcntl.flock(lock, fcntl.LOCK_UN)
        lock.close()
    return res
