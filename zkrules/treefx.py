"""A7: effect summaries of the Merkle-tree mutators (positions written, flags set/cleared, high-water updates), extracted from the
path traces of the symbolic evaluator. Position sets are symbolic: single(t) | range(lo, hi) | elems(seq)."""
import re
from .symex import Engine, show, subterms, cint, mk_const, fold_bin, known_ok
from .lib import range_var, P, F, cond_map, sh
from . import linear

TREES = {
    "pmtree": ("rln::<pm_tree_adapter::PmTree as zerokit_utils::ZerokitMerkleTree>::", "rln::pm_tree_adapter::PmTree::"),
    "optimal": ("zerokit_utils::<merkle_tree::optimal_merkle_tree::OptimalMerkleTree<H> as merkle_tree::merkle_tree::ZerokitMerkleTree>::",
                "zerokit_utils::merkle_tree::optimal_merkle_tree::OptimalMerkleTree::<H>::"),
    "full": ("zerokit_utils::<merkle_tree::full_merkle_tree::FullMerkleTree<H> as merkle_tree::merkle_tree::ZerokitMerkleTree>::",
             "zerokit_utils::merkle_tree::full_merkle_tree::FullMerkleTree::<H>::"),
}
FLAGS = "cached_leaves_indices"


def pos_of(ix):
    """classify an index term"""
    rv = range_var(ix)
    if rv is not None:
        return ("range", rv[0], rv[1])
    # element of a by-value or by-reference iteration over a sequence
    if isinstance(ix, tuple) and ix[0] == "unwrap" and isinstance(ix[1], tuple) and ix[1][0] == "call" and re.search(r"(slice::Iter<'a, T>|vec::IntoIter<T, A>) as std::iter::Iterator>::next$", ix[1][1]):
        src = ix[1][2][0]
        if isinstance(src, tuple) and src[0] == "phi":
            src = src[4]
        return ("elems", src)
    return ("single", ix)


def seq_len(xs):
    """symbolic length of a sequence term passed to a range write"""
    if not isinstance(xs, tuple):
        return ("len", xs)
    if xs[0] == "phi" and xs[4] is not None:
        return seq_len(xs[4])
    if xs[0] == "call" and xs[1] == "std::vec::from_elem":
        return xs[2][1]
    if xs[0] == "call" and xs[1].endswith("Iterator::map") and isinstance(xs[2][0], tuple) and xs[2][0][0] == "adt" and xs[2][0][1].endswith("ops::Range"):
        lo, hi = xs[2][0][4]
        return fold_bin("Sub", norm_num(hi), norm_num(lo))
    if xs[0] == "call" and xs[1].endswith("iter::once"):
        return mk_const("usize", 1)
    if xs[0] == "with":
        return seq_len(xs[1])
    return ("len", xs)


def norm_num(t):
    """`&usize + usize` and similar operator calls -> bin terms"""
    if isinstance(t, tuple) and t and t[0] == "call" and re.search(r"std::ops::Add<usize>>::add$", t[1]):
        return fold_bin("Add", norm_num(t[2][0]), norm_num(t[2][1]))
    if isinstance(t, tuple) and t and t[0] == "call" and re.search(r"std::ops::Sub<usize>>::sub$", t[1]):
        return fold_bin("Sub", norm_num(t[2][0]), norm_num(t[2][1]))
    return t


def canon(pos):
    """canonical, comparable form of a position set"""
    if pos[0] == "single":
        lo = norm_num(pos[1])
        return ("range", lkey(lo), lkey(fold_bin("Add", lo, mk_const("usize", 1))))
    if pos[0] == "range":
        return ("range", lkey(norm_num(pos[1])), lkey(norm_num(pos[2])))
    return pos


def lkey(t):
    l = linear.lin(t)
    return (tuple(sorted(((repr(a), c) for a, c in l[0].items()))), l[1])


def show_pos(pos):
    if pos[0] == "single":
        return "{%s}" % sh(pos[1], 70)
    if pos[0] == "range":
        return "[%s, %s)" % (sh(norm_num(pos[1]), 70), sh(norm_num(pos[2]), 70))
    return "elements of %s" % sh(pos[1], 50)


INNER = [
    (r"MerkleTree::<D, H>::set$", lambda a: [("w", ("single", a[1]))]),
    (r"MerkleTree::<D, H>::set_range$", lambda a: [("w", ("range", a[1], fold_bin("Add", norm_num(a[1]), seq_len(a[2]))))]),
    (r"MerkleTree::<D, H>::update_next$", lambda a: [("w", ("single", ("call", "zerokit_utils::vacp2p_pmtree::MerkleTree::<D, H>::leaves_set", (a[0],))))]),
    (r"MerkleTree::<D, H>::delete$", lambda a: [("w", ("single", a[1]))]),
    (r"ZerokitMerkleTree>::set$", lambda a: [("w", ("single", a[1])), ("f1", ("single", a[1]))]),
    (r"ZerokitMerkleTree>::set_range$", lambda a: [("w", ("range", a[1], fold_bin("Add", norm_num(a[1]), seq_len(a[2])))), ("f1", ("range", a[1], fold_bin("Add", norm_num(a[1]), seq_len(a[2]))))]),
    (r"HashMap::<K, V, S, A>::insert$", lambda a: [("w", pos_of(a[1][1][1]))] if isinstance(a[1], tuple) and a[1][0] == "tuple" else []),
]


def summarize(fb, item, ok_only=True):
    """{'w': [pos], 'f1': [pos], 'f0': [pos], 'hw': [term], 'paths': .., 'eng': ..} over all paths that can still end in Ok"""
    eng = Engine(fb, inline=lambda i: False, max_paths=4000)
    paths = eng.run(item)
    res = {"w": [], "f1": [], "f0": [], "hw": [], "paths": paths, "eng": eng, "events": []}
    seen = set()
    for p in paths:
        if p.kind == "diverge":
            continue
        if p.kind == "return":
            rv = eng.value_of(p.store, p.ret)
            if known_ok(rv) is False:
                continue
        for e in p.trace:
            if e[0] == "write" and e[1][1] == -1 and e[2] and e[2][0] == ("f", FLAGS) and len(e[2]) == 2 and e[2][1][0] == "idx":
                v = cint(e[3])
                pos = pos_of(e[2][1][1])
                k = ("f", v, canon(pos))
                if k not in seen:
                    seen.add(k)
                    res["f1" if v == 1 else "f0"].append(pos)
                    res["events"].append(("flag", v, pos, e[4]))
            elif e[0] == "store_through_value" and isinstance(e[1], tuple) and e[1][0] == "unwrap" and isinstance(e[1][1], tuple) and e[1][1][0] == "call" \
                    and e[1][1][1].endswith("IterMut<'a, T> as std::iter::Iterator>::next") and e[1][1][2]:
                # `for flag in &mut self.flags[lo..hi] { *flag = v }`: every element of the slice is stored (the store must be on every
                # iteration of that loop: checked below over the back-edge paths)
                src = e[1][1][2][0]
                while isinstance(src, tuple) and src and src[0] == "phi" and src[4] is not None:
                    src = src[4]
                while isinstance(src, tuple) and src and src[0] == "call" and re.search(r"::(iter_mut|into_iter)$", src[1]) and src[2]:
                    src = src[2][0]
                if isinstance(src, tuple) and src and src[0] == "slice" and src[1] == ("field", ("param", 1), ("f", FLAGS)) and cint(e[2]) in (0, 1):
                    every = all(any(x[0] == "store_through_value" and x[1] == e[1] for x in q.trace) for q in paths if q.kind == "backedge" and any(x[0] == "call" and ("call", x[1], x[2]) == e[1][1] for x in q.trace))
                    if every:
                        v = cint(e[2])
                        hi = src[3] if src[3] is not None else ("len", src[1])
                        pos = ("range", src[2], hi)
                        k = ("f", v, canon(pos))
                        if k not in seen:
                            seen.add(k)
                            res["f1" if v == 1 else "f0"].append(pos)
                            res["events"].append(("flag", v, pos, e[3] if len(e) > 3 else None))
            elif e[0] == "write" and e[1][1] == -1 and len(e[2]) == 2 and e[2][0] == ("f", "nodes") and e[2][1][0] == "idx":
                # FullMerkleTree keeps the leaves in the implicit heap at node index capacity - 1 + position: a direct store at
                # nodes[(capacity + start - 1) + k] is a write of leaf position start + k
                from .symex import subst, mk_const
                ix = e[2][1][1]
                one = mk_const("usize", 1)
                caps = [("bin", "Shl", one, ("field", ("param", 1), ("f", "depth")))] + \
                    [x for x in subterms(ix) if x[0] == "call" and x[1].endswith("ZerokitMerkleTree>::capacity")]
                m_ = {}
                for c_ in caps:
                    for add in (("bin", "Add", c_, ("param", 2)), ("bin", "Add", ("param", 2), c_)):
                        m_[("bin", "Sub", add, one)] = ("param", 2)
                leafpos = subst(ix, m_)
                if leafpos != ix:
                    pos = pos_of(leafpos)
                    k = ("w", canon(pos))
                    if k not in seen:
                        seen.add(k)
                        res["w"].append(pos)
                        res["events"].append(("w", None, pos, e[4]))
            elif e[0] == "write" and e[1][1] == -1 and e[2] == (("f", "next_index"),):
                if ("hw", e[3]) not in seen:
                    seen.add(("hw", e[3]))
                    res["hw"].append(e[3])
            elif e[0] == "call":
                for rx, fn in INNER:
                    if re.search(rx, e[1]):
                        # the receiver must be (a version of) self / self.tree
                        for kind, pos in fn(e[2]):
                            k = (kind, canon(pos))
                            if k not in seen:
                                seen.add(k)
                                res[kind].append(pos)
                                res["events"].append((kind, None, pos, e[3]))
    return res


def same_sets(a, b):
    return sorted(map(repr, (canon(x) for x in a))) == sorted(map(repr, (canon(x) for x in b)))


def field_writers(fb, field, files):
    """{function name: item} for every function (closures attributed to their parent) of the given files whose MIR assigns to, or mutably
    borrows, a place that projects `field` - a syntactic who-may-write inventory over the type-checked MIR"""
    out = {}
    for path, it in sorted(fb.items.items()):
        if it.kind not in ("Fn", "AssocFn", "Closure") or it.file not in files or it.get("test"):
            continue
        hit = []

        def walk(x):
            if isinstance(x, dict):
                if "l" in x and "proj" in x and any(pr[0] == "field" and len(pr) > 2 and pr[2] == field for pr in x["proj"]):
                    hit.append(x)
                for v in x.values():
                    walk(v)
            elif isinstance(x, list):
                for v in x:
                    walk(v)
        for b in it.blocks:
            for st in b["stmts"]:
                if st.get("k") == "assign":
                    walk(st["p"])
                    rv = st.get("rv", {})
                    if rv.get("k") == "ref" and rv.get("m") == "mut":
                        walk(rv.get("p"))
            t = b["term"]
            if t["k"] == "call" and t.get("dest"):
                walk(t["dest"])
        if hit:
            out[path] = it
    # a private helper that did not exist when the inventory was frozen (an `extract function` refactor) writes on behalf of its
    # callers: it is replaced by the functions of these files that call it (transitively), which must then be allowed writers
    from .symex import known_functions
    known = known_functions()
    changed = True
    rounds = 0
    while changed and rounds < 4:
        changed = False
        rounds += 1
        for path, it in list(out.items()):
            base = path.split("::{closure")[0]
            if it.kind == "Closure" or base in known or base.split("@")[0] in known:
                continue
            callers = {}
            for p2, it2 in fb.items.items():
                if it2.kind not in ("Fn", "AssocFn", "Closure") or it2.file not in files or p2 == path:
                    continue
                for b in it2.blocks:
                    t = b["term"]
                    if t["k"] == "call" and (t.get("resolved") or t.get("callee") or "") == path:
                        callers[p2] = it2
            if callers:
                del out[path]
                out.update(callers)
                changed = True
    return out


def batch_validated(fb, p, upto):
    """(start <= capacity, start + len(leaves) <= capacity, every removal index < capacity) as they follow from the conditions of path
    `p` before trace position `upto`, for an `override_range(self, start, leaves, indices)` body - whatever the spelling or grouping
    of the guards (one compound test or several, `any(>=)` false or `all(<)` true, negated forms). `capacity` may appear as the
    call or inlined as 1 << depth."""
    from . import panics
    from .lib import P, F
    from .symex import mk_const
    caps = [("bin", "Shl", mk_const("usize", 1), F(P(1), "depth"))]
    for e in p.trace[:upto]:
        if e[0] == "call" and e[1].endswith("ZerokitMerkleTree>::capacity") and e[2] == (P(1),):
            caps.append(("call", e[1], e[2]))
    old = panics.FB
    panics.FB = fb
    try:
        fa = panics.facts_of(p.trace, upto)
        v_start = any(fa.le(P(2), c) for c in caps)
        v_fit = v_start and any(fa.le(("bin", "Add", P(2), ("len", P(3))), c) for c in caps)
        is_cap = lambda bd: bd in caps or (isinstance(bd, tuple) and bd and bd[0] == "call" and bd[1].endswith("ZerokitMerkleTree>::capacity") and bd[2] == (P(1),)) \
            or any(fa.le(bd, c) for c in caps)
        v_idx = any(panics.strip_iter(sq) == P(4) and is_cap(bd) for sq, bd in fa.forall)
    finally:
        panics.FB = old
    return v_start, v_fit, v_idx
