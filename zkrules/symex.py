"""A3: path-enumerating symbolic evaluation of JSON MIR into hash-consed terms.

No code of the subject is executed and no solver is used: this is an abstract
interpretation of each function's MIR over a free term algebra. Branches fork the
state; loops are explored once with carried variables havoced to phi terms (the
back-edge state is the loop-body summary); panic/unwind edges are not followed but
every panic site is recorded as an obligation in the path trace.

Terms are plain tuples:
  ('param', i) ('const', ty, int) ('str', s) ('bytes', tuple) ('item', path) ('fn', path)
  ('adt', path, variant, names, vals) ('tuple', vals) ('array', vals) ('closure', path, vals)
  ('field', t, key) ('as', t, variant) ('idx', t, i) ('slice', t, lo, hi|None) ('len', t)
  ('bin', op, a, b) ('un', op, a) ('cast', ty, a) ('discr', t)
  ('call', callee, args) ('upd', callee, k, args) ('phi', fn, header, name, n)
  ('ok', r) ('unwrap', r) ('residual', r) ('from_residual', r) ('with', base, key, v)
  ('ref', cell, path)   -- pointer to a place of some frame (never escapes into value terms)
"""
import re
import sys

sys.setrecursionlimit(20000)

MAXU = {"u8": 8, "u16": 16, "u32": 32, "u64": 64, "u128": 128, "usize": 64,
        "i8": 8, "i16": 16, "i32": 32, "i64": 64, "i128": 128, "isize": 64}


INLINE_SWITCHES = 6


class TooComplex(Exception):
    pass


class Path:
    __slots__ = ("kind", "ret", "trace", "store", "frame", "loop", "site")

    def __init__(self, kind, ret, trace, store, frame, loop=None, site=None):
        self.kind = kind      # 'return' | 'diverge' | 'backedge' | 'unreachable'
        self.ret = ret
        self.trace = trace    # ordered events (tuples)
        self.store = store
        self.frame = frame
        self.loop = loop
        self.site = site

    def conds(self):
        return [(e[1], e[2]) for e in self.trace if e[0] == "cond"]

    def calls(self, pat=None):
        r = [e for e in self.trace if e[0] == "call"]
        if pat:
            rx = re.compile(pat)
            r = [e for e in r if rx.search(e[1])]
        return r

    def obligations(self):
        return [e for e in self.trace if e[0] == "oblig"]

    def param_final(self, i):
        """final value of the cell behind reference parameter i"""
        return self.store.get((self.frame, -i))


def is_const(t):
    return isinstance(t, tuple) and t and t[0] == "const"


def cint(t):
    return t[2] if is_const(t) and isinstance(t[2], int) else None


def mk_const(ty, v):
    return ("const", ty, v)


def strip_ty(ty):
    return ty


# ---------------------------------------------------------------- callee summaries
IDENTITY_RX = [re.compile(x) for x in [
    r"as std::ops::Deref>::deref$", r"as std::ops::DerefMut>::deref_mut$",
    r"std::convert::AsRef<.*>::as_ref$", r"std::convert::AsMut<.*>::as_mut$",
    r"::as_slice$", r"::as_mut_slice$", r"std::borrow::Borrow<.*>::borrow$",
    r"std::clone::Clone>?::clone$", r"<impl \[T\]>::to_vec$",
    r"std::borrow::ToOwned.*::to_owned$", r"::as_bytes$",
    r"std::iter::IntoIterator.*::into_iter$", r"<impl \[T\]>::iter$",
    r"<impl \[T\]>::iter_mut$", r"std::iter::Iterator>?::collect$",
    r"^std::vec::Vec::<T, A>::into_iter$",
    r"std::iter::Iterator>?::copied$", r"std::iter::Iterator>?::cloned$",
    r"^std::vec::Vec::<T, A>::as_ptr$|<impl \[T\]>::as_ptr$",
    r"^std::boxed::Box::<T>::new$", r"^std::io::Cursor::<T>::new$", r"^std::io::Cursor::<T>::into_inner$",
    r"^std::convert::identity$", r"^std::hint::must_use$",
]]
VALUE_IDENTITY = ("clone", "to_vec", "to_owned", "collect", "copied", "cloned", "new", "into_inner", "must_use")

FIELD_TY = r"(ark_ff::Fp<P, N>|proto::Fr)"
FIELD_OP_RX = re.compile(r"<(&'?\w* ?)?" + FIELD_TY + r" as std::ops::(Add|Sub|Mul|Div)(<.*>)?>::(add|sub|mul|div)$")
GEN_OP_RX = re.compile(r"^std::ops::(Add|Sub|Mul|Div)::(add|sub|mul|div)$")
GEN_OPA_RX = re.compile(r"^std::ops::(Add|Sub|Mul|Div)Assign::(add|sub|mul|div)_assign$")
FIELD_OPA_RX = re.compile(r"<" + FIELD_TY + r" as std::ops::(Add|Sub|Mul|Div)Assign(<.*>)?>::(add|sub|mul|div)_assign$")


SUBST_NAMED_RX = re.compile(r"::storage::read_message$|^prost::Message::decode$|^std::mem::size_of$|<impl \[T\]>::split_first_chunk$")


def callee_name(t):
    n = t.get("resolved") or t.get("callee") or "<fnptr>"
    if n.startswith("<T as ") or n.startswith("std::convert::") or n.startswith("<I as ") or n.startswith("<U as ") \
            or n.startswith("byteorder::") or SUBST_NAMED_RX.search(n):
        n = n + "@" + (t.get("resolved_substs") or t.get("substs") or "")
    return n


def split_substs(s):
    """'[A, B<C, D>]' -> ['A', 'B<C, D>']"""
    s = s.strip()
    if s.startswith("[") and s.endswith("]"):
        s = s[1:-1]
    out, depth, cur = [], 0, ""
    for ch in s:
        if ch in "<([":
            depth += 1
        elif ch in ">)]":
            depth -= 1
        if ch == "," and depth == 0:
            out.append(cur.strip())
            cur = ""
        else:
            cur += ch
    if cur.strip():
        out.append(cur.strip())
    return out


class Engine:
    def __init__(self, fb, inline=None, max_paths=6000, max_depth=4, opaque=(), loop_unroll=None):
        self.fb = fb
        self.inline_policy = inline
        self.max_paths = max_paths
        self.max_depth = max_depth
        self.opaque = set(opaque)
        self.nframes = 0
        self.npaths = 0
        self._shape_cache = {}

    # ------------------------------------------------------------ public entry
    def run(self, item, args=None, store=None):
        """Symbolically evaluate `item`. args: list of terms for params 1..n (default ('param', i)).
        Reference-typed parameters get a synthetic cell so that writes through them are visible."""
        self.npaths = 0
        st = dict(store or {})
        frame = self._new_frame()
        n = item.arg_count
        for i in range(1, n + 1):
            ty = item.locals[i]["ty"]
            if args is not None and i - 1 < len(args) and args[i - 1] is not None:
                st[(frame, i)] = args[i - 1]
            elif ty.startswith("&") or ty.startswith("*mut") or ty.startswith("*const"):
                st[(frame, -i)] = ("param", i)
                st[(frame, i)] = ("ref", (frame, -i), ())
            else:
                st[(frame, i)] = ("param", i)
        paths = []
        self._exec(item, frame, 0, st, [], paths, depth=0, loops=())
        canon_counters(paths)
        return paths

    def _new_frame(self):
        self.nframes += 1
        return self.nframes

    # ------------------------------------------------------------ CFG helpers
    def shape(self, item):
        key = item.path + "@" + str(id(item))
        if key in self._shape_cache:
            return self._shape_cache[key]
        blocks = item.blocks
        succ = {}
        for i, b in enumerate(blocks):
            if b["cleanup"]:
                continue
            t = b["term"]
            k = t["k"]
            if k == "goto" or k == "drop" or k == "assert":
                s = [t["t"]]
            elif k == "switch":
                s = [x[1] for x in t["ts"]] + [t["o"]]
            elif k == "call":
                s = [t["t"]] if t["t"] is not None else []
            else:
                s = []
            succ[i] = s
        # back edges via DFS
        color = {}
        back = set()
        stack = [(0, iter(succ.get(0, [])))]
        color[0] = 1
        while stack:
            n, it = stack[-1]
            adv = False
            for m in it:
                if color.get(m, 0) == 0:
                    color[m] = 1
                    stack.append((m, iter(succ.get(m, []))))
                    adv = True
                    break
                elif color.get(m) == 1:
                    back.add((n, m))
            if not adv:
                color[n] = 2
                stack.pop()
        headers = {}
        pred = {}
        for n, ss in succ.items():
            for m in ss:
                pred.setdefault(m, []).append(n)
        for (n, h) in back:
            body = headers.setdefault(h, set([h]))
            work = [n]
            while work:
                x = work.pop()
                if x in body:
                    continue
                body.add(x)
                work.extend(pred.get(x, []))
        res = {"succ": succ, "back": back, "loops": headers}
        self._shape_cache[key] = res
        return res

    def has_loops(self, item):
        return bool(self.shape(item)["loops"])

    # ------------------------------------------------------------ store / places
    def load_cell(self, st, cell, path):
        v = st.get(cell)
        if v is None:
            v = ("uninit", cell[1])
        for key in path:
            v = project(v, key)
        return v

    def store_cell(self, st, cell, path, val):
        if cell[0] == "heap":
            path = tuple(k for k in path if not (k[0] == "f" and k[1] in ("value", "0")))
        if not path:
            st[cell] = val
            return
        old = st.get(cell, ("uninit", cell[1]))
        st[cell] = with_path(old, path, val)

    def resolve_place(self, item, frame, st, place):
        """returns ('loc', cell, path) or ('val', term) for non-addressable values"""
        cell = (frame, place["l"])
        path = ()
        val = None  # when not addressable
        for pr in place["proj"]:
            k = pr[0]
            if k == "deref":
                cur = self.load_cell(st, cell, path) if val is None else val
                if isinstance(cur, tuple) and cur and cur[0] == "ref":
                    cell, path, val = cur[1], cur[2], None
                else:
                    val = cur
                continue
            if k == "field":
                key = ("f", pr[2] if pr[2] != "" else str(pr[1]))
            elif k == "index":
                key = ("idx", self.load_cell(st, (frame, pr[1]), ()))
            elif k == "cidx":
                key = ("idx", mk_const("usize", pr[1])) if not pr[3] else ("idx_from_end", pr[1])
            elif k == "sub":
                key = ("sub", pr[1], pr[2], pr[3])
            elif k == "down":
                key = ("as", pr[2] if pr[2] else str(pr[1]))
            else:
                key = (k,)
            if val is None:
                path = path + (key,)
            else:
                val = project(val, key)
        if val is None:
            return ("loc", cell, path)
        return ("val", val)

    def read_place(self, item, frame, st, place):
        r = self.resolve_place(item, frame, st, place)
        if r[0] == "loc":
            return self.load_cell(st, r[1], r[2])
        return r[1]

    def write_place(self, item, frame, st, place, val, trace, site):
        r = self.resolve_place(item, frame, st, place)
        if r[0] == "loc":
            self.store_cell(st, r[1], r[2], val)
            if isinstance(r[1][1], int) and r[1][1] < 0:
                trace.append(("write", r[1], r[2], val, site))
        else:
            trace.append(("store_through_value", r[1], val, site))

    def const_term(self, c):
        if "fn" in c:
            return ("fn", c["fn"])
        if "closure" in c:
            return ("closure", c["closure"], ())
        if "static" in c:
            return ("item", c["static"])
        if "fnptr_to" in c:
            return ("fn", c["fnptr_to"])
        if "v" in c:
            return mk_const(c["ty"], int(c["v"]))
        if "bytes" in c and (c.get("bytes_len", 0) <= 1024):
            if c["ty"].startswith("&str") or c["ty"] == "&'static str" or "str" in c["ty"]:
                try:
                    return ("str", bytes(c["bytes"]).decode())
                except Exception:
                    pass
            return ("bytes", tuple(c["bytes"]))
        if "item" in c:
            if "promoted" in c:
                return ("promoted", c["item"], int(c["promoted"]))
            if "mem" in c:
                return ("constmem", c["item"], tuple(c["mem"]))
            return ("item", c["item"])
        if c.get("zst"):
            return ("zst", c["ty"])
        if "mem" in c:
            return ("mem", c["ty"], tuple(c["mem"]))
        disp = c.get("disp", "")
        if re.match(r"^&(\'\w+ )?\[u8; \d+\]$", c.get("ty", "")) and disp.startswith('b"'):
            try:
                import ast
                bs = tuple(ast.literal_eval(disp))
                if len(bs) == int(re.search(r"; (\d+)\]$", c["ty"]).group(1)):
                    return ("bytes", bs)
            except Exception:
                pass
        return ("lit", c["ty"], disp)

    def operand(self, item, frame, st, o):
        if "cp" in o:
            return self.read_place(item, frame, st, o["cp"])
        if "mv" in o:
            return self.read_place(item, frame, st, o["mv"])
        c = o["c"]
        t = self.const_term(c)
        if t[0] == "promoted":
            # evaluate promoted body (straight-line) lazily
            try:
                pit = item.d["promoted"][t[2]]
                v = self.eval_promoted(item, pit)
                if v is not None:
                    return v
            except Exception:
                pass
        return t

    def eval_promoted(self, item, pbody):
        class P:
            pass
        p = P()
        p.d = dict(pbody)
        p.d["promoted"] = item.d.get("promoted", [])
        p.path = item.path + "::promoted"
        p.blocks = pbody["blocks"]
        p.locals = pbody["locals"]
        p.arg_count = 0
        p.file = item.file
        p.line = item.line
        p.kind = "Promoted"
        p.get = lambda k, d=None: p.d.get(k, d)
        sub = Engine(self.fb, inline=self.inline_policy, max_paths=50, max_depth=1)
        paths = sub.run(p)
        rets = [x for x in paths if x.kind == "return"]
        if len(rets) == 1:
            r = rets[0].ret
            if isinstance(r, tuple) and r and r[0] == "ref":
                r = sub.load_cell(rets[0].store, r[1], r[2])
            return deref_all(r, rets[0].store, sub)
        return None

    # ------------------------------------------------------------ rvalues
    def rvalue(self, item, frame, st, rv, site):
        k = rv["k"]
        if k == "use":
            return self.operand(item, frame, st, rv["o"])
        if k == "ref" or k == "rawptr":
            r = self.resolve_place(item, frame, st, rv["p"])
            if r[0] == "loc":
                return ("ref", r[1], r[2])
            return r[1]
        if k == "bin":
            a = self.value_of(st, self.operand(item, frame, st, rv["a"]))
            b = self.value_of(st, self.operand(item, frame, st, rv["b"]))
            return fold_bin(rv["op"], a, b)
        if k == "un":
            a = self.value_of(st, self.operand(item, frame, st, rv["o"]))
            if rv["op"] == "PtrMetadata":
                return fold_len(a)
            if rv["op"] == "Not":
                if is_const(a) and a[1] == "bool":
                    return mk_const("bool", 1 - a[2])
                if isinstance(a, tuple) and a[0] == "un" and a[1] == "Not":
                    return a[2]
            return ("un", rv["op"], a)
        if k == "cast":
            a = self.operand(item, frame, st, rv["o"])
            ck = rv["ck"]
            if ck.startswith("PointerCoercion") or ck.startswith("PtrToPtr") or ck.startswith("Transmute"):
                return a
            a = self.value_of(st, a)
            ty = rv["ty"]
            if is_const(a) and isinstance(a[2], int) and ty in MAXU:
                return mk_const(ty, a[2] & ((1 << MAXU[ty]) - 1))
            return ("cast", ty, a)
        if k == "discr":
            v = self.value_of(st, self.read_place(item, frame, st, rv["p"]))
            return discr_of(v, rv.get("pty", ""), self.fb)
        if k == "agg":
            kd = rv["kind"]
            ops = tuple(self.operand(item, frame, st, o) for o in rv["ops"])
            a = kd["a"]
            if a == "adt":
                VARIANT_INDEX[(kd["path"], kd["vn"])] = kd.get("vi")
                return ("adt", kd["path"], kd["vn"], tuple(kd["fields"]), ops)
            if a == "tuple":
                return ("tuple", ops)
            if a == "array":
                return ("array", ops)
            if a == "closure":
                # captures by shared reference are snapshots of the captured values (they cannot change while the
                # closure lives); captures by &mut stay pointers so that writes through them are seen
                it_c = self.fb.items.get(kd["path"]) if hasattr(self.fb, "items") else None
                ups = (it_c.get("upvars") if it_c is not None else None) or []
                ops2 = []
                for i, v in enumerate(ops):
                    ty = ups[i] if i < len(ups) else ""
                    if isinstance(v, tuple) and v and v[0] == "ref" and ty.startswith("&") and not ty.startswith("&mut"):
                        v = self.value_of(st, v)
                    ops2.append(v)
                return ("closure", kd["path"], tuple(ops2))
            return ("agg", a, ops)
        if k == "repeat":
            v = self.operand(item, frame, st, rv["o"])
            return ("repeat", v, rv["n"])
        if k == "tls":
            return ("item", rv["path"])
        return ("opaque_rvalue", rv.get("dbg", k))

    def value_of(self, st, t):
        """load through a pointer: the value a reference denotes"""
        n = 0
        while isinstance(t, tuple) and t and t[0] == "ref" and n < 8:
            t = self.load_cell(st, t[1], t[2])
            n += 1
        return t

    # ------------------------------------------------------------ execution
    def _exec(self, item, frame, bb, st, trace, out, depth, loops, cont=None):
        """DFS over the non-cleanup CFG. `cont(kind, ret, st, trace)` is invoked at function exit
        when the frame is an inlined callee; otherwise paths are appended to `out`."""
        shape = self.shape(item)
        work = [(bb, st, trace, loops)]
        while work:
            bb, st, trace, loops = work.pop()
            while True:
                if self.npaths > self.max_paths:
                    raise TooComplex("%s: more than %d paths" % (item.path, self.max_paths))
                # loop header handling
                if bb in shape["loops"] and self.array_loop(item, frame, bb, shape["loops"][bb], st):
                    pass    # a loop over an array literal of known length is evaluated iteration by iteration (its iterator is concrete)
                elif bb in shape["loops"]:
                    if (frame, bb) in loops:
                        self.npaths += 1
                        p = Path("backedge", None, trace, st, frame, loop=bb)
                        if cont:
                            cont(p)
                        else:
                            out.append(p)
                        break
                    st = dict(st)
                    trace = list(trace)
                    self.havoc_loop(item, frame, bb, shape["loops"][bb], st, trace)
                    loops = loops + ((frame, bb),)
                blk = item.blocks[bb]
                for s in blk["stmts"]:
                    if s["k"] == "assign":
                        site = (item.path, s["sp"][0], s.get("exp", ""))
                        v = self.rvalue(item, frame, st, s["rv"], site)
                        self.write_place(item, frame, st, s["p"], v, trace, site)
                    elif s["k"] == "setdiscr":
                        pass
                t = blk["term"]
                k = t["k"]
                site = (item.path, t["sp"][0], t.get("exp", ""))
                if k == "goto":
                    bb = t["t"]
                    continue
                if k == "drop":
                    bb = t["t"]
                    continue
                if k == "return":
                    self.npaths += 1
                    ret = st.get((frame, 0), ("unit",))
                    p = Path("return", ret, trace, st, frame, site=site)
                    if cont:
                        cont(p)
                    else:
                        out.append(p)
                    break
                if k == "unreachable":
                    break
                if k == "assert":
                    c = self.value_of(st, self.operand(item, frame, st, t["cond"]))
                    exp = 1 if t["expected"] else 0
                    if t["ak"] in ("MisalignedPointer", "NullPointer"):
                        bb = t["t"]
                        continue
                    if not (is_const(c) and c[2] == exp):
                        aops = tuple(self.value_of(st, self.operand(item, frame, st, o)) for o in t["aops"])
                        trace.append(("oblig", t["ak"], aops, site, c, exp))
                        if is_const(c) and c[2] != exp:
                            # definitely panics
                            self.npaths += 1
                            p = Path("diverge", None, trace, st, frame, site=site)
                            (cont or out.append)(p)
                            break
                    bb = t["t"]
                    continue
                if k == "switch":
                    d = self.value_of(st, self.operand(item, frame, st, t["d"]))
                    dty = t.get("dty", "")
                    targets = [(int(v), b) for v, b in t["ts"]]
                    if is_const(d) and isinstance(d[2], int):
                        nb = t["o"]
                        for v, b in targets:
                            if v == d[2]:
                                nb = b
                        bb = nb
                        continue
                    branches = []
                    for v, b in targets:
                        branches.append((("eq", v), b))
                    branches.append((("notin", tuple(v for v, _ in targets)), t["o"]))
                    feasible = []
                    for cv, b in branches:
                        if item.blocks[b]["term"]["k"] == "unreachable" and not item.blocks[b]["stmts"]:
                            continue
                        ok, atom, val = norm_cond(d, dty, cv)
                        if atom[0] == "ok":
                            ko = known_ok(atom[1])
                            if ko is not None:
                                if val is not None and val != ko:
                                    continue
                                feasible.append((b, None, None))
                                continue
                        if not consistent(trace, atom, val):
                            continue
                        feasible.append((b, atom, val))
                    if not feasible:
                        break
                    for (b, atom, val) in feasible[1:]:
                        st2 = dict(st)
                        tr2 = list(trace)
                        if atom is not None:
                            tr2.append(("cond", atom, val, site))
                        work.append((b, st2, tr2, loops))
                    b, atom, val = feasible[0]
                    if atom is not None:
                        trace.append(("cond", atom, val, site))
                    bb = b
                    continue
                if k == "call":
                    nxt = self.do_call(item, frame, st, trace, t, site, depth, loops, work, out, cont)
                    if nxt is None:
                        break
                    bb = nxt
                    continue
                # other terminators: stop
                break

    ARRAY_NEXT_RX = re.compile(r"^<std::array::IntoIter<T, N> as std::iter::Iterator>::next$")

    def array_loop(self, item, frame, header, body, st):
        """True when the loop at `header` is driven by `for x in [a, b, ..]` over an array literal whose elements are known here
        (at most 16): its iterator becomes a concrete cursor and the body is evaluated once per element instead of being
        summarised; the cursor is created on first entry and found again on the later ones"""
        for b in body:
            t = item.blocks[b]["term"]
            if t["k"] != "call" or not self.ARRAY_NEXT_RX.search(callee_name(t).split("@")[0]):
                continue
            a = t["args"][0]
            pl = a.get("cp") or a.get("mv")
            if pl is None:
                return False
            # `next(&mut iter)`: the argument is a temporary holding &mut iter, assigned in the same block
            def borrowed(l):
                for s_ in item.blocks[b]["stmts"]:
                    if s_["k"] == "assign" and s_["p"]["l"] == l and not s_["p"]["proj"] and s_["rv"]["k"] in ("ref", "rawptr"):
                        return s_["rv"]["p"]
                return None
            src = borrowed(pl["l"])
            n_ = 0
            while src is not None and len(src["proj"]) == 1 and src["proj"][0][0] == "deref" and n_ < 3:
                src = borrowed(src["l"])      # a reborrow `&mut *tmp` of `tmp = &mut iter`
                n_ += 1
            if src is None or src["proj"]:
                return False
            key = (frame, src["l"])
            v = st.get(key)
            if isinstance(v, tuple) and v and v[0] == "arrayiter":
                return True
            if isinstance(v, tuple) and v and v[0] == "array" and 0 < len(v[1]) <= 16:
                st[key] = ("arrayiter", v[1], 0)
                return True
            return False
        return False

    def havoc_loop(self, item, frame, header, body, st, trace):
        assigned = set()
        deref_written = set()
        for b in body:
            blk = item.blocks[b]
            for s in blk["stmts"]:
                if s["k"] == "assign":
                    p = s["p"]
                    if any(pr[0] == "deref" for pr in p["proj"]):
                        deref_written.add(p["l"])
                    else:
                        assigned.add(p["l"])
                    rv = s["rv"]
                    if rv["k"] in ("ref", "rawptr") and rv.get("m") in ("mut", "Mut"):
                        q = rv["p"]
                        if any(pr[0] == "deref" for pr in q["proj"]):
                            deref_written.add(q["l"])
                        else:
                            assigned.add(q["l"])
            t = blk["term"]
            if t["k"] == "call":
                d = t["dest"]
                if any(pr[0] == "deref" for pr in d["proj"]):
                    deref_written.add(d["l"])
                else:
                    assigned.add(d["l"])
        names = {i: (l["name"] or ("_%d" % i)) for i, l in enumerate(item.locals)}
        # pointee cells written through pointers held at loop entry
        cells = set()
        for l in deref_written:
            v = st.get((frame, l))
            n = 0
            while isinstance(v, tuple) and v and v[0] == "ref" and n < 4:
                cells.add((v[1], v[2]))
                v = self.load_cell(st, v[1], v[2])
                n += 1
        for l in sorted(assigned):
            old = st.get((frame, l))
            if old is None:
                continue  # temporaries defined inside the loop
            if isinstance(old, tuple) and old and old[0] == "ref":
                # a pointer variable reassigned in the loop: keep (pointers into frames stay valid)
                continue
            st[(frame, l)] = ("phi", item.path, header, names[l], old)
        for (cell, path) in sorted(cells, key=repr):
            nm = "cell%s%s" % (cell[1], "".join("." + str(k[1]) for k in path))
            self.store_cell(st, cell, path, ("phi", item.path, header, nm, self.load_cell(st, cell, path)))
        trace.append(("loop", item.path, header, tuple(sorted(names[l] for l in assigned if (frame, l) in st))))
        trace.append(("phis", item.path, header, tuple(((frame, l), st[(frame, l)]) for l in sorted(assigned)
                                                       if isinstance(st.get((frame, l)), tuple) and st[(frame, l)][0] == "phi")))

    # ------------------------------------------------------------ calls
    def from_impl(self, substs):
        """the workspace's `impl From<A> for B` for the substitution list '[A, B]' of a blanket Into::into call (lifetimes ignored)"""
        norm = lambda x: re.sub(r"'\{?\w+\}? ?", "", x).replace(" ", "").replace("rln::", "").replace("zerokit_utils::", "")
        tys = [norm(x) for x in split_substs(substs) if not x.strip().startswith("'")]
        if len(tys) != 2:
            return None
        a, b = tys
        hits = []
        for path, it in self.fb.items.items():
            if not path.endswith(">::from") or "convert::From<" not in path:
                continue
            q = norm(path)
            if ("std::convert::From<%s>for%s>::from" % (a, b)) in q or ("<%sasstd::convert::From<%s>>::from" % (b, a)) in q:
                hits.append(it)
        return hits[0] if len(hits) == 1 else None

    def should_inline(self, callee_item, depth):
        if callee_item is None:
            return False
        if callee_item.path in self.opaque:
            return False
        if depth >= self.max_depth + (2 if callee_item.path.split("@")[0] not in known_functions() else 0):
            return False
        # a helper that did not exist when the rules were written (not in the frozen inventory) and that is loop-free and small is
        # evaluated in place, whatever the rule's own inlining policy: `extract helper` refactors must not hide code from the rules
        if callee_item.kind in ("Fn", "AssocFn") and callee_item.crate in ("rln", "zerokit_utils") and callee_item.path.split("@")[0] not in known_functions() \
                and self.count_returns(callee_item) <= INLINE_SWITCHES + 6:
            # (a new helper that contains a loop - a function split in two - is evaluated in place as well: its loop is entered once,
            # like a loop of the caller)
            return True
        if self.inline_policy is not None:
            r = self.inline_policy(callee_item)
            if r is not None:
                return r
        if self.has_loops(callee_item):
            return False
        return self.count_returns(callee_item) <= INLINE_SWITCHES

    def count_returns(self, item):
        key = "rets@" + item.path + str(id(item))
        if key in self._shape_cache:
            return self._shape_cache[key]
        n = 0
        for b in item.blocks:
            if b["cleanup"]:
                continue
            if b["term"]["k"] == "switch":
                n += 1
        # a cheap proxy: number of switches bounds the number of paths
        self._shape_cache[key] = n
        return n

    def do_call(self, item, frame, st, trace, t, site, depth, loops, work, out, cont):
        if "fnptr" in t and not (t.get("resolved") or t.get("callee")):
            # a call through a function pointer whose value is known on this path (a workspace function handed to a helper that
            # was inlined, `cmp_fr(a, b, u_lt)`): it is a call of that function
            fv = self.value_of(st, self.operand(item, frame, st, t["fnptr"]))
            while isinstance(fv, tuple) and fv and fv[0] == "cast":
                fv = fv[2]
            if isinstance(fv, tuple) and len(fv) == 2 and fv[0] == "fn" and self.fb.lookup(fv[1]) is not None:
                t = dict(t, resolved=fv[1], callee=fv[1])
        name = callee_name(t)
        raw_args = [self.operand(item, frame, st, a) for a in t["args"]]
        # which args are mutable pointers
        mut_idx = []
        for i, a in enumerate(t["args"]):
            pl = a.get("cp") or a.get("mv")
            if pl is not None and not pl["proj"]:
                ty = item.locals[pl["l"]]["ty"]
                if ty.startswith("&mut") or ty.startswith("*mut"):
                    mut_idx.append(i)
        target = t["t"]
        # --- summaries (external callees only)
        if self.fb.lookup(t.get("resolved") or t.get("callee") or "") is not None and not FIELD_OP_RX.search(name) \
                and not FIELD_OPA_RX.search(name):
            res = NotImplemented
        else:
            res = self.summary(item, frame, st, trace, t, name, raw_args, mut_idx, site)
        if res is not NotImplemented:
            if target is None:
                self.npaths += 1
                p = Path("diverge", None, trace, st, frame, site=site)
                (cont or out.append)(p)
                return None
            self.write_place(item, frame, st, t["dest"], res, trace, site)
            return target
        # --- inlining of workspace callees
        force_inline = False
        callee_item = self.fb.lookup(t.get("resolved") or "") or self.fb.lookup(t.get("callee") or "")
        # a call through Fn/FnMut/FnOnce on a closure value that is known on this path (e.g. a closure passed to a generic helper
        # that was inlined): evaluate the closure's body with the untupled arguments
        if callee_item is None and re.search(r"ops::(function::)?Fn(Mut|Once)?(<.*>)?::call(_mut|_once)?$", name.split("@")[0]) and len(raw_args) >= 1:
            cv = self.value_of(st, raw_args[0])
            rest = list(raw_args[1:])
            if len(rest) == 1:
                av = self.value_of(st, rest[0])
                if isinstance(av, tuple) and av and av[0] == "tuple":
                    rest = list(av[1])       # the argument tuple of the rust-call ABI
            if isinstance(cv, tuple) and cv and cv[0] == "closure":
                ci = self.fb.items.get(cv[1])
                if ci is not None and ci.arg_count == 1 + len(rest) and not self.has_loops(ci) and self.count_returns(ci) <= INLINE_SWITCHES and depth < self.max_depth + 2:
                    callee_item = ci
                    raw_args = [cv] + rest
                    force_inline = True
        if callee_item is None and re.search(r"^<T as std::convert::Into<U>>::into@", name) and len(raw_args) == 1:
            # the blanket `impl<T, U: From<T>> Into<U> for T`: `x.into()` is `U::from(x)`; follow it to the workspace's From impl
            fi = self.from_impl(name.split("@", 1)[1])
            if fi is not None:
                callee_item = fi
                name = fi.path
                t = dict(t, resolved=fi.path, callee=fi.path)
        if callee_item is not None and callee_item.path != item.path and (force_inline or self.should_inline(callee_item, depth)):
            if target is None:
                self.npaths += 1
                (cont or out.append)(Path("diverge", None, trace, st, frame, site=site))
                return None
            cframe = self._new_frame()
            st2 = st  # continue in same dict; branches copy
            for i, a in enumerate(raw_args):
                st2[(cframe, i + 1)] = a
            trace.append(("enter", callee_item.path, tuple(self.value_of(st, a) for a in raw_args), site))
            engine = self

            def k(p, _item=item, _frame=frame, _t=t, _target=target, _depth=depth, _loops=loops):
                if p.kind != "return":
                    p2 = Path(p.kind, None, p.trace, p.store, _frame, loop=p.loop, site=p.site)
                    if p.kind == "backedge":
                        # the body of a loop inside an inlined callee (only helpers that are not in the frozen inventory are inlined
                        # with their loops): handed to the caller's rules as a loop body of its own, in the callee's frame
                        (cont or out.append)(Path("backedge", None, p.trace, p.store, p.frame, loop=p.loop, site=p.site))
                        return
                    (cont or out.append)(p2)
                    return
                st3 = p.store
                tr3 = p.trace
                tr3.append(("leave", callee_item.path, site))
                engine.write_place(_item, _frame, st3, _t["dest"], p.ret, tr3, site)
                engine._exec(_item, _frame, _target, st3, tr3, out, _depth, _loops, cont)

            self._exec(callee_item, cframe, 0, st2, trace, out, depth + 1, (), k)
            return None
        # --- opaque call
        argv = tuple(self.value_of(st, a) for a in raw_args)
        ret = ("call", name, argv)
        # havoc pointees of &mut args, and of &mut captures inside closure args
        for i in mut_idx:
            a = raw_args[i]
            if isinstance(a, tuple) and a and a[0] == "ref":
                self.store_cell(st, a[1], a[2], ("upd", name, i, argv))
        for i, a in enumerate(raw_args):
            a0 = a
            if isinstance(a0, tuple) and a0 and a0[0] == "ref":
                a0 = self.load_cell(st, a0[1], a0[2])
            for ptr in closure_mut_ptrs(a0, self.fb):
                self.store_cell(st, ptr[1], ptr[2], ("upd", name, ("capture", i), argv))
        trace.append(("call", name, argv, site, t.get("callee"), tuple(mut_idx)))
        if target is None:
            self.npaths += 1
            (cont or out.append)(Path("diverge", None, trace, st, frame, site=site))
            return None
        self.write_place(item, frame, st, t["dest"], ret, trace, site)
        return target

    def summary(self, item, frame, st, trace, t, name, raw_args, mut_idx, site):
        """semantic summaries of std/arkworks callees. Returns the result term or NotImplemented."""
        V = lambda a: self.value_of(st, a)
        n = len(raw_args)
        fullname = name
        name = name.split("@")[0]
        rs = t.get("resolved_substs") or t.get("substs") or ""
        for rx in IDENTITY_RX:
            if rx.search(name) and n >= 1:
                if name.rsplit("::", 1)[-1] in VALUE_IDENTITY:
                    return V(raw_args[0])
                return raw_args[0]
        if name.endswith("as std::ops::Index<I>>::index") or name.endswith("as std::ops::IndexMut<I>>::index_mut") \
                or re.search(r"core::slice::index::<impl std::ops::Index(Mut)?<I> for \[T\]>::index(_mut)?$", name) \
                or re.search(r"(core|std)::array::<impl std::ops::Index(Mut)?<I> for \[T; N\]>::index(_mut)?$", name):
            base, ix = raw_args[0], V(raw_args[1])
            rng = range_of(ix)
            kind = "index_mut" if "index_mut" in name else "index"
            bv = V(base)
            if rng is not None:
                lo, hi, full = rng
                trace.append(("oblig", "SliceIndex", (bv, lo, hi), site, None, None))
                if full:
                    return base
                if isinstance(base, tuple) and base and base[0] == "ref":
                    return ("ref", base[1], base[2] + (("slice", lo, hi),))
                return mk_slice(bv, lo, hi)
            if "HashMap" in rs.split(",")[0] if rs else False:
                trace.append(("oblig", "MapIndex", (bv, ix), site, None, None))
                return ("mapidx", bv, ix)
            trace.append(("oblig", "ElemIndex", (bv, ix), site, None, None))
            if isinstance(base, tuple) and base and base[0] == "ref":
                return ("ref", base[1], base[2] + (("idx", ix),))
            return project(bv, ("idx", ix))
        if self.ARRAY_NEXT_RX.search(name) and n == 1 and isinstance(raw_args[0], tuple) and raw_args[0][0] == "ref":
            cur = self.load_cell(st, raw_args[0][1], raw_args[0][2])
            if isinstance(cur, tuple) and cur and cur[0] == "arrayiter":
                elems, k = cur[1], cur[2]
                if k < len(elems):
                    self.store_cell(st, raw_args[0][1], raw_args[0][2], ("arrayiter", elems, k + 1))
                    return ("adt", "std::option::Option", "Some", ("0",), (elems[k],))
                return ("adt", "std::option::Option", "None", (), ())
        if re.search(r"std::convert::(Into|From)(<.*>)?>?::(into|from)$", name) and n == 1:
            tys = [x for x in split_substs(rs) if not x.startswith("'")]
            if len(tys) == 2 and tys[0] == tys[1]:
                return V(raw_args[0])
        if re.search(r"<impl \[T\]>::split_at$", name) and n == 2:
            # s.split_at(k) = (&s[..k], &s[k..]); panics when k > len(s)
            bv, k = V(raw_args[0]), V(raw_args[1])
            trace.append(("oblig", "SliceIndex", (bv, k, None), site, None, None))
            return ("tuple", (mk_slice(bv, mk_const("usize", 0), k), mk_slice(bv, k, None)))
        if name.endswith("as std::ops::Try>::branch"):
            return ("try", V(raw_args[0]))
        if "as std::ops::FromResidual<" in name and name.endswith("::from_residual"):
            return ("from_residual", V(raw_args[0]))
        if re.search(r"(<impl \[T\]>|^std::vec::Vec::<T, A>|^std::string::String|<impl str>)::len$", name):
            return fold_len(V(raw_args[0]))
        if re.search(r"(<impl \[T\]>|^std::vec::Vec::<T, A>)::is_empty$", name):
            return ("is_empty", V(raw_args[0]))
        if name in ("std::vec::Vec::<T>::new", "std::vec::Vec::<T>::with_capacity"):
            return ("vecnew",)
        if name == "std::boxed::Box::<T>::new_uninit":
            self.nframes += 1
            cell = ("heap", self.nframes)
            st[cell] = ("uninit", "heap")
            return ("ref", cell, ())
        if name == "std::boxed::box_assume_init_into_vec_unsafe":
            return V(raw_args[0])
        if name in ("std::vec::Vec::<T, A>::extend_from_slice", "std::io::Write::write_all",
                    "ark_serialize::Write::write_all") or name.endswith("as std::io::Write>::write_all") or \
                name.endswith("as std::iter::Extend<T>>::extend") or name.endswith("as std::iter::Extend<&'a T>>::extend"):
            dst, src = raw_args[0], V(raw_args[1])
            if isinstance(dst, tuple) and dst and dst[0] == "ref":
                old = self.load_cell(st, dst[1], dst[2])
                new = mk_cat(old, src)
                self.store_cell(st, dst[1], dst[2], new)
                trace.append(("append", dst[1], dst[2], src, site, name))
                if "write_all" in name:
                    return ("adt", "core::result::Result", "Ok", ("0",), (("unit",),))
                return ("unit",)
            return NotImplemented
        if re.search(r"<impl \[T\]>::(copy|clone)_from_slice$", name):
            dst, src = raw_args[0], V(raw_args[1])
            if isinstance(dst, tuple) and dst and dst[0] == "ref":
                self.store_cell(st, dst[1], dst[2], src)
                trace.append(("oblig", "CopyLen", (self.load_cell(st, dst[1], dst[2][:-1]) if dst[2] else None, dst[2][-1] if dst[2] else None, src), site, None, None))
                return ("unit",)
            return NotImplemented
        if name == "std::vec::Vec::<T, A>::push":
            dst, x = raw_args[0], V(raw_args[1])
            if isinstance(dst, tuple) and dst and dst[0] == "ref":
                old = self.load_cell(st, dst[1], dst[2])
                self.store_cell(st, dst[1], dst[2], ("push", old, x))
                trace.append(("push", dst[1], dst[2], x, site))
                return ("unit",)
            return NotImplemented
        if name in ("std::mem::forget", "std::mem::drop"):
            trace.append(("call", name, (V(raw_args[0]),), site, t.get("callee"), ()))
            return ("unit",)
        if re.search(r"^std::(option::Option|result::Result)::<.*>::(unwrap|expect)$", name):
            r = V(raw_args[0])
            trace.append(("oblig", "Unwrap", (r,), site, None, None))
            return mk_unwrap(r)
        if re.search(r"^std::result::Result::<T, E>::map_err$", name):
            return ("map_err", V(raw_args[0]))
        # field arithmetic (arkworks Fp)
        m = FIELD_OP_RX.search(name) or GEN_OP_RX.match(name)
        if m:
            a, b = V(raw_args[0]), V(raw_args[1])
            op = m.groups()[-1]
            if op == "div":
                trace.append(("oblig", "FieldDiv", (a, b), site, None, None))
            return mk_fop(op, a, b)
        m = FIELD_OPA_RX.search(name) or GEN_OPA_RX.match(name)
        if m:
            dst, b = raw_args[0], V(raw_args[1])
            op = m.groups()[-1]
            if isinstance(dst, tuple) and dst and dst[0] == "ref":
                a = self.load_cell(st, dst[1], dst[2])
                if op == "div":
                    trace.append(("oblig", "FieldDiv", (a, b), site, None, None))
                self.store_cell(st, dst[1], dst[2], mk_fop(op, a, b))
                return ("unit",)
            return NotImplemented
        if re.search(r"std::cmp::PartialEq.*::eq$", name):
            a, b = V(raw_args[0]), V(raw_args[1])
            return mk_eq(a, b)
        if re.search(r"std::cmp::PartialEq.*::ne$", name):
            a, b = V(raw_args[0]), V(raw_args[1])
            return ("un", "Not", mk_eq(a, b))
        m = re.search(r"std::cmp::PartialOrd.*::(lt|le|gt|ge)$", name)
        if m:
            a, b = V(raw_args[0]), V(raw_args[1])
            return ("cmp", m.groups()[-1], a, b)
        return NotImplemented


# -------------------------------------------------------------------- term helpers
def closure_mut_ptrs(t, fb, depth=0):
    """pointers captured by &mut inside closure terms (for havoc on opaque calls)"""
    res = []
    if not isinstance(t, tuple) or depth > 3:
        return res
    if t and t[0] == "closure":
        it = fb.items.get(t[1])
        ups = it.get("upvars", []) if it else []
        for i, v in enumerate(t[2]):
            if isinstance(v, tuple) and v and v[0] == "ref":
                ty = ups[i] if i < len(ups) else "&mut"
                if ty.startswith("&mut") or not ups:
                    res.append(v)
            else:
                res.extend(closure_mut_ptrs(v, fb, depth + 1))
        return res
    if t and t[0] in ("call", "tuple", "adt"):
        for x in (t[-1] if isinstance(t[-1], tuple) else ()):
            res.extend(closure_mut_ptrs(x, fb, depth + 1))
    return res


def deref_all(t, st, eng, depth=0):
    if not isinstance(t, tuple) or depth > 6:
        return t
    if t and t[0] == "ref":
        return deref_all(eng.load_cell(st, t[1], t[2]), st, eng, depth + 1)
    return tuple(deref_all(x, st, eng, depth + 1) if isinstance(x, tuple) else x for x in t)


def project(v, key):
    if not isinstance(v, tuple) or not v:
        return ("field", v, key)
    k = key[0]
    h = v[0]
    if h == "ref" and k == "f":
        return v  # field of a pointer wrapper (Box.0.pointer, NonNull.pointer)
    if h == "with":
        if v[2] == key:
            return v[3]
        if key_disjoint(v[2], key):
            return project(v[1], key)
        return ("field", v, key)
    if k == "f":
        if h == "adt":
            names = v[3]
            if key[1] in names:
                return v[4][names.index(key[1])]
            if key[1].isdigit() and int(key[1]) < len(v[4]):
                return v[4][int(key[1])]
        if h in ("tuple",) and key[1].isdigit() and int(key[1]) < len(v[1]):
            return v[1][int(key[1])]
        if h == "closure" and key[1].isdigit() and int(key[1]) < len(v[2]):
            return v[2][int(key[1])]
        if h == "as":
            # payload of a downcast
            base, vn = v[1], v[2]
            if isinstance(base, tuple) and base and base[0] == "try":
                if vn == "Continue":
                    return mk_unwrap(base[1])
                if vn == "Break":
                    if isinstance(base[1], tuple) and base[1] and base[1][0] == "from_residual":
                        return base[1][1]
                    return ("residual", base[1])
            if vn in ("Ok", "Some") and key[1] == "0":
                return mk_unwrap(base)
            if vn == "Err" and key[1] == "0":
                return ("unwrap_err", base)
            return ("field", v, key)
        return ("field", v, key)
    if k == "as":
        if h == "adt":
            return v  # same variant assumed (guarded by discriminant switch)
        return ("as", v, key[1])
    if k == "idx":
        i = key[1]
        if h == "array" and is_const(i) and i[2] < len(v[1]):
            return v[1][i[2]]
        return ("idx", v, i)
    if k == "slice":
        return mk_slice(v, key[1], key[2])
    return ("field", v, key)


def key_disjoint(a, b):
    if a[0] == "f" and b[0] == "f":
        return a[1] != b[1]
    if a[0] == "idx" and b[0] == "idx":
        return is_const(a[1]) and is_const(b[1]) and a[1] != b[1]
    return False


def with_path(old, path, val):
    key = path[0]
    if len(path) == 1:
        newv = val
    else:
        newv = with_path(project(old, key), path[1:], val)
    # rebuild aggregates when possible
    if isinstance(old, tuple) and old:
        if old[0] == "adt" and key[0] == "f":
            names = old[3]
            if key[1] in names:
                i = names.index(key[1])
                vals = old[4][:i] + (newv,) + old[4][i + 1:]
                return ("adt", old[1], old[2], old[3], vals)
        if old[0] == "tuple" and key[0] == "f" and key[1].isdigit() and int(key[1]) < len(old[1]):
            i = int(key[1])
            return ("tuple", old[1][:i] + (newv,) + old[1][i + 1:])
        if old[0] == "array" and key[0] == "idx" and is_const(key[1]) and key[1][2] < len(old[1]):
            i = key[1][2]
            return ("array", old[1][:i] + (newv,) + old[1][i + 1:])
        if old[0] == "with" and old[2] == key:
            return ("with", old[1], key, newv)
        if old[0] == "as" or key[0] == "as":
            pass
    if key[0] == "as":
        return newv if isinstance(newv, tuple) and newv and newv[0] == "adt" else ("with", old, key, newv)
    return ("with", old, key, newv)


def mk_unwrap(r):
    if isinstance(r, tuple) and r and r[0] == "adt" and r[2] in ("Ok", "Some") and len(r[4]) == 1:
        return r[4][0]
    if isinstance(r, tuple) and r and r[0] == "map_err":
        return mk_unwrap(r[1])
    n = chunk_width(r)
    if n is not None:
        # <[T]>::split_first_chunk::<N>(s) = Some((&s[0..N], &s[N..])) when N <= len(s) (the length fact is attached to the `Some` test
        # by the obligation checker)
        s_ = r[2][0]
        return ("tuple", (mk_slice(s_, mk_const("usize", 0), mk_const("usize", n)), mk_slice(s_, mk_const("usize", n), None)))
    return ("unwrap", r)


def chunk_width(r):
    """N for a term `<[T]>::split_first_chunk::<N>(s)`, else None"""
    if isinstance(r, tuple) and r and r[0] == "call" and isinstance(r[1], str) and "split_first_chunk@" in r[1] and len(r[2]) == 1:
        m = re.search(r"(\d+)(_usize)?\]$", r[1])
        return int(m.group(1)) if m else None
    return None


def mk_eq(a, b):
    if a == b:
        pass
    x, y = sorted([a, b], key=repr)
    return ("eq", x, y)


def mk_fop(op, a, b):
    if op in ("add", "mul"):
        x, y = sorted([a, b], key=repr)
        return ("f" + op, x, y)
    return ("f" + op, a, b)


def mk_cat(old, src):
    if isinstance(old, tuple) and old and old[0] == "cat":
        return ("cat",) + old[1:] + (src,)
    if old == ("vecnew",):
        return ("cat", src)
    return ("cat", old, src)


def fold_len(a):
    if isinstance(a, tuple) and a:
        if a[0] == "array":
            return mk_const("usize", len(a[1]))
        if a[0] == "bytes":
            return mk_const("usize", len(a[1]))
        if a[0] == "str":
            return mk_const("usize", len(a[1].encode()))
        if a[0] == "upd" and isinstance(a[1], str) and re.search(r"::(sort|sort_unstable|reverse)$", a[1]) and a[2] == 0:
            return fold_len(a[3][0])    # reordering in place keeps the length
        if a[0] == "slice":
            lo, hi = a[2], a[3]
            if hi is None:
                return fold_bin("Sub", ("len", a[1]), lo)
            return fold_bin("Sub", hi, lo)
    return ("len", a)


def mk_slice(base, lo, hi):
    """slice(base, lo, hi) with nested slices folded to absolute offsets"""
    if lo is None:
        lo = mk_const("usize", 0)
    if isinstance(base, tuple) and base and base[0] == "slice":
        b0, lo0, hi0 = base[1], base[2], base[3]
        nlo = fold_bin("Add", lo0, lo)
        if hi is None:
            nhi = hi0
        else:
            nhi = fold_bin("Add", lo0, hi)
        return mk_slice(b0, nlo, nhi)
    return ("slice", base, lo, hi)


def range_of(ix):
    """(lo, hi, full) for range aggregates; None if not a range"""
    if isinstance(ix, tuple) and ix and ix[0] == "adt":
        p = ix[1]
        vals = ix[4]
        if p.endswith("ops::Range") or p.endswith("range::Range"):
            return (vals[0], vals[1], False)
        if p.endswith("RangeFrom"):
            return (vals[0], None, False)
        if p.endswith("RangeTo"):
            return (mk_const("usize", 0), vals[0], False)
        if p.endswith("RangeFull"):
            return (None, None, True)
        if p.endswith("RangeInclusive") or p.endswith("RangeToInclusive"):
            return None
    return None


def discr_of(v, pty, fb):
    if isinstance(v, tuple) and v:
        if v[0] == "adt":
            adt = fb.adts.get(v[1])
            if adt is not None:
                for var in adt["variants"]:
                    if var["name"] == v[2]:
                        return mk_const("isize", int(var["discr"]))
            std = {"Ok": 0, "Err": 1, "None": 0, "Some": 1, "Continue": 0, "Break": 1,
                   "Less": -1, "Equal": 0, "Greater": 1}
            if v[2] in std:
                return mk_const("isize", std[v[2]])
    return ("discr", v, pty.split("<")[0])


def known_ok(r):
    """True/False when the Ok/Some-ness of r is known from its construction, else None"""
    if isinstance(r, tuple) and r:
        if r[0] == "adt" and r[2] in ("Ok", "Some"):
            return True
        if r[0] == "adt" and r[2] in ("Err", "None"):
            return False
        if r[0] == "from_residual":
            return False
        if r[0] == "map_err":
            return known_ok(r[1])
    return None


def norm_cond(d, dty, cv):
    """normalise a switch condition to (ok, atom, value)"""
    # boolean switches
    if dty == "bool":
        if cv[0] == "eq":
            val = bool(cv[1])
        else:
            val = 0 in cv[1]  # otherwise of [0: ..] means true
            val = True if cv[1] == (0,) else (False if cv[1] == (1,) else None)
        pol = True
        t = d
        while isinstance(t, tuple) and t and t[0] == "un" and t[1] == "Not":
            t = t[2]
            pol = not pol
        return True, ("b", t), (val if pol else (not val)) if val is not None else None
    if isinstance(d, tuple) and d and d[0] == "discr":
        inner, ty = d[1], d[2]
        if isinstance(inner, tuple) and inner and inner[0] == "try":
            # ControlFlow: 0 = Continue <=> ok
            if cv[0] == "eq":
                return True, ("ok", inner[1]), (cv[1] == 0)
            return True, ("ok", inner[1]), None
        if ty.endswith("result::Result"):
            if cv[0] == "eq":
                return True, ("ok", inner), (cv[1] == 0)
            if cv == ("notin", (0,)):
                return True, ("ok", inner), False
            if cv == ("notin", (1,)):
                return True, ("ok", inner), True
        if ty.endswith("option::Option"):
            if cv[0] == "eq":
                return True, ("ok", inner), (cv[1] == 1)
            if cv == ("notin", (0,)):
                return True, ("ok", inner), True
            if cv == ("notin", (1,)):
                return True, ("ok", inner), False
        return True, ("d", inner), cv
    return True, ("v", d), cv


_KNOWN = None


def known_functions():
    global _KNOWN
    if _KNOWN is None:
        import os
        p = os.path.join(os.path.dirname(__file__), "known_functions.txt")
        try:
            _KNOWN = set(l.strip() for l in open(p) if l.strip() and not l.startswith("#"))
        except OSError:
            _KNOWN = set()
    return _KNOWN


# (adt path, variant name) -> variant index, for every aggregate evaluated so far
VARIANT_INDEX = {}


def consistent(trace, atom, val):
    for e in trace:
        if e[0] == "cond" and e[1] == atom:
            old = e[2]
            if val is None or old is None:
                continue
            if isinstance(val, bool) or isinstance(old, bool):
                if old != val:
                    return False
                continue
            # ('eq', v) / ('notin', vs)
            if old[0] == "eq" and val[0] == "eq" and old[1] != val[1]:
                return False
            if old[0] == "eq" and val[0] == "notin" and old[1] in val[1]:
                return False
            if old[0] == "notin" and val[0] == "eq" and val[1] in old[1]:
                return False
    return True


def fold_bin(op, a, b):
    wo = op.endswith("WithOverflow")
    bop = op.replace("WithOverflow", "").replace("Unchecked", "")
    ca, cb = cint(a), cint(b)
    if ca is not None and cb is not None:
        ty = a[1]
        bits = MAXU.get(ty, 64)
        signed = ty.startswith("i")
        r = None
        if bop == "Add":
            r = ca + cb
        elif bop == "Sub":
            r = ca - cb
        elif bop == "Mul":
            r = ca * cb
        elif bop == "Div" and cb != 0:
            r = ca // cb
        elif bop == "Rem" and cb != 0:
            r = ca % cb
        elif bop == "Shl":
            r = ca << cb
        elif bop == "Shr":
            r = ca >> cb
        elif bop == "BitAnd":
            r = ca & cb
        elif bop == "BitOr":
            r = ca | cb
        elif bop == "BitXor":
            r = ca ^ cb
        elif bop in ("Eq", "Ne", "Lt", "Le", "Gt", "Ge"):
            rr = {"Eq": ca == cb, "Ne": ca != cb, "Lt": ca < cb, "Le": ca <= cb, "Gt": ca > cb, "Ge": ca >= cb}[bop]
            return mk_const("bool", 1 if rr else 0)
        if r is not None:
            lo, hi = (-(1 << (bits - 1)), (1 << (bits - 1)) - 1) if signed else (0, (1 << bits) - 1)
            ovf = r < lo or r > hi
            if not signed:
                r &= (1 << bits) - 1
            res = mk_const(ty, r)
            if wo:
                return ("tuple", (res, mk_const("bool", 1 if ovf else 0)))
            return res
    # linear normal form: sums and products are flattened, sorted, constants folded and kept last
    res = None
    if bop in ("Add", "Mul"):
        terms, c = [], (0 if bop == "Add" else 1)
        ty = None
        stack = [a, b]
        while stack:
            x = stack.pop()
            if isinstance(x, tuple) and x and x[0] == "bin" and x[1] == bop:
                stack.append(x[2])
                stack.append(x[3])
            elif cint(x) is not None:
                c = c + x[2] if bop == "Add" else c * x[2]
                ty = x[1]
            else:
                terms.append(x)
        terms.sort(key=repr)
        if not terms:
            res = mk_const(ty or "usize", c)
        elif bop == "Mul" and c == 0:
            res = mk_const(ty or "usize", 0)
        else:
            res = terms[0]
            for x in terms[1:]:
                res = ("bin", bop, res, x)
            if (bop == "Add" and c != 0) or (bop == "Mul" and c != 1):
                res = ("bin", bop, res, mk_const(ty or "usize", c))
    elif bop == "Sub":
        if cb == 0:
            res = a
        elif a == b:
            res = mk_const("usize", 0)
        elif cb is not None and isinstance(a, tuple) and a and a[0] == "bin" and a[1] == "Add" and cint(a[3]) is not None and a[3][2] >= cb:
            res = fold_bin("Add", a[2], mk_const(a[3][1], a[3][2] - cb))
        elif isinstance(a, tuple) and a and a[0] == "bin" and a[1] == "Add" and a[2] == b:
            res = a[3]
        elif isinstance(a, tuple) and a and a[0] == "bin" and a[1] == "Add" and a[3] == b:
            res = a[2]
    if res is None:
        res = ("bin", bop, a, b)
    if wo:
        return ("tuple", (res, ("ovf", bop, a, b)))
    return res


# -------------------------------------------------------------------- pretty
def show(t, depth=0):
    if not isinstance(t, tuple) or not t:
        return repr(t)
    if depth > 12:
        return "..."
    h = t[0]
    s = lambda x: show(x, depth + 1)
    if h == "param":
        return "p%d" % t[1]
    if h == "const":
        return "%s" % (t[2],)
    if h == "str":
        return repr(t[1])
    if h == "bytes":
        return "b" + repr(bytes(t[1]))[1:] if len(t[1]) <= 40 else "bytes[%d]" % len(t[1])
    if h == "field":
        return "%s.%s" % (s(t[1]), t[2][1] if t[2][0] == "f" else t[2])
    if h == "call":
        return "%s(%s)" % (short(t[1]), ", ".join(s(a) for a in t[2]))
    if h == "upd":
        return "upd[%s#%s](%s)" % (short(t[1]), t[2], ", ".join(s(a) for a in t[3]))
    if h == "adt":
        return "%s::%s{%s}" % (t[1].split("::")[-1], t[2], ", ".join("%s: %s" % (n, s(v)) for n, v in zip(t[3], t[4])))
    if h in ("tuple", "array"):
        br = "()" if h == "tuple" else "[]"
        return br[0] + ", ".join(s(v) for v in t[1]) + br[1]
    if h == "slice" and len(t) == 4:
        return "%s[%s..%s]" % (s(t[1]), s(t[2]), "" if t[3] is None else s(t[3]))
    if h == "bin":
        return "(%s %s %s)" % (s(t[2]), t[1], s(t[3]))
    if h in ("fadd", "fsub", "fmul", "fdiv"):
        return "(%s %s %s)" % (s(t[1]), {"fadd": "+", "fsub": "-", "fmul": "*", "fdiv": "/"}[h], s(t[2]))
    if h == "eq":
        return "(%s == %s)" % (s(t[1]), s(t[2]))
    if h == "cat":
        return "cat(" + ", ".join(s(x) for x in t[1:]) + ")"
    if h == "phi":
        return "phi[%s@bb%s]" % (t[3], t[2])
    if h == "ref":
        return "&cell%s%s" % (t[1], "".join("." + str(k[1]) for k in t[2]))
    return "%s(%s)" % (h, ", ".join(s(x) if isinstance(x, tuple) else str(x) for x in t[1:]))


def short(name):
    name = re.sub(r"<[^<>]*>", "", name)
    name = re.sub(r"<[^<>]*>", "", name)
    return name.split("::")[-1] if "::" in name else name


def subterms(t):
    seen = set()
    stack = [t]
    while stack:
        x = stack.pop()
        if not isinstance(x, tuple) or x in seen:
            continue
        seen.add(x)
        if x and isinstance(x[0], str):
            yield x
        for y in x:
            if isinstance(y, tuple):
                stack.append(y)


def contains(t, sub):
    for x in subterms(t):
        if x == sub:
            return True
    return False


def subst(t, mapping):
    if t in mapping:
        return mapping[t]
    if not isinstance(t, tuple):
        return t
    return tuple(subst(x, mapping) if isinstance(x, tuple) else x for x in t)


RANGE_NEXT = "std::iter::range::<impl std::iter::Iterator for std::ops::Range<A>>::next"


def _lt_guard(atom, val, c):
    """(N, is_body) when the condition (atom, val) is a comparison equivalent to `c < N` (is_body True) or to its negation"""
    if atom[0] != "b" or not isinstance(val, bool) or not isinstance(atom[1], tuple) or not atom[1]:
        return None
    t = atom[1]
    if t[0] == "bin" and t[1] in ("Lt", "Le", "Gt", "Ge"):
        op, x, y = t[1], t[2], t[3]
    elif t[0] == "cmp" and t[1] in ("lt", "le", "gt", "ge"):
        op, x, y = t[1].capitalize(), t[2], t[3]
    else:
        return None
    if x == c and op in ("Lt", "Ge"):
        return (y, (op == "Lt") == val)
    if y == c and op in ("Gt", "Le"):
        return (x, (op == "Gt") == val)
    return None


def canon_counters(paths):
    """A counted loop spelled with an explicit counter (`let mut i = a; while i < n { ..; i += 1; }`, or `loop { if i >= n { break; }
    ..; i += 1; }`) is rewritten, in the paths through its body, into the terms `for i in a..n` produces: the counter becomes the item
    of a `Range { start: a, end: n }` iterator. Conditions: the counter advances by exactly 1 on every back edge; the first event
    of every iteration that mentions it is the guard `i < n` (any spelling); n does not depend on loop-carried state. Inside the
    body a <= i < n then holds exactly as for the range loop; paths that leave the loop through the guard keep the plain counter."""
    by_phi = {}
    for p in paths:
        for k, e in enumerate(p.trace):
            if e[0] == "phis":
                for cell, phi in e[3]:
                    if isinstance(phi, tuple) and phi and phi[0] == "phi":
                        by_phi.setdefault((cell, phi), []).append((p, k))
    for (cell, c), occ in by_phi.items():
        header = c[2]
        one_more = ("bin", "Add", c, None)
        N = None
        ok = True
        nback = 0
        body = []
        for p, k in occ:
            guard = None
            for e in p.trace[k + 1:]:
                if e[0] in ("loop", "phis"):
                    if e[2] == header:
                        continue
                if contains(e, c):
                    if e[0] == "cond":
                        guard = _lt_guard(e[1], e[2], c)
                    break
            if guard is None:
                # the counter is not mentioned on this path after the loop entry: only acceptable when the path does not reach the back edge
                if p.kind == "backedge" and p.loop == header:
                    ok = False
                    break
                continue
            n_, is_body = guard
            if N is None:
                N = n_
            if n_ != N or any(x[0] == "phi" and x[2] == header and x[1] == c[1] for x in subterms(("t", n_))):
                ok = False
                break
            if p.kind == "backedge" and p.loop == header:
                nv = p.store.get(cell)
                if not (is_body and isinstance(nv, tuple) and len(nv) == 4 and nv[:3] == one_more[:3] and cint(nv[3]) == 1):
                    ok = False
                    break
                nback += 1
            if is_body:
                body.append((p, k))
        if not ok or not nback or N is None:
            continue
        it = ("phi", c[1], header, c[3] + "#range", ("adt", "std::ops::Range", "Range", ("start", "end"), (c[4], N)))
        nxt = ("call", RANGE_NEXT, (it,))
        item = ("unwrap", nxt)
        m = {c: item}
        for p, k in body:
            e = p.trace[k]
            site = None
            for x in p.trace[k + 1:]:
                if x[0] == "cond":
                    site = x[3]
                    break
            new = list(p.trace[:k])
            new.append((e[0], e[1], e[2], tuple((cl, (it if ph == c else ph)) for cl, ph in e[3])))
            first = True
            for x in p.trace[k + 1:]:
                if first and contains(x, c):
                    # the guard `i < n` itself becomes the `Some` arm of the iterator's `next()`
                    first = False
                    new.append(("call", RANGE_NEXT, (it,), site, "std::iter::Iterator::next", (0,)))
                    new.append(("cond", ("ok", nxt), True, site))
                    continue
                new.append(subst(x, m) if contains(x, c) else x)
            p.trace[:] = new
            for key in list(p.store.keys()):
                v = p.store[key]
                if isinstance(v, tuple) and contains(v, c):
                    p.store[key] = subst(v, m)
            if isinstance(p.ret, tuple) and contains(p.ret, c):
                p.ret = subst(p.ret, m)
