"""E4: pure-Python reader of the bundled witness graph (rln/resources/tree_height_20/graph.bin).
Static inspection of a bundled artefact: nothing of zerokit is executed. Format (storage.rs): magic | u64 LE node count |
count x varint-delimited proto Node | varint-delimited GraphMetadata | u64 LE offset of the metadata."""
import struct

MAGIC = b"wtns.graph.001"


def varint(b, i):
    r = 0
    s = 0
    while True:
        c = b[i]
        i += 1
        r |= (c & 0x7F) << s
        if not c & 0x80:
            return r, i
        s += 7
        if s > 70:
            raise ValueError("varint too long")


def fields(b):
    """[(field number, wire type, value)] of one protobuf message"""
    out = []
    i = 0
    while i < len(b):
        key, i = varint(b, i)
        fn, wt = key >> 3, key & 7
        if wt == 0:
            v, i = varint(b, i)
        elif wt == 2:
            ln, i = varint(b, i)
            v = b[i:i + ln]
            if len(v) != ln:
                raise ValueError("truncated field")
            i += ln
        elif wt == 5:
            v = struct.unpack_from("<I", b, i)[0]
            i += 4
        elif wt == 1:
            v = struct.unpack_from("<Q", b, i)[0]
            i += 8
        else:
            raise ValueError("unsupported wire type %d" % wt)
        out.append((fn, wt, v))
    return out


def scalar(fs, n, default=0):
    for fn, wt, v in fs:
        if fn == n and wt == 0:
            return v
    return default


def parse_node(b):
    fs = fields(b)
    if len(fs) != 1 or fs[0][1] != 2:
        raise ValueError("node is not a single oneof submessage")
    tag, _, sub = fs[0]
    s = fields(sub)
    if tag == 1:
        return ("Input", scalar(s, 1))
    if tag == 2:
        val = b""
        for fn, wt, v in s:
            if fn == 1 and wt == 2:
                for fn2, wt2, v2 in fields(v):
                    if fn2 == 1 and wt2 == 2:
                        val = v2
        return ("Constant", int.from_bytes(val, "little"), len(val))
    if tag == 3:
        return ("UnoOp", scalar(s, 1), scalar(s, 2))
    if tag == 4:
        return ("DuoOp", scalar(s, 1), scalar(s, 2), scalar(s, 3))
    if tag == 5:
        return ("TresOp", scalar(s, 1), scalar(s, 2), scalar(s, 3), scalar(s, 4))
    raise ValueError("unknown node tag %d" % tag)


def parse_metadata(b):
    signals = []
    inputs = {}
    for fn, wt, v in fields(b):
        if fn == 1:
            if wt == 2:
                i = 0
                while i < len(v):
                    x, i = varint(v, i)
                    signals.append(x)
            else:
                signals.append(v)
        elif fn == 2 and wt == 2:
            key, off, ln = None, 0, 0
            for fn2, wt2, v2 in fields(v):
                if fn2 == 1:
                    key = v2.decode()
                elif fn2 == 2:
                    d = fields(v2)
                    off, ln = scalar(d, 1), scalar(d, 2)
            inputs[key] = (off, ln)
    return signals, inputs


def read_graph(path):
    b = open(path, "rb").read()
    if b[:len(MAGIC)] != MAGIC:
        raise ValueError("bad magic")
    i = len(MAGIC)
    n = struct.unpack_from("<Q", b, i)[0]
    i += 8
    nodes = []
    for _ in range(n):
        ln, i = varint(b, i)
        nodes.append(parse_node(b[i:i + ln]))
        i += ln
    md_at = i
    ln, i = varint(b, i)
    signals, inputs = parse_metadata(b[i:i + ln])
    i += ln
    trailer = struct.unpack_from("<Q", b, i)[0]
    i += 8
    return {"nodes": nodes, "signals": signals, "inputs": inputs, "metadata_offset": md_at, "trailer": trailer, "size": len(b), "consumed": i}
