"""Regenerates /verif/MANIFEST.json from the rule modules' INFO blocks: python3 -m zkrules.manifest"""
import importlib, json, os
from .main import PROPS, VERIF

NA = {
}


def main():
    checks = []
    na = []
    for pid in PROPS:
        try:
            mod = importlib.import_module("zkrules.rules.%s" % pid.lower())
        except ModuleNotFoundError:
            na.append({"property_id": pid, "reason": NA.get(pid, "no static check registered yet (under construction; see DESIGN.md section 4 for the planned rules)")})
            continue
        info = mod.INFO
        checks.append({
            "property_id": pid,
            "quick_cmd": "./check %s --tier quick" % pid,
            "thorough_cmd": "./check %s --tier thorough" % pid,
            "evidence_file": "/verif/evidence/%s.json" % pid,
            "replay_cmd_template": "./check %s --replay {path}" % pid,
            "engine": "zkfacts+zkrules",
            "level_claimed": {
                "category": info.get("level", "other"),
                "text": info["explanation"] + " NOT DECIDED: " + info.get("not_decided", ""),
                "design_ref": "DESIGN.md sections 4 (%s) and 8.2 (as built)" % pid,
            },
            "level_note": "Decides the structural clauses named in the text, for all inputs/paths, not the numeric behaviour (see NOT DECIDED). Trusted: "
                          + "; ".join(info.get("trusted_base", ["rustc's type checking and MIR; summaries of third-party callees"])) + ". Assumptions: " + "; ".join(info.get("assumptions", [])),
            "technique": info.get("technique", "static analysis: symbolic path evaluation of type-checked MIR (custom rustc_private driver) compared with a specification table"),
        })
    m = {
        "version": 1,
        "setup_cmd": "./check setup",
        "hooks": {
            "guard": "none (static analysis needs no instrumentation; no hook commits)",
            "enable": "not applicable: checks run `cargo +nightly check` on /repo with the zkfacts driver as RUSTC_WORKSPACE_WRAPPER",
            "baseline_off_cmd": "cd /repo && cargo nextest run --workspace --no-fail-fast --offline --test-threads 8",
            "source_commits": [],
            "add_only": True,
        },
        "engines": [
            {"name": "zkfacts", "path": "/verif/driver", "serves_properties": PROPS,
             "kind_free_text": "rustc_private driver (nightly) dumping type-checked MIR, resolved callees, ADTs and constants as JSON facts per feature configuration"},
            {"name": "zkrules", "path": "/verif/zkrules", "serves_properties": PROPS,
             "kind_free_text": "Python: path-enumerating symbolic evaluation of MIR into terms (no execution, no solver), CFG/call-graph rules, specification tables, known-findings handling"},
            {"name": "zkfix", "path": "/verif/fixtures/zkfix", "serves_properties": PROPS,
             "kind_free_text": "deliberately wrong look-alike crate analysed on every run: every armed rule must fire on its fixture"},
        ],
        "checks": checks,
        "not_applicable": na,
        "notes": "Technique family: static analysis only. Each check re-extracts facts from /repo's current working tree (content-hashed cache under /var/tmp/zkverif).",
    }
    json.dump(m, open(os.path.join(VERIF, "MANIFEST.json"), "w"), indent=1)
    print("MANIFEST.json: %d checks, %d not_applicable" % (len(checks), len(na)))


if __name__ == "__main__":
    main()
