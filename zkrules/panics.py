"""A6: panic-obligation checker over the path traces of the symbolic evaluator.

Every panic site on a path (MIR Assert, slicing/indexing calls, unwrap/expect, field division, copy_from_slice, diverging
calls such as panic!/unimplemented!) is an obligation. It is discharged when it follows from constants or from the branch
facts that precede it on the same path by a small set of linear rules (no solver). Whatever is left is reported with the
path facts, classified by what its operands depend on."""
import re
from .symex import is_const, cint, mk_const, subterms, fold_bin, show
from . import linear

# ensures summaries of repository callees that are not inlined (loops): (callee regex, description, fact builder).
# Each is itself verified on the callee's MIR by check_ensures() in the rule modules that rely on it.
ENSURES = [
    (r"^rln::utils::bytes_le_to_vec_(fr|u8)$", "returned read count <= len(input)",
     lambda call: [(("field", ("unwrap", call), ("f", "1")), ("len", call[2][0]))]),
]


def ensures_hook(a, lf):
    """atoms of the form unwrap(f(arg)).1 for callees with an ensures summary"""
    if isinstance(a, tuple) and a and a[0] == "field" and isinstance(a[1], tuple) and a[1] and a[1][0] == "unwrap":
        c = a[1][1]
        if isinstance(c, tuple) and c and c[0] == "call" and isinstance(c[1], str):
            for rx, _, build in ENSURES:
                if re.search(rx, c[1]):
                    for x, y in build(c):
                        lf.add_le(x, y)

SMALL = 1 << 40


class Facts:
    """lower/upper bounds harvested from the branch conditions that precede an obligation"""

    def __init__(self):
        self.rel = []      # (op, x, y) meaning x op y holds, op in <=, <
        self.ok = set()    # terms known Ok/Some
        self.notok = set()
        self.true = set()
        self.false = set()
        self.lf = linear.LinFacts()
        self.forall = []      # (sequence term, bound term): every element of the sequence is < bound
        self.lf.hook = self._hook

    def _hook(self, a, lf):
        ensures_hook(a, lf)
        seq = element_of(a)
        n = 0
        while seq is not None and n < 4:
            n += 1
            for s_, bound in self.forall:
                if same_seq(s_, seq):
                    lf.add_le(a, bound, strict=True)
            # an element of `S.filter(|&i| i < K)` is below K and is an element of S
            if isinstance(seq, tuple) and seq and seq[0] == "call" and isinstance(seq[1], str) and seq[1].endswith("Iterator::filter") and len(seq[2]) == 2:
                if FB is not None:
                    b = closure_bound(seq[2][1], ("Lt", "Le"))
                    if b is not None:
                        lf.add_le(a, b[1], strict=(b[0] == "Lt"))
                seq = strip_iter(seq[2][0])
            else:
                break

    def add_cond(self, atom, val):
        if val is None:
            return
        atom = norm_first(atom)
        k = atom[0]
        if k == "ok":
            (self.ok if val else self.notok).add(atom[1])
            from .symex import chunk_width
            n = chunk_width(atom[1])
            if n is not None and isinstance(val, bool):
                # split_first_chunk::<N>(s) is Some exactly when N <= len(s)
                L = ("len", atom[1][2][0])
                if val:
                    self._add("<=", mk_const("usize", n), L)
                else:
                    self._add("<", L, mk_const("usize", n))
            return
        if k != "b" or not isinstance(val, bool):
            if k == "v" and isinstance(val, tuple):
                # integer switch: value known
                if val[0] == "eq":
                    self.rel.append(("==", atom[1], mk_const("usize", val[1])))
                    self.lf.add_eq(atom[1], mk_const("usize", val[1]))
                elif val[0] == "notin" and isinstance(atom[1], tuple) and atom[1][0] == "len":
                    # an unsigned length that is none of 0..m-1 is at least m
                    m = 0
                    while m in val[1]:
                        m += 1
                    if m:
                        self._add("<=", mk_const("usize", m), atom[1])
            return
        t = atom[1]
        (self.true if val else self.false).add(t)
        if not isinstance(t, tuple) or not t:
            return
        if t[0] == "is_empty" and val is False:
            self._add("<=", mk_const("usize", 1), ("len", t[1]))
        if t[0] == "call" and isinstance(t[1], str) and t[1].endswith("Iterator>::any") and val is False and FB is not None:
            # `seq.iter().any(|&i| i >= K)` is false: every element is below K
            b = any_bound(t)
            if b is not None:
                self.forall.append((strip_iter(t[2][0]), b))
        if t[0] == "call" and isinstance(t[1], str) and re.search(r"Iterator>?::all$", t[1]) and val is True and FB is not None and len(t[2]) == 2:
            # `seq.iter().all(|&i| i < K)` is true: every element is below K
            b = closure_bound(t[2][1], ("Lt", "Le"))
            if b is not None:
                self.forall.append((strip_iter(t[2][0]), fold_bin("Add", b[1], mk_const("usize", 1)) if b[0] == "Le" else b[1]))
        op = None
        if t[0] == "bin" and t[1] in ("Lt", "Le", "Gt", "Ge", "Eq", "Ne"):
            op, x, y = t[1], t[2], t[3]
        elif t[0] == "cmp":
            op, x, y = {"lt": "Lt", "le": "Le", "gt": "Gt", "ge": "Ge"}[t[1]], t[2], t[3]
        if op is None:
            return
        if not val:
            op = {"Lt": "Ge", "Le": "Gt", "Gt": "Le", "Ge": "Lt", "Eq": "Ne", "Ne": "Eq"}[op]
        if op == "Lt":
            self._add("<", x, y)
        elif op == "Le":
            self._add("<=", x, y)
        elif op == "Gt":
            self._add("<", y, x)
        elif op == "Ge":
            self._add("<=", y, x)
        elif op == "Eq":
            self.rel.append(("==", x, y))
            self.lf.add_eq(x, y)

    def _add(self, op, x, y):
        self.rel.append((op, x, y))
        self.lf.add_le(x, y, strict=(op == "<"))
        # x <= u - c  ==>  x + c <= u   (the subtraction itself carries its own no-underflow obligation)
        if isinstance(y, tuple) and y and y[0] == "bin" and y[1] == "Sub":
            self.rel.append((op, fold_bin("Add", x, y[3]), y[2]))

    def lower(self, t):
        """largest known constant c with t >= c"""
        best = 0
        c = cint(t)
        if c is not None:
            return c
        for op, x, y in self.rel:
            cx = cint(x)
            if y == t and cx is not None:
                if op == "<=":
                    best = max(best, cx)
                elif op == "<":
                    best = max(best, cx + 1)
                elif op == "==":
                    best = max(best, cx)
            if x == t and op == "==" and cint(y) is not None:
                best = max(best, cint(y))
        # len of a slice
        if isinstance(t, tuple) and t and t[0] == "len":
            b = t[1]
            if isinstance(b, tuple) and b and b[0] == "slice" and b[3] is None and cint(b[2]) is not None:
                return max(best, self.lower(("len", b[1])) - cint(b[2]))
        if isinstance(t, tuple) and t and t[0] == "bin" and t[1] == "Add":
            return max(best, self.lower(t[2]) + self.lower(t[3]))
        if isinstance(t, tuple) and t and t[0] == "bin" and t[1] == "Sub" and cint(t[3]) is not None:
            return max(best, self.lower(t[2]) - cint(t[3]))
        return best

    def le(self, a, b, depth=0):
        """is a <= b derivable?"""
        if a == b:
            return True
        if depth == 0 and self._le_old(a, b, 0):
            return True
        if depth == 0:
            try:
                return self.lf.le(a, b)
            except RecursionError:
                return False
        return self._le_old(a, b, depth)

    def _le_old(self, a, b, depth=0):
        if a == b:
            return True
        ca, cb = cint(a), cint(b)
        if ca is not None and cb is not None:
            return ca <= cb
        if ca is not None and ca <= self.lower(b):
            return True
        if ca == 0:
            return True
        if depth > 3:
            return False
        # a = x + c, and fact  x + c' <= b with c' >= c   (or x <= b - ...)
        ax, ac = split_const(a)
        bx, bc = split_const(b)
        for op, x, y in self.rel:
            if op == "==":
                if (x == a and self._le_old(y, b, depth + 1)) or (y == a and self._le_old(x, b, depth + 1)):
                    return True
                continue
            slack = 1 if op == "<" else 0
            xx, xc = split_const(x)
            yx, yc = split_const(y)
            # fact: xx + xc (+slack) <= yx + yc ; goal: ax + ac <= bx + bc
            if xx == ax and yx == bx and (ac - xc - slack) <= (bc - yc):
                return True
            if xx == ax and (ac - xc - slack) <= 0 and yx is not None and depth < 3 and self._le_old(y, b, depth + 1) and yc >= 0:
                if self._le_old(y, b, depth + 1):
                    return True
        # len(slice(B, lo, None)) = len(B) - lo
        if isinstance(b, tuple) and b and b[0] == "len" and isinstance(b[1], tuple) and b[1] and b[1][0] == "slice":
            s = b[1]
            if s[3] is None:
                return self._le_old(fold_bin("Add", a, s[2]), ("len", s[1]), depth + 1)
            return self._le_old(a, fold_bin("Sub", s[3], s[2]), depth + 1)
        if isinstance(b, tuple) and b and b[0] == "bin" and b[1] == "Sub":
            return self._le_old(fold_bin("Add", a, b[3]), b[2], depth + 1)
        return False

    def lt(self, a, b):
        return self.le(fold_bin("Add", a, mk_const("usize", 1)), b)


FB = None      # fact base used to look into closures of `any` predicates; set by the rule modules that need it


def strip_iter(t):
    """the sequence an iterator term ranges over"""
    n = 0
    while isinstance(t, tuple) and t and n < 6:
        if t[0] == "phi" and t[4] is not None:
            t = t[4]
        elif t[0] == "call" and isinstance(t[1], str) and re.search(r"::(iter|into_iter|iter_mut|rev|copied|cloned)$", t[1]) and t[2]:
            t = t[2][0]
        elif t[0] == "upd" and isinstance(t[1], str) and re.search(r"::(sort|sort_unstable)$", t[1]):
            break
        else:
            break
        n += 1
    return t


def same_seq(a, b):
    return strip_iter(a) == strip_iter(b)


def element_of(a):
    """if `a` denotes an element of some sequence, that sequence"""
    if not isinstance(a, tuple) or not a:
        return None
    if a[0] == "unwrap" and isinstance(a[1], tuple) and a[1] and a[1][0] == "call" and isinstance(a[1][1], str):
        n = a[1][1]
        if re.search(r"(slice::Iter<'a, T>|vec::IntoIter<T, A>) as std::iter::Iterator>::next$", n) or re.search(r"<impl \[T\]>::(first|last)$", n):
            return strip_iter(a[1][2][0])
    if a[0] == "idx":
        return strip_iter(a[1])
    return None


def any_bound(t):
    """K for a term any(seq, closure) whose closure is |&i| i >= K, K built from the closure's captures"""
    b = closure_bound(t[2][1], ("Ge", "Gt"))
    if b is None:
        return None
    from .symex import fold_bin as _fb
    return _fb("Add", b[1], mk_const("usize", 1)) if b[0] == "Gt" else b[1]


def closure_bound(cl, ops):
    """(op, K) for a closure term whose body is the single comparison `element op K` with op in ops, K built from the captures"""
    from .symex import Engine, subst
    if not (isinstance(cl, tuple) and cl[0] == "closure"):
        return None
    it = FB.items.get(cl[1])
    if it is None:
        return None
    eng = Engine(FB, inline=lambda i: False)
    ps = [p for p in eng.run(it) if p.kind == "return"]
    if len(ps) != 1:
        return None
    rv = eng.value_of(ps[0].store, ps[0].ret)
    if not (isinstance(rv, tuple) and rv[0] == "bin" and rv[1] in ops):
        return None
    elem, k = rv[2], rv[3]
    if not (elem == ("param", 2) or (isinstance(elem, tuple) and elem[0] in ("field",) and elem[1] == ("param", 2))):
        return None
    # captures: fields of the closure environment (param 1) -> the captured caller values
    m, m2 = {}, {}
    for i, v in enumerate(cl[2]):
        m[("field", ("param", 1), ("f", str(i)))] = ("capture", i)
        m2[("capture", i)] = v
    k1 = subst(k, m)
    from .symex import subterms as _st
    if any(x == ("param", 1) or x == ("param", 2) for x in _st(("t", k1))):
        return None
    k2 = subst(k1, m2)
    return (rv[1], k2)


def split_const(t):
    if isinstance(t, tuple) and t and t[0] == "bin" and t[1] == "Add" and cint(t[3]) is not None:
        return t[2], cint(t[3])
    c = cint(t)
    if c is not None:
        return None, c
    return t, 0


def fixed_len(t):
    """constant length of array-like terms"""
    if not isinstance(t, tuple) or not t:
        return None
    if t[0] == "unwrap" and isinstance(t[1], tuple) and t[1] and t[1][0] == "call" and isinstance(t[1][1], str) and t[1][1].endswith("slice::ChunksExact<'a, T> as std::iter::Iterator>::next"):
        # every item of `s.chunks_exact(n)` has exactly n elements
        it = t[1][2][0]
        n = 0
        while isinstance(it, tuple) and it and it[0] == "phi" and it[4] is not None and n < 3:
            it = it[4]
            n += 1
        if isinstance(it, tuple) and it and it[0] == "call" and it[1].endswith("::chunks_exact") and len(it[2]) == 2 and cint(it[2][1]) is not None:
            return cint(it[2][1])
    if t[0] == "array":
        return len(t[1])
    if t[0] == "repeat":
        m = re.match(r"(\d+)", str(t[2]))
        return int(m.group(1)) if m else None
    if t[0] == "bytes":
        return len(t[1])
    if t[0] == "upd" and isinstance(t[2], int) and t[2] < len(t[3]):
        return fixed_len(t[3][t[2]])
    if t[0] == "with":
        return fixed_len(t[1])
    if t[0] == "call" and re.search(r"<impl (usize|u64)>::to_le_bytes$", t[1]):
        return 8
    if t[0] == "slice" and isinstance(t[1], tuple) and cint(t[2]) is not None and t[3] is not None and cint(t[3]) is not None:
        return cint(t[3]) - cint(t[2])
    if t[0] == "unwrap" and isinstance(t[1], tuple) and t[1][0] == "call" and "[u8; 8_usize]" in t[1][1]:
        return 8
    return None


def len_term(base):
    n = fixed_len(base)
    if n is not None:
        return mk_const("usize", n)
    if isinstance(base, tuple) and base and base[0] == "upd":
        from .symex import fold_len
        return fold_len(base)
    if isinstance(base, tuple) and base and base[0] == "slice":
        if base[3] is None:
            return fold_bin("Sub", ("len", base[1]), base[2])
        return fold_bin("Sub", base[3], base[2])
    return ("len", base)


def len_bounded(t, facts, loop_inv):
    """t <= some in-memory length (hence t + small cannot overflow usize)"""
    if _len_bounded_old(t, facts, loop_inv):
        return True
    # linear: t <= L + 2^40 for some in-memory length L mentioned on this path
    lf = getattr(facts, "lf", None)
    if lf is None:
        return False
    lens = set()
    for f in lf.facts:
        for a in f[0]:
            if isinstance(a, tuple) and a and a[0] == "len":
                lens.add(a)
    for s_ in subterms(t):
        if s_[0] == "len":
            lens.add(s_)
    for L in sorted(lens, key=repr)[:6]:
        try:
            if lf.le(t, fold_bin("Add", L, mk_const("usize", SMALL))):
                return True
        except RecursionError:
            pass
    return False


def _len_bounded_old(t, facts, loop_inv):
    if cint(t) is not None:
        return cint(t) < SMALL
    if isinstance(t, tuple) and t and ((t[0] == "bin" and t[1] == "Shl" and cint(t[2]) == 1) or (t[0] == "call" and isinstance(t[1], str) and t[1].endswith("::capacity"))):
        return True     # a tree capacity (1 << depth, depth < 32 by the structure invariant)
    if isinstance(t, tuple) and t and t[0] == "bin" and t[1] == "Mul" and cint(t[3]) is not None and cint(t[3]) <= 64 and _len_bounded_old(t[2], facts, loop_inv):
        return True     # in-memory lengths are < 2^48 (stated assumption): (len + small) * small cannot overflow
    if isinstance(t, tuple) and t and t[0] == "bin" and t[1] == "Add" and _len_bounded_old(t[2], facts, loop_inv) and _len_bounded_old(t[3], facts, loop_inv):
        return True
    if not isinstance(t, tuple) or not t:
        return False
    if t[0] == "len":
        return True
    if t[0] == "call" and isinstance(t[1], str) and t[1].endswith("::leaves_set"):
        return True     # a high-water mark: at most the capacity
    if t[0] == "phi" and t in loop_inv:
        return True
    # an element of `S.filter(|&i| i < K)` with K itself bounded (a capacity, a high-water mark, a length)
    seq = element_of(norm_first(t)) if t[0] in ("unwrap", "idx") else None
    if isinstance(seq, tuple) and seq and seq[0] == "call" and isinstance(seq[1], str) and seq[1].endswith("Iterator::filter") and len(seq[2]) == 2 and FB is not None:
        b = closure_bound(seq[2][1], ("Lt", "Le"))
        if b is not None and _len_bounded_old(b[1], facts, loop_inv):
            return True
    if t[0] == "bin" and t[1] in ("Add", "Mul") and cint(t[3]) is not None and cint(t[3]) < SMALL and t[1] == "Add":
        return len_bounded(t[2], facts, loop_inv)
    if t[0] == "bin" and t[1] == "Sub":
        return len_bounded(t[2], facts, loop_inv)
    if t[0] == "unwrap" and isinstance(t[1], tuple) and t[1] and t[1][0] == "call" and re.search(r"Range<A>>::next$", t[1][1]):
        # loop index of a..b with b len-bounded
        it = t[1][2][0]
        if isinstance(it, tuple) and it[0] == "phi" and isinstance(it[4], tuple) and it[4][0] == "adt" and it[4][1].endswith("ops::Range"):
            return len_bounded(it[4][4][1], facts, loop_inv)
    for op, x, y in facts.rel:
        if x == t and op in ("<", "<=") and len_bounded(y, Facts(), loop_inv):
            return True
        xx, xc = split_const(x)
        if xx == t and xc >= 0 and op in ("<", "<=") and len_bounded(y, Facts(), loop_inv):
            return True
    return False


SEQ_NEXT_RX = re.compile(r"(slice::Iter<'a, T>|slice::IterMut<'a, T>|slice::ChunksExact<'a, T>|slice::Chunks<'a, T>|vec::IntoIter<T, A>|iter::Enumerate<I>|iter::Zip<A, B>|iter::Copied<I>|iter::Cloned<I>) as std::iter::Iterator>::next$")


def loop_invariants(paths):
    """phis p (init small const) such that every back edge of their loop establishes new_value <= len(X): then p <= len(X) always;
    and counters that advance by a small constant on every back edge of a loop driven by an iterator over an in-memory sequence
    (a slice, its chunks, a Vec): the number of iterations is at most an in-memory length (< 2^48, stated assumption), so the counter
    stays far below the integer range"""
    inv = set()
    backs = [p for p in paths if p.kind == "backedge"]
    for b in backs:
        seq_driven = any(e[0] == "call" and SEQ_NEXT_RX.search(e[1]) and e[2] and isinstance(e[2][0], tuple) and e[2][0][0] == "phi" and e[2][0][2] == b.loop for e in b.trace)
        if seq_driven:
            for e in b.trace:
                if e[0] == "phis" and e[2] == b.loop:
                    for cell, ph in e[3]:
                        nv = b.store.get(cell)
                        if isinstance(ph, tuple) and ph[0] == "phi" and cint(ph[4]) is not None and cint(ph[4]) < SMALL and isinstance(nv, tuple) \
                                and nv[:3] == ("bin", "Add", ph) and cint(nv[3]) is not None and 0 < cint(nv[3]) <= 4096 \
                                and all(b2.store.get(cell) in (nv, ph) for b2 in backs if b2.loop == b.loop):
                            inv.add(ph)
        f = facts_of(b.trace, len(b.trace))
        for e in b.trace:
            if e[0] != "loop":
                continue
        # candidate phis mentioned in facts
        for op, x, y in f.rel:
            xx, xc = split_const(x)
            if isinstance(xx, tuple) and xx and xx[0] == "phi" and cint(xx[4]) is not None and cint(xx[4]) < SMALL \
                    and isinstance(y, tuple) and y and y[0] == "len" and xc >= 0:
                inv.add(xx)
    return inv


def facts_of(trace, upto):
    f = Facts()
    for e in trace[:upto]:
        if e[0] == "cond":
            f.add_cond(e[1], e[2])
    return f


def fold_fixed_lens(t):
    """replace len(x) by a constant where x has a statically known length (arrays, to_le_bytes, repeat)"""
    if not isinstance(t, tuple) or not t:
        return t
    if t[0] == "len":
        n = fixed_len(t[1])
        if n is not None:
            return mk_const("usize", n)
        from .symex import fold_len
        x = t[1]
        # a buffer carried through a loop that only stores into its elements keeps (at least) its initial length
        n = 0
        while isinstance(x, tuple) and x and x[0] == "phi" and x[4] is not None and n < 4:
            x = x[4]
            n += 1
        if isinstance(x, tuple) and x and x[0] == "call" and x[1] == "std::vec::from_elem":
            return fold_fixed_lens(x[2][1]) if isinstance(x[2][1], tuple) else x[2][1]
        f = fold_len(fold_fixed_lens(t[1]) if isinstance(t[1], tuple) else t[1])
        if f != t:
            return f
    return tuple(fold_fixed_lens(x) if isinstance(x, tuple) else x for x in t)


def norm_first(t):
    """first(S).unwrap() is S[0]"""
    if not isinstance(t, tuple) or not t:
        return t
    if t[0] == "unwrap" and isinstance(t[1], tuple) and t[1] and t[1][0] == "call" and isinstance(t[1][1], str) and re.search(r"<impl \[T\]>::first$", t[1][1]):
        return ("idx", norm_first(t[1][2][0]), mk_const("usize", 0))
    if t[0] == "call" and isinstance(t[1], str) and re.search(r"usize as std::ops::(Add|Sub)<(&'?\w* ?)?usize>>::(add|sub)$", t[1]) and len(t[2]) == 2:
        # operator calls on references (&usize + usize) are plain integer arithmetic
        return fold_bin("Add" if t[1].endswith("add") else "Sub", norm_first(t[2][0]), norm_first(t[2][1]))
    return tuple(norm_first(x) if isinstance(x, tuple) else x for x in t)


def discharge(kind, ops, facts, loop_inv, cond=None, expected=None):
    """returns None when discharged, else a human-readable obligation text"""
    ops = tuple(norm_first(fold_fixed_lens(o)) if isinstance(o, tuple) else o for o in ops)
    if kind == "SliceIndex":
        base, lo, hi = ops
        L = fold_fixed_lens(len_term(base))
        if hi is None:
            return None if facts.le(lo, L) else "%s <= len(%s)" % (show(lo)[:80], show(base)[:80])
        if not facts.le(lo, hi):
            return "%s <= %s" % (show(lo)[:80], show(hi)[:80])
        if not facts.le(hi, L):
            return "%s <= len(%s)" % (show(hi)[:100], show(base)[:80])
        return None
    if kind in ("ElemIndex", "BoundsCheck"):
        if kind == "BoundsCheck":
            L, idx = ops
        else:
            base, idx = ops
            L = fold_fixed_lens(len_term(base))
        return None if facts.lt(idx, L) else "%s < %s" % (show(idx)[:80], show(L)[:80])
    if kind.startswith("Overflow:"):
        a, b = ops
        op = kind.split(":")[1]
        if op == "Add":
            if len_bounded(a, facts, loop_inv) and len_bounded(b, facts, loop_inv):
                return None
            return "%s + %s does not overflow" % (show(a)[:80], show(b)[:80])
        if op == "Sub":
            return None if facts.le(b, a) else "%s <= %s (subtraction underflow)" % (show(b)[:80], show(a)[:80])
        if op == "Mul":
            if len_bounded(a, facts, loop_inv) and len_bounded(b, facts, loop_inv):
                return None
            return "%s * %s does not overflow" % (show(a)[:80], show(b)[:80])
        if op in ("Shl", "Shr"):
            return None if cint(b) is not None and cint(b) < 64 else "shift amount %s < bit width" % show(b)[:60]
        return "no overflow in %s" % kind
    if kind in ("DivisionByZero", "RemainderByZero"):
        d = ops[0]
        return None if (cint(d) not in (None, 0)) or facts.lower(d) >= 1 else "%s != 0" % show(d)[:80]
    if kind == "Unwrap":
        r = ops[0]
        if r in facts.ok:
            return None
        if isinstance(r, tuple) and r:
            if r[0] == "adt" and r[2] in ("Ok", "Some"):
                return None
            if r[0] == "map_err" and r[1] in facts.ok:
                return None
            # <[u8; N]>::try_from(slice of exactly N bytes)
            if r[0] == "call" and "try_into" in r[1] and "[u8; 8_usize]" in r[1] and len(r[2]) == 1:
                s = r[2][0]
                if isinstance(s, tuple) and s[0] == "slice" and s[3] is not None and cint(fold_bin("Sub", s[3], s[2])) == 8:
                    return None
            # Option from first()/last()/get() guarded by a non-empty fact
            if r[0] == "call" and re.search(r"<impl \[T\]>::(first|last)$", r[1]):
                L = fold_fixed_lens(("len", r[2][0]))
                if facts.lower(L) >= 1 or facts.lower(("len", r[2][0])) >= 1 or ("is_empty", r[2][0]) in facts.false or facts.le(mk_const("usize", 1), L):
                    return None
            # is_some / is_none tested
            for t in facts.true:
                if isinstance(t, tuple) and t[0] == "call" and t[1].endswith("::is_some") and t[2] == (r,):
                    return None
            for t in facts.false:
                if isinstance(t, tuple) and t[0] == "call" and t[1].endswith("::is_none") and t[2] == (r,):
                    return None
        return "%s is Ok/Some" % show(r)[:120]
    if kind == "FieldDiv":
        d = ops[1]
        for t in facts.false:
            if isinstance(t, tuple) and t[0] == "call" and t[1].endswith("::is_zero") and t[2] == (d,):
                return None
            if isinstance(t, tuple) and t[0] == "eq" and isinstance(d, tuple) and d[0] == "fsub" and set(t[1:]) == {d[1], d[2]}:
                return None
        return "%s != 0 (field division)" % show(d)[:100]
    if kind == "CopyLen":
        base, key, src = ops
        if key and key[0] == "slice":
            dl = None
            if key[2] is None:
                dl = fold_bin("Sub", len_term(base), key[1])
            else:
                dl = fold_bin("Sub", key[2], key[1])
            sl_ = len_term(src)
            return None if dl == sl_ else "len(dst) == len(src) in copy_from_slice (%s vs %s)" % (show(dl)[:60], show(sl_)[:60])
        return None
    if kind == "MapIndex":
        return "key %s present in map" % show(ops[1])[:80]
    if kind == "Other":
        return "assertion holds"
    return "obligation %s" % kind


def mentions(t, pred):
    for s in subterms(t):
        if pred(s):
            return True
    return False


def induction_vars(paths):
    """{phi: (init, k, lo)}: loop-carried variables that advance by the constant k on every back edge of a
    `for i in lo..hi` loop, i.e. phi = init + k * (i - lo) inside the body"""
    cand = {}
    bad = set()
    for b in paths:
        if b.kind != "backedge":
            continue
        phis = None
        for e in b.trace:
            if e[0] == "phis" and e[2] == b.loop:
                phis = e[3]
        if not phis:
            continue
        rng = None
        for e in b.trace:
            if e[0] == "call" and e[1].endswith("Range<A>>::next") and e[2] and isinstance(e[2][0], tuple) and e[2][0][0] == "phi" and e[2][0][2] == b.loop:
                it = e[2][0]
                if isinstance(it[4], tuple) and it[4][0] == "adt" and it[4][1].endswith("ops::Range"):
                    rng = (("unwrap", ("call", e[1], e[2])), it[4][4][0])
        for cell, phi in phis:
            newv = b.store.get(cell)
            if rng is None or not (isinstance(newv, tuple) and newv[0] == "bin" and newv[1] == "Add" and newv[2] == phi and cint(newv[3]) and cint(newv[3]) > 0):
                if newv != phi:
                    bad.add(phi)
                continue
            k = cint(newv[3])
            old = cand.get(phi)
            if old is not None and (old[1] != k or old[3] != rng[0]):
                bad.add(phi)
            cand[phi] = (phi[4], k, rng[1], rng[0])
    return {p: v for p, v in cand.items() if p not in bad}


def facts_with_induction(trace, upto, ind):
    f = facts_of(trace, upto)
    if ind:
        present = set()
        for e in trace[:upto]:
            if e[0] == "call" and e[1].endswith("Range<A>>::next"):
                present.add(("unwrap", ("call", e[1], e[2])))
        for phi, (init, k, lo, i) in ind.items():
            if i in present:
                # phi = init + k*(i - lo)
                rhs = fold_bin("Add", init, fold_bin("Mul", fold_bin("Sub", i, lo) if cint(lo) != 0 else i, mk_const("usize", k)))
                f.lf.add_eq(phi, rhs)
    return f


def analyse(paths, classify=None, skip_site=None):
    """returns (n_obligations, n_discharged, undischarged list).
    undischarged entries: dict(kind, text, site, facts, cls)"""
    inv = loop_invariants(paths)
    ind = induction_vars(paths)
    seen = {}
    total = 0
    done = 0
    for p in paths:
        for i, e in enumerate(p.trace):
            if e[0] != "oblig":
                continue
            kind, ops, site = e[1], e[2], e[3]
            if skip_site and skip_site(site, kind):
                continue
            total += 1
            f = facts_with_induction(p.trace, i, ind)
            r = discharge(kind, ops, f, inv, e[4] if len(e) > 4 else None, e[5] if len(e) > 5 else None)
            key = (site[0], kind, r)
            if r is None:
                done += 1
                continue
            if key in seen:
                continue
            cls = classify(ops) if classify else "request"
            seen[key] = {"kind": kind, "text": r, "site": site, "cls": cls, "ops": ops,
                         "facts": [(show(a)[:100], v) for a, v in [(x[1], x[2]) for x in p.trace[:i] if x[0] == "cond"]][-6:]}
        if p.kind == "diverge":
            total += 1
            site = p.site
            if skip_site and skip_site(site, "Diverge"):
                continue
            key = (site[0], "Diverge", site[1])
            if key not in seen:
                last = [x for x in p.trace if x[0] == "call"][-1:] if p.trace else []
                seen[key] = {"kind": "Diverge", "text": "a diverging call (panic!/unimplemented!/expect failure) is reachable: %s" % (
                    last[0][1][-60:] if last else "?"), "site": site, "cls": "request", "ops": (),
                    "facts": [(show(x[1])[:100], x[2]) for x in p.trace if x[0] == "cond"][-6:]}
    return total, done, list(seen.values())


def violated(kind, ops, facts):
    """True when the facts entail that the obligation FAILS (the complement of discharge): used to show that a rejecting guard
    rejects only inputs on which a later read would go out of bounds"""
    ops = tuple(norm_first(fold_fixed_lens(o)) if isinstance(o, tuple) else o for o in ops)
    one = mk_const("usize", 1)
    if kind == "SliceIndex":
        base, lo, hi = ops
        L = fold_fixed_lens(len_term(base))
        if hi is None:
            return facts.lt(L, lo)
        return facts.lt(L, hi) or facts.lt(hi, lo)
    if kind in ("ElemIndex", "BoundsCheck"):
        if kind == "BoundsCheck":
            L, idx = ops
        else:
            base, idx = ops
            L = fold_fixed_lens(len_term(base))
        return facts.le(L, idx)
    if kind == "Overflow:Sub":
        a, b = ops
        return facts.lt(a, b)
    return False
