"""debug: python3 -m zkrules.dbg <cfg> <fn-regex> [--mir] [--depth N] [--inline REGEX] [--opaque REGEX] [--max N]"""
import re, sys
from . import extract, facts, mirpp
from .symex import Engine, show


def main(argv):
    cfg, rx = argv[1], argv[2]
    opts = argv[3:]
    m = extract.ensure_facts([cfg])
    fb = facts.FactBase(cfg, m[cfg]["dir"])
    depth = 4
    inline = None
    opaque = None
    mx = 40
    if "--depth" in opts:
        depth = int(opts[opts.index("--depth") + 1])
    if "--inline" in opts:
        r = re.compile(opts[opts.index("--inline") + 1])
        inline = lambda it: bool(r.search(it.path))
    if "--opaque" in opts:
        r2 = re.compile(opts[opts.index("--opaque") + 1])
        prev = inline
        inline = lambda it: False if r2.search(it.path) else (prev(it) if prev else None)
    if "--max" in opts:
        mx = int(opts[opts.index("--max") + 1])
    for it in fb.find(rx, kinds=None):
        if "--mir" in opts:
            print(mirpp.body(it))
            continue
        if it.kind not in ("Fn", "AssocFn", "Closure"):
            print("==", it.path, it.kind)
            continue
        eng = Engine(fb, inline=inline, max_depth=depth)
        ps = eng.run(it)
        print("==", it.path, "paths:", len(ps))
        for p in ps[:mx]:
            print("  [%s] ret=%s" % (p.kind, show(eng.value_of(p.store, p.ret))[:300] if p.ret is not None else None))
            for e in p.trace:
                if e[0] == "cond":
                    print("      if %s is %s   @%s" % (show(e[1])[:160], e[2], e[3][1]))
                elif e[0] == "call":
                    print("      call %s(%s)   @%s" % (e[1][-70:], ", ".join(show(a)[:80] for a in e[2]), e[3][1]))
                elif e[0] == "write":
                    print("      write cell%s%s := %s  @%s" % (e[1][1], e[2], show(e[3])[:160], e[4][1]))
                elif e[0] in ("append", "push"):
                    print("      %s cell%s += %s" % (e[0], e[1][1], show(e[3])[:160]))
                elif e[0] == "oblig" and "--oblig" in opts:
                    print("      oblig %s %s @%s" % (e[1], [show(x)[:60] for x in e[2]], e[3][1]))
                elif e[0] == "loop":
                    print("      loop bb%s carried=%s" % (e[2], e[3]))


if __name__ == "__main__":
    main(sys.argv)
