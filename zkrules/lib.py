"""Shared helpers for rule modules."""
import re
from .symex import Engine, show, subterms, contains, is_const, cint, mk_const

WS = ("rln::", "zerokit_utils::", "rln_cli::", "relay::", "stateless::", "zkfix::")


def F(t, name):
    return ("field", t, ("f", name))


def P(i):
    return ("param", i)


def call(name, *args):
    return ("call", name, tuple(args))


def ret_paths(paths):
    return [p for p in paths if p.kind == "return"]


def cond_map(p):
    """{atom: value} of a path (last wins)"""
    return {e[1]: e[2] for e in p.trace if e[0] == "cond"}


def writes(p, only_params=True):
    return [e for e in p.trace if e[0] == "write" and (not only_params or e[1][1] < 0)]


def loc(item, site=None):
    if site:
        return "%s:%s (%s)" % (item.file, site[1], site[0])
    return "%s:%s" % (item.file, item.line)


def inline_only(rx):
    r = re.compile(rx)
    return lambda it: bool(r.search(it.path))


def opaque_rx(rx, base=None):
    r = re.compile(rx)

    def f(it):
        if r.search(it.path):
            return False
        return base(it) if base else None
    return f


def sh(t, n=200):
    return show(t)[:n]


def switch_table(item):
    """A9: for a fn that is `match x { A => K1, B => K2 }` over an enum discriminant: {discr value: returned term}"""
    from .symex import Engine
    return None


def local_index(item, name):
    xs = [i for i, l in enumerate(item.locals) if l["name"] == name]
    return xs[0] if xs else None


def carried_value(item, b, name):
    """value of the loop-carried variable `name` at the back edge of path b"""
    i = local_index(item, name)
    if i is None:
        return None
    return b.store.get((b.frame, i))


def range_var(t):
    """if t is the item of `for i in a..b` (unwrap(Range::next(phi iter))) return (a, b) else None"""
    if isinstance(t, tuple) and t and t[0] == "unwrap" and isinstance(t[1], tuple) and t[1][0] == "call" \
            and re.search(r"Iterator for std::ops::Range<A>>::next$", t[1][1]):
        it = t[1][2][0]
        if isinstance(it, tuple) and it[0] == "phi":
            init = it[4]
            if isinstance(init, tuple) and init[0] == "adt" and init[1].endswith("ops::Range"):
                return (init[4][0], init[4][1])
    return None


def enum_item(t):
    """if t is the item of `for (i, x) in seq.iter().enumerate()` (unwrap(Enumerate::next(phi iter))) return seq else None"""
    if isinstance(t, tuple) and t and t[0] == "unwrap" and isinstance(t[1], tuple) and t[1][0] == "call" \
            and t[1][1].endswith("Enumerate<I> as std::iter::Iterator>::next"):
        it = t[1][2][0]
        if isinstance(it, tuple) and it[0] == "phi":
            init = it[4]
            if isinstance(init, tuple) and init and init[0] == "call" and init[1].endswith("Iterator::enumerate") and init[2]:
                seq = init[2][0]
                n = 0
                while isinstance(seq, tuple) and seq and seq[0] == "call" and re.search(r"::(iter|into_iter|iter_mut|copied|cloned)$", seq[1]) and seq[2] and n < 4:
                    seq = seq[2][0]
                    n += 1
                return seq
    return None


def zip_item(t):
    """if t is the item of `for (a, b) in A.iter_mut().zip(B.iter())` (unwrap(Zip::next(phi iter))) return (A, B) else None"""
    if isinstance(t, tuple) and t and t[0] == "unwrap" and isinstance(t[1], tuple) and t[1][0] == "call" \
            and t[1][1].endswith("Zip<A, B> as std::iter::Iterator>::next"):
        it = t[1][2][0]
        if isinstance(it, tuple) and it[0] == "phi":
            init = it[4]
            if isinstance(init, tuple) and init and init[0] == "call" and init[1].endswith("Iterator::zip") and len(init[2]) == 2:
                def strip(seq):
                    n = 0
                    while isinstance(seq, tuple) and seq and seq[0] == "call" and re.search(r"::(iter|into_iter|iter_mut|copied|cloned)$", seq[1]) and seq[2] and n < 4:
                        seq = seq[2][0]
                        n += 1
                    return seq
                return strip(init[2][0]), strip(init[2][1])
    return None


def norm_loopvars(t):
    """replace range-loop items by ('i', lo, hi), and the two components of an enumerate item by the same index and the indexed
    element (`for (i, x) in seq.iter().enumerate()`: i -> ('i', 0, len(seq)), x -> seq[i]), so that the two spellings of a loop
    over a sequence give the same loop-body terms"""
    from .symex import subst, subterms, mk_const
    m = {}
    for s in subterms(t):
        rv = range_var(s)
        if rv is not None:
            m[s] = ("i", rv[0], rv[1])
        seq = enum_item(s)
        if seq is not None:
            i = ("i", mk_const("usize", 0), ("len", seq))
            m[("field", s, ("f", "0"))] = i
            m[("field", s, ("f", "1"))] = ("idx", seq, i)
        zp = zip_item(s)
        if zp is not None:
            # the k-th item of A.zip(B) is (A[k], B[k]) for k below the shorter length
            i = ("i", mk_const("usize", 0), ("min", ("len", zp[0]), ("len", zp[1])))
            m[("field", s, ("f", "0"))] = ("idx", zp[0], i)
            m[("field", s, ("f", "1"))] = ("idx", zp[1], i)
    return subst(t, m) if m else t


def prim(fb, name, *args, **kw):
    """the value a workspace function returns for symbolic arguments (exactly one non-panicking return path required)"""
    from .facts import ShapeViolation
    it = fb.need(name)
    eng = Engine(fb, inline=kw.get("inline"))
    ps = ret_paths(eng.run(it, args=list(args)))
    if len(ps) != 1:
        conds = [sh(a, 80) for p in ps for a, v in p.conds()][:2]
        raise ShapeViolation("%s is specified as one straight-line computation for all inputs, found %d return paths%s: a value-dependent "
                             "case split in a codec / formula primitive" % (name, len(ps), (" (distinguished by %s)" % "; ".join(conds)) if conds else ""), it)
    return eng.value_of(ps[0].store, ps[0].ret)


def sl(b, lo, hi):
    return ("slice", b, mk_const("usize", lo), mk_const("usize", hi) if hi is not None else None)


def find_input(p, param):
    """the Vec filled by read_to_end from reader parameter `param`"""
    for c in p.calls(r"::read_to_end$"):
        if c[2][0] == P(param):
            return ("upd", c[1], 1, c[2])
    return None


def H(*xs):
    return call("rln::hashers::poseidon_hash", ("array", tuple(xs)))


OPAQUE_H = opaque_rx(r"^rln::hashers::poseidon_hash$")


def ac_normal(t):
    """flatten associative-commutative field products/sums into sorted multisets (x*x*x*x*x == x^5 in any association)"""
    if not isinstance(t, tuple) or not t:
        return t
    t = tuple(ac_normal(x) if isinstance(x, tuple) else x for x in t)
    if t[0] in ("fmul", "fadd"):
        items = []
        for x in t[1:]:
            if isinstance(x, tuple) and x and x[0] == t[0] + "*":
                items.extend(x[1])
            else:
                items.append(x)
        return (t[0] + "*", tuple(sorted(items, key=repr)))
    return t


DENY_EFFECTS = [r"thread_rng", r"OsRng", r"rand::random", r"SystemTime", r"Instant::now", r"^std::env::", r"thread::current",
                r"^std::fs::", r"^std::net::", r"RandomState", r"Mutex", r"RwLock", r"RefCell", r"std::cell::Cell", r"Atomic",
                r"std::process::", r"getrandom"]


def reach(fb, roots, stop=None):
    """A1: workspace functions and external callee names reachable from roots (resolved callees; closures of reached fns included)"""
    seen, ext, work = set(), {}, list(roots)
    statics = set()
    while work:
        p = work.pop()
        if p in seen:
            continue
        it = fb.items.get(p)
        if it is None:
            continue
        seen.add(p)
        for c in fb.closures_of(p):
            work.append(c.path)
        bodies = [it.d] + list(it.d.get("promoted", []))
        for body in bodies:
            for b in body["blocks"]:
                t = b["term"]
                for s in b["stmts"]:
                    for cst in consts_in(s):
                        if "static" in cst:
                            statics.add(cst["static"])
                        if "closure" in cst:
                            work.append(cst["closure"])
                        if "fn" in cst and cst["fn"] in fb.items:
                            work.append(cst["fn"])
                if t["k"] == "call":
                    for a in t["args"]:
                        c = a.get("c")
                        if c:
                            if "static" in c:
                                statics.add(c["static"])
                            if "fn" in c and c["fn"] in fb.items:
                                work.append(c["fn"])
                    n = t.get("resolved") or t.get("callee")
                    if n is None:
                        continue
                    if stop and stop(n):
                        ext.setdefault(n, p)
                        continue
                    tgt = fb.lookup(n) or fb.lookup(t.get("callee"))
                    if tgt is not None:
                        work.append(tgt.path)
                    else:
                        ext.setdefault(n, p)
    for sname in list(statics):
        if sname in fb.items and sname not in seen:
            # the initialiser of a lazy static is reachable too
            more_seen, more_ext, more_st = reach(fb, [sname], stop)
            seen |= more_seen
            for k, v in more_ext.items():
                ext.setdefault(k, v)
            statics |= more_st
    return seen, ext, statics


def consts_in(stmt):
    out = []

    def walk(x):
        if isinstance(x, dict):
            if "c" in x and isinstance(x["c"], dict):
                out.append(x["c"])
            for v in x.values():
                walk(v)
        elif isinstance(x, list):
            for v in x:
                walk(v)
    walk(stmt)
    return out


def cmp_facts(conds):
    """comparison conditions of a path in canonical form: list of ('<' | '<=', x, y) meaning x < y / x <= y holds"""
    out = []
    for a, v in conds:
        if a[0] != "b" or not isinstance(a[1], tuple) or not a[1] or not isinstance(v, bool):
            continue
        t = a[1]
        if t[0] == "bin" and t[1] in ("Lt", "Le", "Gt", "Ge"):
            op, x, y = t[1], t[2], t[3]
        elif t[0] == "cmp" and t[1] in ("lt", "le", "gt", "ge"):
            op, x, y = t[1].capitalize(), t[2], t[3]
        else:
            continue
        if not v:
            op = {"Lt": "Ge", "Le": "Gt", "Gt": "Le", "Ge": "Lt"}[op]
        if op == "Lt":
            out.append(("<", x, y))
        elif op == "Le":
            out.append(("<=", x, y))
        elif op == "Gt":
            out.append(("<", y, x))
        else:
            out.append(("<=", y, x))
    return out


def holds_lt(conds, x, y):
    """x < y is one of the path's comparison conditions, in any spelling (x < y, !(x >= y), y > x, !(y <= x))"""
    return ("<", x, y) in cmp_facts(conds)


def const_upper_bound(conds, x):
    """least N with `x < N` among the path's comparisons of x against integer constants (None if there is none)"""
    from .symex import cint
    best = None
    for op, a, b in cmp_facts(conds):
        if a == x and cint(b) is not None:
            n = cint(b) if op == "<" else cint(b) + 1
            best = n if best is None else min(best, n)
    return best


def loop_phis(b):
    """the loop-carried variables of the loop a back-edge path belongs to: list of (phi term, value at the back edge)"""
    out = []
    for e in b.trace:
        if e[0] == "phis" and e[2] == b.loop:
            for key, phi in e[3]:
                out.append((phi, b.store.get(key)))
    return out


def carried_of(b, phi):
    """value at the back edge of the loop-carried variable denoted by `phi` (name-independent)"""
    for ph, v in loop_phis(b):
        if ph == phi:
            return v
    return None


def phi_with_init(b, init_pred):
    """the loop-carried variables of b's loop whose initial value satisfies init_pred"""
    return [(ph, v) for ph, v in loop_phis(b) if init_pred(ph[4])]


def eq_facts(conds):
    """equality conditions of a path in canonical form: list of ('==' | '!=', x, y), whichever way the source spells them
    (x == y, !(x != y), ...)"""
    out = []
    for a, v in conds:
        if a[0] != "b" or not isinstance(a[1], tuple) or not a[1] or not isinstance(v, bool):
            continue
        t = a[1]
        if t[0] == "bin" and t[1] in ("Eq", "Ne"):
            same = (t[1] == "Eq") == v
            out.append(("==" if same else "!=", t[2], t[3]))
        elif t[0] == "eq":
            out.append(("==" if v else "!=", t[1], t[2]))
    return out


ELEM = ("elem",)


def _fn_body(fb, f, depth=3):
    """the value a closure / fn item returns for the argument ELEM (one non-panicking return path), or None"""
    from .symex import Engine, subst
    if not isinstance(f, tuple) or not f:
        return None
    if f[0] == "fn":
        it = fb.items.get(f[1])
        if it is None or it.kind not in ("Fn", "AssocFn") or it.arg_count != 1:
            return ("call", f[1], (ELEM,))
        eng = Engine(fb, inline=lambda i: False)
        ps = ret_paths(eng.run(it, args=[ELEM]))
        return eng.value_of(ps[0].store, ps[0].ret) if len(ps) == 1 else None
    if f[0] == "closure":
        it = fb.items.get(f[1])
        if it is None:
            return None
        eng = Engine(fb, inline=lambda i: False)
        ps = ret_paths(eng.run(it, args=[None, ELEM]))
        if len(ps) != 1:
            return None
        return (eng, ps[0])
    return None


def seq_map(fb, t, paths=None):
    """If the vector term `t` is the element-wise image of a sequence, return (sequence, body) with `body` the term computed for the
    element ELEM - whichever way the source spells it: `seq.iter().map(f).collect()`, `out.extend(seq.iter().copied().map(f))`,
    `seq.iter().for_each(|v| out.push(f(*v)))` and, when the paths of the enclosing function are given, `for v in seq { out.push(f(v)) }`
    (out starting empty). None when `t` has none of these shapes."""
    from .symex import subst
    n = 0
    while isinstance(t, tuple) and t and t[0] == "cat" and len(t) == 2 and n < 3:
        t = t[1]
        n += 1
    if not isinstance(t, tuple) or not t:
        return None

    def strip(seq):
        k = 0
        while isinstance(seq, tuple) and seq and seq[0] == "call" and re.search(r"::(iter|into_iter|copied|cloned)$", seq[1]) and seq[2] and k < 4:
            seq = seq[2][0]
            k += 1
        return seq

    if t[0] == "call" and isinstance(t[1], str) and t[1].endswith("Iterator::map") and len(t[2]) == 2:
        seq, f = strip(t[2][0]), t[2][1]
        b = _fn_body(fb, f)
        if b is None:
            return None
        if isinstance(b, tuple) and len(b) == 2 and hasattr(b[1], "store"):
            eng, p = b
            b = eng.value_of(p.store, p.ret)
        return (seq, b)
    if t[0] == "upd" and isinstance(t[1], str) and t[1].endswith("Iterator>::for_each") and isinstance(t[2], tuple) and t[2][0] == "capture" and len(t[3]) == 2:
        seq, f = strip(t[3][0]), t[3][1]
        b = _fn_body(fb, f)
        if not (isinstance(b, tuple) and len(b) == 2 and hasattr(b[1], "store")):
            return None
        eng, p = b
        pushes = [e[3] for e in p.trace if e[0] == "push"] + \
                 [e[2][1] for e in p.trace if e[0] == "call" and e[1].endswith("Vec::<T, A>::push") and len(e[2]) == 2 and contains(e[2][0], P(1))]
        others = [e for e in p.trace if e[0] in ("write", "append") or (e[0] == "call" and e[5] and not e[1].endswith("Vec::<T, A>::push"))]
        if len(pushes) != 1 or others:
            return None
        return (seq, pushes[0])
    if t[0] == "phi" and t[4] == ("vecnew",) and paths is not None:
        backs = [p for p in paths if p.kind == "backedge" and p.loop == t[2]]
        out = None
        for b in backs:
            v = carried_of(b, t)
            if not (isinstance(v, tuple) and v and v[0] == "push" and v[1] == t):
                return None
            val = v[2]
            # the element: the item of the slice iterator the loop runs over
            items = [s for s in subterms(val) if s[0] == "unwrap" and isinstance(s[1], tuple) and s[1] and s[1][0] == "call"
                     and re.search(r"(slice::Iter<'a, T>|vec::IntoIter<T, A>|Copied<I>|Cloned<I>) as std::iter::Iterator>::next$", s[1][1])]
            if len(items) != 1:
                return None
            it = items[0][1][2][0]
            seq = strip(it[4]) if isinstance(it, tuple) and it and it[0] == "phi" else strip(it)
            r = (seq, subst(val, {items[0]: ELEM}))
            if out is not None and out != r:
                return None
            out = r
        return out
    return None


def pred_set_u8(fb, cl):
    """the set of u8 values for which the closure / fn item `cl` (a predicate on one element) returns true, decided by evaluating
    its MIR on each of the 256 constants (no source spelling involved: `*d > 1`, `matches!(*d, 0 | 1)`, `d == &0 || d == &1`, ...).
    None when some value does not evaluate to a constant boolean."""
    from .symex import Engine
    if not (isinstance(cl, tuple) and cl and cl[0] in ("closure", "fn")):
        return None
    it = fb.items.get(cl[1])
    if it is None:
        return None
    out = set()
    for v in range(256):
        eng = Engine(fb, inline=lambda i: False)
        c = mk_const("u8", v)
        ps = ret_paths(eng.run(it, args=([None, c] if cl[0] == "closure" else [c])))
        if len(ps) != 1:
            return None
        r = eng.value_of(ps[0].store, ps[0].ret)
        if not (is_const(r) and r[2] in (0, 1, True, False)):
            return None
        if r[2]:
            out.add(v)
    return out


def forall_u8(fb, conds):
    """universal facts among a path's conditions: [(sequence, allowed value set)] from `seq.iter().any(p)` being false or
    `seq.iter().all(p)` being true, for byte sequences"""
    out = []
    for a, v in conds:
        if a[0] != "b" or not isinstance(a[1], tuple) or not a[1] or a[1][0] != "call" or not isinstance(v, bool):
            continue
        t = a[1]
        if len(t[2]) != 2:
            continue
        q = "any" if re.search(r"Iterator>?::any$", t[1]) else "all" if re.search(r"Iterator>?::all$", t[1]) else None
        if q is None or (q == "any") != (v is False):
            continue
        s = pred_set_u8(fb, t[2][1])
        if s is None:
            continue
        seq = t[2][0]
        k = 0
        while isinstance(seq, tuple) and seq and seq[0] == "call" and re.search(r"::(iter|into_iter|copied|cloned)$", seq[1]) and seq[2] and k < 4:
            seq = seq[2][0]
            k += 1
        out.append((seq, s if q == "all" else set(range(256)) - s, a))
    return out


def desc_level(b):
    """The level variable of a loop that walks the levels from `top` down to 1, in either spelling, seen from a back-edge path `b`
    of that loop: returns (term standing for the current level in the body, top, guard conditions that belong to the loop
    itself) or None.
      `let mut d = top; while d > 0 { ..; d -= 1; }`  -> the loop-carried d (carried value d - 1, guard d > 0 / d != 0 on the path)
      `for d in (1..=top).rev()` / `(1..top + 1).rev()` -> the item of the reversed range iterator"""
    for e in b.trace:
        if e[0] == "call" and e[1].endswith("Rev<I> as std::iter::Iterator>::next") and e[2] and isinstance(e[2][0], tuple) and e[2][0][0] == "phi" and e[2][0][2] == b.loop:
            init = e[2][0][4]
            if isinstance(init, tuple) and init[0] == "call" and init[1].endswith("Iterator::rev") and init[2]:
                r = init[2][0]
                top = None
                if isinstance(r, tuple) and r[0] == "call" and r[1].endswith("RangeInclusive::<Idx>::new") and cint(r[2][0]) == 1:
                    top = r[2][1]
                elif isinstance(r, tuple) and r[0] == "adt" and r[1].endswith("ops::Range") and cint(r[4][0]) == 1 and isinstance(r[4][1], tuple) \
                        and r[4][1][:2] == ("bin", "Add") and cint(r[4][1][3]) == 1:
                    top = r[4][1][2]
                if top is not None:
                    nxt = ("call", e[1], e[2])
                    return ("unwrap", nxt), top, [("ok", nxt)]
    for ph, v in loop_phis(b):
        if isinstance(v, tuple) and v[:3] == ("bin", "Sub", ph) and cint(v[3]) == 1:
            zero_lt = any(op == "<" and cint(x) == 0 and y == ph for op, x, y in cmp_facts(b.conds())) or \
                any(op == "!=" and {x, y} == {ph, mk_const("usize", 0)} for op, x, y in eq_facts(b.conds()))
            if zero_lt:
                guards = [a for a, v_ in b.conds() if a[0] == "b" and isinstance(a[1], tuple) and a[1] and a[1][0] in ("bin", "cmp") and ph in a[1] and
                          any(cint(x) == 0 for x in a[1] if isinstance(x, tuple))]
                return ph, ph[4], guards
    return None


def closure_paths(fb, cl, elem=ELEM, args=None):
    """the return paths of a closure term as [(conditions, returned value)], written over the caller's values: the closure's own
    argument becomes `elem` (several arguments: `args`, in order) and every captured variable the term it had in the caller when
    the closure was built"""
    from .symex import Engine, subst
    if not (isinstance(cl, tuple) and cl and cl[0] == "closure"):
        return None
    it = fb.items.get(cl[1])
    if it is None:
        return None
    m1 = {P(2): elem} if args is None else {P(2 + k): a for k, a in enumerate(args)}
    m2 = {F(P(1), str(k)): v for k, v in enumerate(cl[2])}
    tr = lambda t: subst(subst(t, m1), m2) if isinstance(t, tuple) else t
    eng = Engine(fb, inline=lambda i: False)
    out = []
    for p in eng.run(it):
        if p.kind != "return":
            continue
        out.append(([(tr(a), v) for a, v in p.conds()], tr(eng.value_of(p.store, p.ret))))
    return out


ACC = ("acc",)


def fold_term(fb, t):
    """`(lo..hi).fold(init, |acc, j| step)` as (lo, hi, init, step over ACC and ELEM), the closure evaluated on its single path; None when
    `t` is not such a call"""
    if not (isinstance(t, tuple) and t and t[0] == "call" and t[1].endswith("Iterator::fold") and len(t[2]) == 3):
        return None
    r, init, cl = t[2]
    if not (isinstance(r, tuple) and r[0] == "adt" and r[1].endswith("ops::Range")):
        return None
    cps = closure_paths(fb, cl, args=[ACC, ELEM])
    if not cps or len(cps) != 1 or cps[0][0]:
        return None
    return r[4][0], r[4][1], init, cps[0][1]
