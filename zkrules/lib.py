"""Shared helpers for rule modules."""
import re
from .symex import Engine, show, subterms, contains, is_const, cint, mk_const

WS = ("rln::", "zerokit_utils::", "rln_cli::", "relay::", "stateless::", "zkfix::")


def F(t, name):
    return ("field", t, ("f", name))


def P(i):
    return ("param", i)


def call(name, *args):
    return ("call", name, tuple(args))


def ret_paths(paths):
    return [p for p in paths if p.kind == "return"]


def cond_map(p):
    """{atom: value} of a path (last wins)"""
    return {e[1]: e[2] for e in p.trace if e[0] == "cond"}


def writes(p, only_params=True):
    return [e for e in p.trace if e[0] == "write" and (not only_params or e[1][1] < 0)]


def loc(item, site=None):
    if site:
        return "%s:%s (%s)" % (item.file, site[1], site[0])
    return "%s:%s" % (item.file, item.line)


def inline_only(rx):
    r = re.compile(rx)
    return lambda it: bool(r.search(it.path))


def opaque_rx(rx, base=None):
    r = re.compile(rx)

    def f(it):
        if r.search(it.path):
            return False
        return base(it) if base else None
    return f


def sh(t, n=200):
    return show(t)[:n]


def switch_table(item):
    """A9: for a fn that is `match x { A => K1, B => K2 }` over an enum discriminant: {discr value: returned term}"""
    from .symex import Engine
    return None
