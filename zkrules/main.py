"""./check <ID> [--tier quick|thorough] [--replay file]  -- static-analysis checks for zerokit properties."""
import hashlib, importlib, json, os, re, sys, time, traceback

from . import extract, facts
from .facts import MissingAnchor, ShapeViolation

VERIF = extract.VERIF
# Runs of the machinery's own self-tests analyse a scratch worktree (ZK_REPO=/var/tmp/...): their evidence and replay files go to a
# scratch directory so that /verif/evidence always describes /repo (the tree the registered commands analyse).
SCRATCH = os.path.join(extract.CACHE, "scratch") if os.environ.get("ZK_REPO") and os.path.realpath(os.environ["ZK_REPO"]) != "/repo" else None
PROPS = ["C%02d" % i for i in range(1, 21)]


class Result:
    def __init__(self, rule, instance, status, reason, loc="", detail=None):
        self.rule, self.instance, self.status, self.reason, self.loc, self.detail = rule, instance, status, reason, loc, detail

    def key(self, pid):
        return "%s|%s|%s" % (pid, self.rule, self.instance)

    def to_json(self):
        d = {"rule": self.rule, "instance": self.instance, "verdict": self.status, "reason": self.reason}
        if self.loc:
            d["at"] = self.loc
        return d


class Ctx:
    def __init__(self, pid, tier):
        self.pid = pid
        self.tier = tier
        self.results = []
        self.fbs = {}
        self.meta = {}
        self.analysed = {"functions": set(), "configs": set()}
        self.notes = []
        self.fixture_results = []
        self.floors = {}

    # ---- fact bases
    def fb(self, cfg):
        if cfg not in self.fbs:
            m = extract.ensure_facts([cfg])
            self.meta.update(m)
            if not m[cfg]["ok"] and cfg != "full":
                pass
            self.fbs[cfg] = facts.FactBase(cfg, m[cfg]["dir"])
            for new_, old_ in sorted(self.fbs[cfg].renamed.items()):
                self.notes.append("[%s] function %s is read as the renamed / moved %s (same signature; the old name no longer exists, the new one is not in the frozen inventory)" % (cfg, new_, old_))
            self.analysed["configs"].add(cfg)
        return self.fbs[cfg]

    def prefetch(self, cfgs):
        m = extract.ensure_facts(list(cfgs))
        self.meta.update(m)

    def compiled(self, cfg):
        if cfg not in self.meta:
            self.prefetch([cfg])
        return self.meta[cfg]["ok"], self.meta[cfg]

    # ---- verdicts
    def ok(self, rule, instance, reason, loc=""):
        self.results.append(Result(rule, instance, "ok", reason, loc))

    def fail(self, rule, instance, reason, loc="", detail=None):
        self.results.append(Result(rule, instance, "fail", reason, loc, detail))

    def check(self, cond, rule, instance, ok_reason, fail_reason, loc="", detail=None):
        if cond:
            self.ok(rule, instance, ok_reason, loc)
        else:
            self.fail(rule, instance, fail_reason, loc, detail)
        return cond

    def floor(self, name, measured, minimum):
        self.floors[name] = {"measured": measured, "floor": minimum}
        if measured < minimum:
            self.fail("floor", name, "instance count %d below the hand-confirmed floor %d (rule would pass vacuously)" % (measured, minimum))

    def touch(self, item):
        self.analysed["functions"].add(item.path if hasattr(item, "path") else str(item))

    def fixture(self, rule, fired, what):
        self.fixture_results.append({"rule": rule, "fired": bool(fired), "fixture": what})
        if not fired:
            self.fail("selftest", rule, "rule did not fire on its deliberately wrong fixture (%s): machinery broken" % what)


def load_known():
    known, fixed = {}, []
    p = os.path.join(VERIF, "known_findings.jsonl")
    if os.path.exists(p):
        for line in open(p):
            line = line.strip()
            if not line or line.startswith("#"):
                continue
            if line.startswith("fixed:"):
                fixed.append(line)
                continue
            d = json.loads(line)
            known[d["key"]] = d
    return known, fixed


def slug(s):
    return re.sub(r"[^A-Za-z0-9_.-]+", "_", s)[:120] + "-" + hashlib.sha1(s.encode()).hexdigest()[:8]


def run_property(pid, tier, replay=None):
    t0 = time.time()
    ctx = Ctx(pid, tier)
    mod = importlib.import_module("zkrules.rules.%s" % pid.lower())
    try:
        mod.run(ctx)
    except ShapeViolation as e:
        from .lib import loc as _loc
        ctx.fail("shape", "straight-line primitive", str(e), _loc(e.item) if e.item is not None else "")
    except MissingAnchor as e:
        ctx.fail("anchor", "missing", "anchor not found, failing closed: %s" % e)
    except Exception as e:
        ctx.fail("machinery", "exception", "checker raised %s: %s" % (type(e).__name__, e), detail=traceback.format_exc())
    known, fixed = load_known()
    fails = [r for r in ctx.results if r.status == "fail"]
    oks = [r for r in ctx.results if r.status == "ok"]
    out_dir = os.path.join(SCRATCH or VERIF, "out", pid)
    os.makedirs(out_dir, exist_ok=True)
    violations = []
    known_hits = []
    for r in fails:
        k = r.key(pid)
        if k in known:
            known_hits.append((r, known[k]))
            print("KNOWN-FINDING: property=%s %s" % (pid, known[k].get("what", r.reason)))
        else:
            violations.append(r)
    for r in violations:
        path = os.path.join(out_dir, slug(r.key(pid)) + ".json")
        json.dump({"property": pid, "key": r.key(pid), "rule": r.rule, "instance": r.instance, "at": r.loc,
                   "reason": r.reason, "detail": r.detail}, open(path, "w"), indent=1, default=str)
        print("VIOLATION property=%s replay=%s" % (pid, path))
        print("  %s [%s] %s: %s" % (r.rule, r.loc, r.instance, r.reason))
    info = getattr(mod, "INFO", {})
    distinct = len(set((r.rule, r.instance) for r in ctx.results if r.rule not in ("floor", "selftest")))
    samples = [r.to_json() for r in (fails[:6] + oks[:10])]
    level = info.get("level", "other")
    if level == "proof" and (violations or known_hits):
        level = "other"
    cov = {
        "explanation": info.get("explanation", ""),
        "evaluations": len(ctx.results),
        "distinct_nontrivial": distinct,
        "rule": info.get("rule", "one evaluation = one (rule, instance) pair judged on the current MIR facts of /repo; "
                                 "distinct = distinct pairs; non-trivial = the rule found its anchor site and had a real construct to judge "
                                 "(vacuous matches fail the floors instead)"),
        "samples": samples,
        "obligations": len([r for r in ctx.results if r.rule not in ("floor", "selftest")]),
        "discharged": len([r for r in oks if r.rule not in ("floor", "selftest")]),
        "checker_cmd": "./check %s --tier %s" % (pid, tier),
        "trusted_base": info.get("trusted_base", ["rustc nightly type checking / MIR construction", "summaries of external callees in zkrules/symex.py"]),
        "exhaustive": bool(info.get("exhaustive", False)),
        "functions_analysed": sorted(ctx.analysed["functions"]),
        "configurations": sorted(ctx.analysed["configs"]),
        "floors": ctx.floors,
        "fixtures": ctx.fixture_results,
        "known_findings_hit": [k.key(pid) for k, _ in known_hits],
        "fixed_entries": fixed,
        "not_decided": info.get("not_decided", ""),
        "notes": ctx.notes,
        "extraction": {c: {"ok": m.get("ok"), "cached": m.get("cached"), "wall_s": m.get("wall_s"), "tree": m.get("tree")}
                       for c, m in ctx.meta.items()},
    }
    ev = {
        "property_id": pid,
        "tier": tier,
        "seed": int(os.environ.get("VERIF_SEED", "0") or 0),
        "level": level,
        "coverage": cov,
        "assumptions": info.get("assumptions", []),
        "wall_s": round(time.time() - t0, 3),
        "violations": len(violations),
    }
    os.makedirs(os.path.join(SCRATCH or VERIF, "evidence"), exist_ok=True)
    tmp = os.path.join(SCRATCH or VERIF, "evidence", "%s.json.tmp" % pid)
    json.dump(ev, open(tmp, "w"), indent=1, default=str)
    os.replace(tmp, os.path.join(SCRATCH or VERIF, "evidence", "%s.json" % pid))
    print("%s: %d rule instances, %d ok, %d known findings, %d violations (%.1fs)" % (
        pid, len(ctx.results), len(oks), len(known_hits), len(violations), time.time() - t0))
    return 1 if violations else 0


def main(argv):
    if len(argv) < 2:
        print(__doc__)
        return 2
    pid = argv[1]
    tier = os.environ.get("VERIF_TIER", "quick")
    replay = None
    i = 2
    while i < len(argv):
        if argv[i] == "--tier":
            tier = argv[i + 1]
            i += 2
        elif argv[i] == "--replay":
            replay = argv[i + 1]
            i += 2
        else:
            i += 1
    if tier not in ("quick", "thorough"):
        tier = "quick"
    if pid == "setup":
        extract.build_driver()
        m = extract.ensure_facts(list(extract.CONFIGS) + [extract.FIXTURE_CFG])
        for c, x in sorted(m.items()):
            print("setup: config %-10s ok=%s cached=%s wall=%ss" % (c, x["ok"], x.get("cached"), x.get("wall_s")))
        from . import witness
        for c in ("default", "optimal", "stateless", "full", "arkzkey"):
            r = witness.run(c)
            print("setup: witness %-10s ok=%s wall=%ss" % (c, r["ok"], r["wall_s"]))
        return 0
    if pid == "all":
        rc = 0
        for p in PROPS:
            try:
                rc |= run_property(p, tier)
            except ModuleNotFoundError:
                print("%s: no check" % p)
        return rc
    if replay:
        d = json.load(open(replay))
        print("replaying %s on the current tree" % d.get("key"))
        rc = run_property(d["property"], tier)
        return rc
    return run_property(pid, tier)


if __name__ == "__main__":
    sys.exit(main(sys.argv))
