"""Pretty printer for the JSON MIR (debugging aid and replay output)."""


def place(p):
    s = "_%d" % p["l"]
    for pr in p["proj"]:
        k = pr[0]
        if k == "deref":
            s = "(*%s)" % s
        elif k == "field":
            s = "%s.%s" % (s, pr[2] if pr[2] else pr[1])
        elif k == "index":
            s = "%s[_%d]" % (s, pr[1])
        elif k == "cidx":
            s = "%s[%s%d]" % (s, "-" if pr[3] else "", pr[1])
        elif k == "sub":
            s = "%s[%d..%s%d]" % (s, pr[1], "-" if pr[3] else "", pr[2])
        elif k == "down":
            s = "(%s as %s)" % (s, pr[2] or pr[1])
        else:
            s = "%s.<%s>" % (s, k)
    return s


def const(c):
    if "fn" in c:
        return "fn:%s" % c["fn"]
    if "v" in c:
        return "%s_%s" % (c["v"], c["ty"])
    if "bytes" in c and c.get("bytes_len", 0) <= 64:
        try:
            return "b" + repr(bytes(c["bytes"]))[1:]
        except Exception:
            pass
    if "item" in c:
        return "item:%s%s" % (c["item"], ("[p%s]" % c["promoted"]) if "promoted" in c else "")
    return c.get("disp", "?")[:80]


def operand(o):
    if "cp" in o:
        return place(o["cp"])
    if "mv" in o:
        return "move " + place(o["mv"])
    return const(o["c"])


def rvalue(rv):
    k = rv["k"]
    if k == "use":
        return operand(rv["o"])
    if k == "ref":
        return "&%s%s" % ("mut " if rv["m"] == "mut" else "", place(rv["p"]))
    if k == "rawptr":
        return "&raw %s" % place(rv["p"])
    if k == "cast":
        return "%s as %s (%s)" % (operand(rv["o"]), rv["ty"], rv["ck"][:30])
    if k == "bin":
        return "%s(%s, %s)" % (rv["op"], operand(rv["a"]), operand(rv["b"]))
    if k == "un":
        return "%s(%s)" % (rv["op"], operand(rv["o"]))
    if k == "discr":
        return "discriminant(%s)" % place(rv["p"])
    if k == "agg":
        kd = rv["kind"]
        ops = ", ".join(operand(o) for o in rv["ops"])
        if kd["a"] == "adt":
            return "%s::%s{%s}" % (kd["path"], kd["vn"], ops)
        if kd["a"] == "closure":
            return "closure[%s](%s)" % (kd["path"], ops)
        return "%s(%s)" % (kd["a"], ops)
    if k == "repeat":
        return "[%s; %s]" % (operand(rv["o"]), rv["n"])
    return "%s:%s" % (k, rv.get("dbg", ""))


def term(t):
    k = t["k"]
    if k == "goto":
        return "goto bb%d" % t["t"]
    if k == "switch":
        return "switchInt(%s) -> [%s, otherwise: bb%d]" % (
            operand(t["d"]), ", ".join("%s: bb%d" % (v, b) for v, b in t["ts"]), t["o"])
    if k == "call":
        callee = t.get("resolved") or t.get("callee") or ("fnptr " + operand(t["fnptr"]))
        return "%s = %s(%s) -> %s%s" % (
            place(t["dest"]), callee, ", ".join(operand(a) for a in t["args"]),
            ("bb%d" % t["t"]) if t["t"] is not None else "!",
            (" unwind bb%d" % t["unwind"]) if t.get("unwind") is not None else "")
    if k == "assert":
        return "assert(%s == %s, %s(%s)) -> bb%d" % (
            operand(t["cond"]), t["expected"], t["ak"], ", ".join(operand(a) for a in t["aops"]), t["t"])
    if k == "drop":
        return "drop(%s) -> bb%d" % (place(t["p"]), t["t"])
    return k


def body(item, show_cleanup=False):
    out = []
    d = item.d if hasattr(item, "d") else item
    out.append("fn %s  [%s:%s] args=%d" % (d.get("path", "?"), d.get("file", "?"), d.get("line", "?"), d["arg_count"]))
    for i, l in enumerate(d["locals"]):
        out.append("  let _%d: %s%s" % (i, l["ty"], ("  // " + l["name"]) if l["name"] else ""))
    for i, b in enumerate(d["blocks"]):
        if b["cleanup"] and not show_cleanup:
            continue
        out.append("  bb%d%s:" % (i, " (cleanup)" if b["cleanup"] else ""))
        for s in b["stmts"]:
            if s["k"] == "assign":
                out.append("    %s = %s   // %s %s" % (place(s["p"]), rvalue(s["rv"]), s["sp"][0], s.get("exp", "")))
            else:
                out.append("    %s" % s["k"])
        out.append("    %s   // %s %s" % (term(b["term"]), b["term"]["sp"][0], b["term"].get("exp", "")))
    return "\n".join(out)
