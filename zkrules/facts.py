"""Fact base: loads the JSON facts written by the zkfacts driver (E1) and indexes them."""
import json, os, re


class Item:
    __slots__ = ("d", "path", "kind", "crate", "cfg")

    def __init__(self, d, crate, cfg):
        self.d = d
        self.path = d["path"]
        self.kind = d["kind"].split(" ")[0]
        self.crate = crate
        self.cfg = cfg

    def __getitem__(self, k):
        return self.d[k]

    def get(self, k, default=None):
        return self.d.get(k, default)

    @property
    def file(self):
        return self.d.get("file", "?")

    @property
    def line(self):
        return self.d.get("line", 0)

    @property
    def blocks(self):
        return self.d["blocks"]

    @property
    def locals(self):
        return self.d["locals"]

    @property
    def arg_count(self):
        return self.d["arg_count"]

    def loc(self):
        return "%s:%s" % (self.file, self.line)

    def __repr__(self):
        return "<Item %s>" % self.path


class FactBase:
    """All crates of one feature configuration."""

    def __init__(self, cfg, directory, renames=True):
        self.cfg = cfg
        self.dir = directory
        self.renamed = {}
        self._load(directory, None)
        self.field_renames = {}
        if renames:
            mp = self._detect_renames()
            fr = dict(self.field_renames)
            if getattr(self, "adt_moves", None):
                # a moved struct: re-detect the functions after reading its paths at the old place
                mp = dict(mp)
                mp.update(self.adt_moves)
            if mp or fr:
                self.renamed = dict(mp)
                self.renamed.update({"field " + k: "field " + v for k, v in fr.items()})
                self._load(directory, mp, fr)

    def _detect_renames(self):
        """{new path: old path} for functions of the workspace that were renamed or moved since the inventory
        (known_signatures.json) was frozen: the old path no longer exists in this configuration, the new path is not in the inventory,
        the signature is identical, and either the enclosing module / impl or the function's own name is unchanged; only when the
        match is unique both ways. Everything downstream then sees the old name, so a rule anchored on it keeps reading the same code."""
        kp = os.path.join(os.path.dirname(__file__), "known_signatures.json")
        if not os.path.exists(kp):
            return {}
        known = json.load(open(kp))
        known_adts = known.pop("__adts__", {})
        # renamed private fields: a struct of the inventory whose fields have the same types in the same order, with a name that is
        # new, and that no other struct of the workspace uses for a field
        all_field_names = {}
        for p_, a in self.adts.items():
            for v in a.get("variants", []):
                for f in v.get("fields", []):
                    all_field_names.setdefault(f["name"], set()).add(p_)
        self.field_renames = {}
        # moved structs: a struct of the inventory that no longer exists under its path while a struct with the same own name and the
        # same fields exists elsewhere in the same crate: every path through it (its methods, its mentions in types) is read at the
        # old place
        self.adt_moves = {}
        for p_, per_cfg in known_adts.items():
            old_fields = per_cfg.get(self.cfg)
            if old_fields is None or p_ in self.adts:
                continue
            last_ = p_.rsplit("::", 1)[-1]
            cands = [q for q, a in self.adts.items() if q not in known_adts and q.rsplit("::", 1)[-1] == last_ and q.split("::")[0] == p_.split("::")[0]
                     and len(a.get("variants", [])) == 1 and [f["name"] for f in a["variants"][0]["fields"]] == [n for n, _ in old_fields]]
            if len(cands) == 1:
                rel = lambda x: x.split("::", 1)[1] if "::" in x else x
                self.adt_moves[rel(cands[0])] = rel(p_)
        for p_, per_cfg in known_adts.items():
            old_fields = per_cfg.get(self.cfg)
            a = self.adts.get(p_)
            if old_fields is None or a is None or len(a.get("variants", [])) != 1:
                continue
            cur = [[f["name"], f["ty"]] for f in a["variants"][0]["fields"]]
            if len(cur) != len(old_fields) or [t for _, t in cur] != [t for _, t in old_fields]:
                continue
            old_names = {n for n, _ in old_fields}
            for (n_new, _), (n_old, _) in zip(cur, old_fields):
                if n_new != n_old and n_new not in old_names and all_field_names.get(n_new) == {p_} and not n_new.isdigit():
                    self.field_renames[n_new] = n_old
        present = {p: it for p, it in self.items.items() if it.kind in ("Fn", "AssocFn", "Static", "Const") and it.crate in ("rln", "zerokit_utils") and "@" not in p}
        missing = [p for p, e in known.items() if self.cfg in e["cfgs"] and p not in present]
        new = [p for p in present if p not in known]
        if not missing or not new:
            return {}
        nm = lambda xs: [re.sub(r"&('\w+ )?mut ", "&", x) if isinstance(x, str) else x for x in xs]   # `&mut self` <-> `&self` of a helper that only reads
        sig = lambda it: nm(signature(it))
        parent = lambda p: p.rsplit("::", 1)[0]
        last = lambda p: p.rsplit("::", 1)[-1]
        cand = {}
        for o in missing:
            c = [n for n in new if sig(present[n]) == nm(known[o]["sig"]) and (parent(n) == parent(o) or last(n) == last(o))]
            if len(c) > 1 and known[o].get("fp") is not None:
                c2 = [n for n in c if fingerprint(present[n]) == known[o]["fp"]]
                c = c2 if len(c2) == 1 else c
            if len(c) == 1:
                cand[o] = c[0]
        used = {}
        for o, n in cand.items():
            used.setdefault(n, []).append(o)
        return {n: os_[0] for n, os_ in used.items() if len(os_) == 1}

    def _rename_maps(self):
        mp = self._detect_renames()
        return mp, getattr(self, "field_renames", {})

    def _load(self, directory, renames, field_renames=None):
        self.items = {}
        self.adts = {}
        self.aliases = {}
        self.crates = {}
        self._canon = None
        self.dups = {}
        rx = None
        frx = None
        if field_renames:
            # field names occur in the facts as whole JSON strings ("name")
            frx = re.compile("|".join('"' + re.escape(k) + '"' for k in sorted(field_renames, key=len, reverse=True)))
        if renames:
            # longest first, whole path tokens only (a path followed by `::{closure#k}` is renamed with its parent)
            keys = sorted(renames, key=len, reverse=True)
            rx = re.compile("|".join(r"(?<![A-Za-z0-9_])" + re.escape(k) + r"(?![A-Za-z0-9_])" for k in keys))
        for fn in sorted(os.listdir(directory)):
            if not fn.endswith(".json"):
                continue
            with open(os.path.join(directory, fn)) as f:
                if rx is None and frx is None:
                    d = json.load(f)
                else:
                    # JSON-escaped text: the paths contain no characters that JSON escapes
                    txt = f.read()
                    if rx is not None:
                        txt = rx.sub(lambda m_: renames[m_.group(0)], txt)
                    if frx is not None:
                        txt = frx.sub(lambda m_: '"' + field_renames[m_.group(0)[1:-1]] + '"', txt)
                    d = json.loads(txt)
            crate = d["crate"]
            self.crates[fn[:-5]] = {"crate": crate, "features": d["features"], "crate_types": d["crate_types"],
                                    "n_items": len(d["items"])}
            for it in d["items"]:
                item = Item(it, crate, self.cfg)
                # the same path may exist in lib and bin facts of a package; keep first.  Two different items can also
                # print the same path (impls of two traits re-exported under one name): keep both, the later one
                # under path@file:line
                prev = self.items.get(item.path)
                if prev is None:
                    self.items[item.path] = item
                elif (prev.file, prev.line) != (item.file, item.line) and prev.crate == item.crate:
                    alt = "%s@%s:%s" % (item.path, item.file, item.line)
                    self.items.setdefault(alt, item)
                    self.dups.setdefault(item.path, [prev]).append(item)
            for a in d["adts"]:
                self.adts.setdefault(a["path"], a)
            for a in d["aliases"]:
                self.aliases.setdefault(a["path"], a["ty"])

    def fn(self, path):
        return self.items.get(path)

    def lookup(self, name):
        """item for a callee name as printed from any workspace crate (trait-impl paths are printed differently
        inside and outside their crate: `cr::<a::T as tr::Trait>::m` vs `<cr::a::T as x::tr::Trait>::m`)"""
        if not name:
            return None
        it = self.items.get(name)
        if it is not None:
            return it
        if self._canon is None:
            self._canon = {}
            for p_, it_ in self.items.items():
                if "<" in p_ and " as " in p_:
                    self._canon.setdefault(canon(p_), it_)
        if "<" in name and " as " in name:
            return self._canon.get(canon(name))
        return None

    def need(self, path):
        it = self.items.get(path)
        if it is None:
            raise MissingAnchor("%s (config %s)" % (path, self.cfg))
        return it

    def find(self, regex, kinds=("Fn", "AssocFn")):
        r = re.compile(regex)
        return [it for p, it in sorted(self.items.items()) if r.search(p) and (kinds is None or it.kind in kinds)]

    def one(self, regex, kinds=("Fn", "AssocFn")):
        xs = self.find(regex, kinds)
        if len(xs) != 1:
            raise MissingAnchor("expected exactly one item matching /%s/ in config %s, found %d: %s" % (
                regex, self.cfg, len(xs), [x.path for x in xs][:6]))
        return xs[0]

    def closures_of(self, parent_path):
        return [it for p, it in sorted(self.items.items()) if it.kind == "Closure" and it.get("parent") == parent_path]


def signature(it):
    """[return type, argument types..] of a function; [kind, type] of a static or constant"""
    if it.kind in ("Static", "Const"):
        return [it.kind, it.get("ty")]
    return [l["ty"] for l in it.locals[:it.arg_count + 1]]


def fingerprint(it):
    """a name-independent summary of a function body, used only to tell apart several functions of one signature when one of them
    was renamed: number of basic blocks and the sorted names of the callees outside the workspace"""
    cs = []
    for b in (it.d.get("blocks") or []):
        t = b["term"]
        if t["k"] == "call":
            n = t.get("resolved") or t.get("callee") or ""
            if not n.startswith(("rln::", "zerokit_utils::")) and "rln::" not in n[:12]:
                cs.append(n)
    return [len(it.d.get("blocks") or []), sorted(cs)]


WS_CRATES = ("zerokit_utils::", "rln::", "rln_cli::", "zkfix::")


def canon(name):
    """crate-position-independent form of a trait-impl path"""
    n = name
    for c in WS_CRATES:
        n = n.replace(c, "")
    # trait path -> last segment (re-exports print differently per crate)
    def last(m):
        t = m.group(1)
        head = t.split("<")[0].split("::")[-1]
        return " as " + head + (("<" + t.split("<", 1)[1]) if "<" in t else "") + ">::"
    n = re.sub(r" as ([^>]*?(?:<[^<>]*>)?[^>]*?)>::", last, n, count=1)
    return n


class MissingAnchor(Exception):
    pass


class ShapeViolation(MissingAnchor):
    """a function specified as one straight-line path for all inputs has several return paths: a value-dependent case split
    (this is what a region-confined defect looks like, DESIGN.md section 1); carries the item for the report's location"""

    def __init__(self, msg, item=None):
        super().__init__(msg)
        self.item = item
