"""Fact base: loads the JSON facts written by the zkfacts driver (E1) and indexes them."""
import json, os, re


class Item:
    __slots__ = ("d", "path", "kind", "crate", "cfg")

    def __init__(self, d, crate, cfg):
        self.d = d
        self.path = d["path"]
        self.kind = d["kind"].split(" ")[0]
        self.crate = crate
        self.cfg = cfg

    def __getitem__(self, k):
        return self.d[k]

    def get(self, k, default=None):
        return self.d.get(k, default)

    @property
    def file(self):
        return self.d.get("file", "?")

    @property
    def line(self):
        return self.d.get("line", 0)

    @property
    def blocks(self):
        return self.d["blocks"]

    @property
    def locals(self):
        return self.d["locals"]

    @property
    def arg_count(self):
        return self.d["arg_count"]

    def loc(self):
        return "%s:%s" % (self.file, self.line)

    def __repr__(self):
        return "<Item %s>" % self.path


class FactBase:
    """All crates of one feature configuration."""

    def __init__(self, cfg, directory):
        self.cfg = cfg
        self.dir = directory
        self.items = {}
        self.adts = {}
        self.aliases = {}
        self.crates = {}
        self._canon = None
        self.dups = {}
        for fn in sorted(os.listdir(directory)):
            if not fn.endswith(".json"):
                continue
            with open(os.path.join(directory, fn)) as f:
                d = json.load(f)
            crate = d["crate"]
            self.crates[fn[:-5]] = {"crate": crate, "features": d["features"], "crate_types": d["crate_types"],
                                    "n_items": len(d["items"])}
            for it in d["items"]:
                item = Item(it, crate, cfg)
                # the same path may exist in lib and bin facts of a package; keep first.  Two different items can also
                # print the same path (impls of two traits re-exported under one name): keep both, the later one
                # under path@file:line
                prev = self.items.get(item.path)
                if prev is None:
                    self.items[item.path] = item
                elif (prev.file, prev.line) != (item.file, item.line) and prev.crate == item.crate:
                    alt = "%s@%s:%s" % (item.path, item.file, item.line)
                    self.items.setdefault(alt, item)
                    self.dups.setdefault(item.path, [prev]).append(item)
            for a in d["adts"]:
                self.adts.setdefault(a["path"], a)
            for a in d["aliases"]:
                self.aliases.setdefault(a["path"], a["ty"])

    def fn(self, path):
        return self.items.get(path)

    def lookup(self, name):
        """item for a callee name as printed from any workspace crate (trait-impl paths are printed differently
        inside and outside their crate: `cr::<a::T as tr::Trait>::m` vs `<cr::a::T as x::tr::Trait>::m`)"""
        if not name:
            return None
        it = self.items.get(name)
        if it is not None:
            return it
        if self._canon is None:
            self._canon = {}
            for p_, it_ in self.items.items():
                if "<" in p_ and " as " in p_:
                    self._canon.setdefault(canon(p_), it_)
        if "<" in name and " as " in name:
            return self._canon.get(canon(name))
        return None

    def need(self, path):
        it = self.items.get(path)
        if it is None:
            raise MissingAnchor("%s (config %s)" % (path, self.cfg))
        return it

    def find(self, regex, kinds=("Fn", "AssocFn")):
        r = re.compile(regex)
        return [it for p, it in sorted(self.items.items()) if r.search(p) and (kinds is None or it.kind in kinds)]

    def one(self, regex, kinds=("Fn", "AssocFn")):
        xs = self.find(regex, kinds)
        if len(xs) != 1:
            raise MissingAnchor("expected exactly one item matching /%s/ in config %s, found %d: %s" % (
                regex, self.cfg, len(xs), [x.path for x in xs][:6]))
        return xs[0]

    def closures_of(self, parent_path):
        return [it for p, it in sorted(self.items.items()) if it.kind == "Closure" and it.get("parent") == parent_path]


WS_CRATES = ("zerokit_utils::", "rln::", "rln_cli::", "zkfix::")


def canon(name):
    """crate-position-independent form of a trait-impl path"""
    n = name
    for c in WS_CRATES:
        n = n.replace(c, "")
    # trait path -> last segment (re-exports print differently per crate)
    def last(m):
        t = m.group(1)
        head = t.split("<")[0].split("::")[-1]
        return " as " + head + (("<" + t.split("<", 1)[1]) if "<" in t else "") + ">::"
    n = re.sub(r" as ([^>]*?(?:<[^<>]*>)?[^>]*?)>::", last, n, count=1)
    return n


class MissingAnchor(Exception):
    pass
