"""Linear arithmetic over path facts for the panic-obligation checker (A6).

Terms are put into linear normal form over opaque atoms (len(x), loop variables, decoded lengths, quotients ...), every atom
being a non-negative machine integer. A goal `g >= 0` is discharged by exhibiting it as a non-negative integer combination
of facts `f_j >= 0` plus non-negative atoms and a non-negative constant. The search for the combination is a bounded
elimination (depth-limited, deterministic); any combination found is a proof, nothing is assumed when none is found.
No external solver is involved."""
from .symex import cint, is_const

MAXC = 1 << 62


def lin(t):
    """term -> ({atom: coeff}, const) ; None if not linear"""
    c = cint(t)
    if c is not None:
        return ({}, c)
    if isinstance(t, tuple) and t and t[0] == "bin":
        op = t[1]
        if op in ("Add", "Sub"):
            a, b = lin(t[2]), lin(t[3])
            if a is None or b is None:
                return ({t: 1}, 0)
            s = 1 if op == "Add" else -1
            d = dict(a[0])
            for k, v in b[0].items():
                d[k] = d.get(k, 0) + s * v
            return ({k: v for k, v in d.items() if v}, a[1] + s * b[1])
        if op == "Mul":
            ca, cb = cint(t[2]), cint(t[3])
            if cb is not None or ca is not None:
                k = cb if cb is not None else ca
                x = lin(t[2] if cb is not None else t[3])
                if x is not None and abs(k) < MAXC:
                    return ({a: v * k for a, v in x[0].items() if v * k}, x[1] * k)
    if isinstance(t, tuple) and t and t[0] == "cast" and t[1] in ("usize", "u64"):
        return lin(t[2]) if isinstance(t[2], tuple) and t[2][0] in ("bin", "const", "len") else ({t: 1}, 0)
    return ({t: 1}, 0)


def sub(a, b):
    d = dict(a[0])
    for k, v in b[0].items():
        d[k] = d.get(k, 0) - v
    return ({k: v for k, v in d.items() if v}, a[1] - b[1])


def scale(a, m):
    return ({k: v * m for k, v in a[0].items()}, a[1] * m)


def nonneg(e):
    return e[1] >= 0 and all(v >= 0 for v in e[0].values())


class LinFacts:
    def __init__(self):
        self.facts = []     # expressions known >= 0
        self._atoms_done = set()
        self.hook = None

    def add_ge0(self, e):
        if e is None:
            return
        if not e[0] and e[1] >= 0:
            return
        if e not in self.facts and len(self.facts) < 200:
            self.facts.append(e)

    def add_le(self, x, y, strict=False):
        lx, ly = lin(x), lin(y)
        e = sub(ly, lx)
        if strict:
            e = (e[0], e[1] - 1)
        self.add_ge0(e)
        for a in list(lx[0]) + list(ly[0]):
            self.atom_facts(a)

    def add_eq(self, x, y):
        self.add_le(x, y)
        self.add_le(y, x)

    def atom_facts(self, a):
        """structural facts about an atom: quotients, minima, slice lengths, range-loop variables"""
        if a in self._atoms_done or not isinstance(a, tuple):
            return
        self._atoms_done.add(a)
        if self.hook:
            self.hook(a, self)
        # a range bound written with operator calls on references
        if a[0] == "call" and isinstance(a[1], str) and a[1].endswith("std::ops::Add<usize>>::add") and len(a[2]) == 2:
            e = sub(({a: 1}, 0), (lambda x, y: ({**x[0], **{k: x[0].get(k, 0) + v for k, v in y[0].items()}}, x[1] + y[1]))(lin(a[2][0]), lin(a[2][1])))
            self.add_ge0(e)
            self.add_ge0(scale(e, -1))
        if a[0] == "bin" and a[1] == "Div" and cint(a[3]) and cint(a[3]) > 0:
            k = cint(a[3])
            x = lin(a[2])
            # k*a <= x  and  x <= k*a + (k-1)
            self.add_ge0(sub(x, ({a: k}, 0)))
            self.add_ge0(sub(({a: k}, k - 1), x))
            for b in x[0]:
                self.atom_facts(b)
        if a[0] == "bin" and a[1] == "Rem" and cint(a[3]) and cint(a[3]) > 0:
            self.add_ge0(({a: -1}, cint(a[3]) - 1))
        if a[0] == "call" and isinstance(a[1], str) and a[1].endswith("cmp::min") and len(a[2]) == 2:
            for x in a[2]:
                self.add_ge0(sub(lin(x), ({a: 1}, 0)))
        if a[0] == "len" and isinstance(a[1], tuple) and a[1] and a[1][0] == "slice":
            s = a[1]
            base = ("len", s[1])
            if s[3] is None:
                # len(b[lo..]) = len(b) - lo   (the slicing itself carries the obligation lo <= len(b))
                e = sub(sub(lin(base), lin(s[2])), ({a: 1}, 0))
                self.add_ge0(e)
                self.add_ge0(scale(e, -1))
            else:
                e = sub(sub(lin(s[3]), lin(s[2])), ({a: 1}, 0))
                self.add_ge0(e)
                self.add_ge0(scale(e, -1))
        # index of `for (j, x) in seq.iter().enumerate()`: j < len(seq)
        if a[0] == "field" and a[2] == ("f", "0") and isinstance(a[1], tuple) and a[1][0] == "unwrap" and isinstance(a[1][1], tuple) and a[1][1][0] == "call" \
                and isinstance(a[1][1][1], str) and a[1][1][1].endswith("Enumerate<I> as std::iter::Iterator>::next"):
            it = a[1][1][2][0]
            n = 0
            while isinstance(it, tuple) and it and n < 6:
                if it[0] == "phi" and it[4] is not None:
                    it = it[4]
                elif it[0] == "call" and isinstance(it[1], str) and (it[1].endswith("Iterator::enumerate") or it[1].endswith("::iter") or it[1].endswith("::into_iter")) and it[2]:
                    it = it[2][0]
                else:
                    break
                n += 1
            self.add_le(a, ("len", it), strict=True)
        # loop variable of `for i in lo..hi`
        if a[0] == "unwrap" and isinstance(a[1], tuple) and a[1][0] == "call" and a[1][1].endswith("Range<A>>::next"):
            it = a[1][2][0]
            if isinstance(it, tuple) and it[0] == "phi" and isinstance(it[4], tuple) and it[4][0] == "adt" and it[4][1].endswith("ops::Range"):
                lo, hi = it[4][4][0], it[4][4][1]
                self.add_le(lo, a)
                self.add_le(a, hi, strict=True)

    def prove_ge0(self, g, depth=4):
        for a in list(g[0]):
            self.atom_facts(a)
        return self._prove(g, depth, frozenset())

    def _prove(self, g, depth, used):
        if nonneg(g):
            return True
        if depth == 0:
            return False
        neg = [a for a, v in g[0].items() if v < 0]
        if not neg:
            # only the constant is negative: need a fact with a positive constant slack ... try facts that are pure bounds
            cands = [f for f in self.facts if not any(v < 0 and a not in g[0] for a, v in f[0].items())]
        x = neg[0] if neg else None
        for i, f in enumerate(self.facts):
            if x is not None:
                q = f[0].get(x, 0)
                if q >= 0:
                    continue
                c = -g[0][x]
                m = -(-c // (-q))      # ceil(c / -q)
            else:
                # only the constant of g is negative: subtracting a fact whose own constant is negative (x - c >= 0, c > 0)
                # raises it; the remainder must then be non-negative in its atoms
                if f[1] >= 0:
                    continue
                m = 1
            if (i, m) in used or m > (1 << 20):
                continue
            # g = m*f + g'  with g' = g - m*f ; f >= 0 so it suffices to prove g' >= 0
            g2 = sub(g, scale(f, m))
            if len(g2[0]) > 12:
                continue
            if self._prove(g2, depth - 1, used | {(i, m)}):
                return True
        return False

    def le(self, a, b, strict=False):
        e = sub(lin(b), lin(a))
        if strict:
            e = (e[0], e[1] - 1)
        return self.prove_ge0(e)
