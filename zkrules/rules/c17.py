"""C17 All build configurations implement the same protocol: compile matrix, type-level witnesses, feature-selected tree type,
hasher sibling agreement, key-loader pairing."""
import os, re
from ..symex import Engine, show, subterms, contains, known_ok
from ..lib import *
from ..facts import MissingAnchor
from .. import witness, extract

INFO = {
    "level": "other",
    "explanation": "Decides that every selectable configuration type-checks and selects siblings that agree on hasher, default leaf, trait "
                   "surface and key-loader pairing. R17-1 compile matrix: rln type-checks under default (pmtree), --no-default-features "
                   "(optimal), fullmerkletree, stateless and arkzkey (the compiler's verdict per configuration, from the fact extraction). "
                   "R17-2 type-level witnesses compiled against /repo per configuration (cargo check of /verif/witness): PoseidonTree: "
                   "ZerokitMerkleTree<Hasher = PoseidonHash>, MerkleProof: ZerokitMerkleProof<Index = u8, Hasher = PoseidonHash>, the tree's "
                   "Proof type is the MerkleProof alias, the hasher's field is circuit::Fr, the stateful API exists exactly when the "
                   "configuration is not stateless, the key loaders have one signature everywhere; each with a twin that must fail to "
                   "compile with the stated error code (E0271 other hasher, E0599 tree API under stateless); the cfg-resolved aliases and the "
                   "type of RLN.tree equal the documented back end of each configuration. R17-3 sibling agreement of the Hasher impls "
                   "(utils' and pmtree's) for PoseidonHash: default_leaf = Fr::from(0), hash = poseidon_hash(inputs), pmtree's "
                   "serialize/deserialize = fr_to_bytes_le / bytes_le_to_fr(..).0. R17-4 loader pairing per configuration: the lazy key and "
                   "zkey_from_raw use read_zkey on ZKEY_BYTES / the caller's bytes without arkzkey and "
                   "read_arkzkey_from_bytes_uncompressed on ARKZKEY_BYTES with it; the embedded byte constants have the sizes of the "
                   "bundled resource files; the arkzkey reader copies each of the nine matrix fields to the same-named field.",
    "r17_6": "R17-6 (shared with C07 R07-1..R07-3): the three back ends build membership proofs by one convention (stored sibling at every level, direction bits, root recomputation)",
    "r17_5": "R17-5: the tree back ends selectable by features agree on what a rejected operation leaves behind (nothing), the high-water rule, the delete guard, the parent-recomputation shape, the subtree-root formula and (persistent back end) plain delegation to pmtree (shared with C06 R06-2..R06-5) R17-7 (shared, C06 R06-11): the persistent configuration's store adapter drops or alters no record. R17-4 also pins the declaration order of the three arkzkey structs (the derived reader follows it: it is the file layout) and the order of the two reads (proving key, then matrices).",
    "not_decided": "identity of the keys/matrices stored in rln_final.zkey and rln_final.arkzkey and acceptance of messages across "
                   "configurations (needs running both loaders / provers); equality of roots across back ends over histories (C06)",
    "assumptions": ["rustc's type checking; the bundled resource files are the ones include_bytes! embeds (sizes compared)"],
}

EXPECT_ALIAS = {
    "default": ("pm_tree_adapter::PmTree", "pm_tree_adapter::PmTreeProof"),
    "arkzkey": ("pm_tree_adapter::PmTree", "pm_tree_adapter::PmTreeProof"),
    "optimal": ("zerokit_utils::OptimalMerkleTree<hashers::PoseidonHash>", "zerokit_utils::OptimalMerkleProof<hashers::PoseidonHash>"),
    "full": ("zerokit_utils::FullMerkleTree<hashers::PoseidonHash>", "zerokit_utils::FullMerkleProof<hashers::PoseidonHash>"),
}
RES = "rln/resources/tree_height_20"


def const_len(fb, path):
    it = fb.items.get(path)
    if it is None:
        return None, None
    for l in it.locals:
        m = re.match(r"^&(?:'\w+ )?\[u8; (\d+)\]$", l["ty"])
        if m:
            return it, int(m.group(1))
    return it, None


def check_matrix(ctx, cfgs):
    for cfg in cfgs:
        ok, meta = ctx.compiled(cfg)
        errs = re.findall(r"error(?:\[E\d+\])?: [^\n]*", meta.get("log", ""))[:3]
        ctx.check(ok, "R17-1", "compiles[%s]" % cfg, "cargo check %s succeeds" % " ".join(extract.CONFIGS[cfg][0]),
                  "configuration `%s` (cargo check %s) does not compile: %s" % (cfg, " ".join(extract.CONFIGS[cfg][0]), errs))


def check_witnesses(ctx, cfgs):
    for cfg in cfgs:
        r = witness.run(cfg)
        errs = re.findall(r"error(?:\[E\d+\])?: [^\n]*", r["log"])[:3]
        ctx.check(r["ok"], "R17-2", "witness[%s]" % cfg, "tree surface / stateful API / loader signature witnesses type-check (%ss)" % r["wall_s"],
                  "type-level witness does not compile under `%s`: %s" % (cfg, errs))
    for cfg, neg, code in (("default", "neg_hasher", "E0271"), ("stateless", "neg_tree_api", "E0599")):
        if cfg not in cfgs:
            continue
        r = witness.run(cfg, neg)
        ctx.fixture("R17-2:" + neg, (not r["ok"]) and code in r["codes"], "twin `%s` must fail with %s under %s (got ok=%s codes=%s)" % (neg, code, cfg, r["ok"], r["codes"]))


def check_aliases(ctx, cfg, fb):
    want = EXPECT_ALIAS.get(cfg)
    if not want:
        return
    t = fb.aliases.get("rln::poseidon_tree::PoseidonTree")
    p = fb.aliases.get("rln::poseidon_tree::MerkleProof")
    ctx.check((t, p) == want, "R17-2", "aliases[%s]" % cfg, "PoseidonTree = %s, MerkleProof = %s" % want,
              "configuration `%s` selects PoseidonTree = %s, MerkleProof = %s; documented back end: %s / %s" % (cfg, t, p, want[0], want[1]))
    adt = fb.adts.get("rln::public::RLN")
    tf = None
    if adt:
        for f in adt["variants"][0]["fields"]:
            if f["name"] == "tree":
                tf = f["ty"]
    ctx.check(tf == want[0], "R17-2", "RLN.tree[%s]" % cfg, "the instance's tree is the selected back end", "RLN.tree has type %s, alias is %s" % (tf, want[0]))


def single_ret(fb, it, inline=None):
    eng = Engine(fb, inline=inline or (lambda i: False))
    ps = eng.run(it)
    rs = ret_paths(ps)
    if len(ps) != 1 or len(rs) != 1:
        return None
    return eng.value_of(rs[0].store, rs[0].ret)


def check_hashers(ctx, cfg, fb):
    zero = None
    impls = [("utils", r"hashers::PoseidonHash as zerokit_utils::Hasher>::")]
    if cfg in ("default", "arkzkey", "full"):
        impls.append(("pmtree", r"pm_tree_adapter::<impl zerokit_utils::vacp2p_pmtree::Hasher for hashers::PoseidonHash>::"))
    n = 0
    for tag, rx in impls:
        dl = fb.one(rx + "default_leaf$")
        hs = fb.one(rx + "hash$")
        ctx.touch(dl)
        ctx.touch(hs)
        v = single_ret(fb, dl)
        ok = v is not None and v[0] == "call" and re.search(r"Fp<P, N> as std::convert::From<\w+>>::from$", v[1]) and cint(v[2][0]) == 0
        ctx.check(ok, "R17-3", "default_leaf[%s,%s]" % (tag, cfg), "Fr::from(0)", "default leaf of the %s Hasher impl is %s, every other back end uses Fr::from(0)" % (tag, sh(v, 120)), loc(dl))
        h = single_ret(fb, hs, inline=opaque_rx(r"^rln::hashers::poseidon_hash$"))
        ok = h == call("rln::hashers::poseidon_hash", P(1))
        ctx.check(ok, "R17-3", "hash[%s,%s]" % (tag, cfg), "poseidon_hash(inputs)", "hash of the %s Hasher impl is %s, specification poseidon_hash(inputs)" % (tag, sh(h, 160)), loc(hs))
        n += 2
        if tag == "pmtree":
            se = fb.one(rx + "serialize$")
            de = fb.one(rx + "deserialize$")
            ctx.touch(se)
            ctx.touch(de)
            opq = opaque_rx(r"^rln::utils::(fr_to_bytes_le|bytes_le_to_fr)$")
            sv = single_ret(fb, se, inline=opq)
            dv = single_ret(fb, de, inline=opq)
            ctx.check(sv == call("rln::utils::fr_to_bytes_le", P(1)), "R17-3", "serialize[pmtree,%s]" % cfg, "fr_to_bytes_le(value)",
                      "stored node encoding is %s, specification fr_to_bytes_le(value)" % sh(sv, 160), loc(se))
            ctx.check(dv == F(call("rln::utils::bytes_le_to_fr", P(1)), "0"), "R17-3", "deserialize[pmtree,%s]" % cfg, "bytes_le_to_fr(value).0",
                      "stored node decoding is %s, specification bytes_le_to_fr(value).0" % sh(dv, 160), loc(de))
            n += 2
    return n


def check_loader(ctx, cfg, fb):
    ark = cfg == "arkzkey"
    reader = "rln::circuit::read_arkzkey_from_bytes_uncompressed" if ark else "rln::circuit::zkey::read_zkey"
    const = "rln::circuit::ARKZKEY_BYTES" if ark else "rln::circuit::ZKEY_BYTES"
    fname = "rln_final.arkzkey" if ark else "rln_final.zkey"
    init = fb.one(r"circuit::ZKEY as std::ops::Deref>::deref::__static_ref_initialize$", kinds=("Fn",))
    ctx.touch(init)
    v = single_ret(fb, init, inline=opaque_rx(r"^rln::circuit::(zkey::read_zkey|read_arkzkey_from_bytes_uncompressed)$"))
    ok = v is not None and v[0] == "unwrap" and v[1][0] == "call" and v[1][1] == reader and v[1][2][0] == ("item", const)
    ctx.check(ok, "R17-4", "ZKEY initialiser[%s]" % cfg, "%s(%s)" % (reader.split("::")[-1], const.split("::")[-1]),
              "the lazily loaded key is %s; this configuration must load %s with %s" % (sh(v, 200), const, reader), loc(init))
    it = fb.need("rln::circuit::zkey_from_raw")
    ctx.touch(it)
    eng = Engine(fb, inline=opaque_rx(r"^rln::circuit::(zkey::read_zkey|read_arkzkey_from_bytes_uncompressed)$"))
    oks = [eng.value_of(p.store, p.ret) for p in ret_paths(eng.run(it)) if known_ok(eng.value_of(p.store, p.ret)) is not False]
    ok = len(oks) == 1 and oks[0][4][0] == ("unwrap", call(reader, P(1)))
    ctx.check(ok, "R17-4", "zkey_from_raw[%s]" % cfg, "%s(caller's bytes)" % reader.split("::")[-1], "zkey_from_raw returns %s" % [sh(o, 160) for o in oks], loc(it))
    cit, n = const_len(fb, const)
    path = os.path.join(extract.REPO, RES, fname)
    size = os.path.getsize(path) if os.path.exists(path) else None
    ctx.check(n is not None and n == size, "R17-4", "%s size[%s]" % (const.split("::")[-1], cfg), "embeds %s bytes = size of %s" % (n, fname),
              "%s embeds %s bytes but %s/%s has %s bytes: the loader is wired to other bytes" % (const, n, RES, fname, size), loc(cit) if cit else "")
    if ark:
        rd = fb.need(reader)
        ctx.touch(rd)
        e2 = Engine(fb, inline=lambda i: False)
        oks = [e2.value_of(p.store, p.ret) for p in ret_paths(e2.run(rd)) if known_ok(e2.value_of(p.store, p.ret)) is not False]
        ok = False
        why = "expected one success path, found %d" % len(oks)
        if len(oks) == 1:
            tup = oks[0][4][0]
            cm = tup[1][1]
            why = ""
            if not (cm[0] == "adt" and cm[1].endswith("ConstraintMatrices")):
                why = "second component is %s" % sh(cm, 100)
            else:
                src = None
                for name, val in zip(cm[3], cm[4]):
                    base = val
                    if name in ("a", "b", "c"):
                        if not (val[0] == "field" and val[2] == ("f", "data")):
                            why = "matrix %s is %s" % (name, sh(val, 100))
                            break
                        base = val[1]
                    if not (base[0] == "field" and base[2] == ("f", name)):
                        why = "field %s receives %s" % (name, sh(val, 120))
                        break
                    if src is None:
                        src = base[1]
                    elif base[1] != src:
                        why = "field %s is read from another object" % name
                        break
                if not why and len(cm[3]) != 9:
                    why = "ConstraintMatrices has %d fields, nine expected" % len(cm[3])
            ok = not why
        ctx.check(ok, "R17-4", "arkzkey matrices field map", "nine fields copied name-to-name", "arkzkey reader: %s" % why, loc(rd))
        # the derived CanonicalDeserialize reads the fields in declaration order, so the declaration order IS the file layout of
        # rln_final.arkzkey (written by ark-zkey): a reordering compiles, the embedded file no longer parses into the same matrices
        ARK_LAYOUT = {
            "rln::circuit::SerializableConstraintMatrices": ["num_instance_variables", "num_witness_variables", "num_constraints", "a_num_non_zero",
                                                             "b_num_non_zero", "c_num_non_zero", "a", "b", "c"],
            "rln::circuit::SerializableMatrix": ["data"],
            "rln::circuit::SerializableProvingKey": ["0"],
        }
        for path, want in sorted(ARK_LAYOUT.items()):
            adt = fb.adts.get(path)
            names = [fl["name"] for fl in adt["variants"][0]["fields"]] if adt else None
            ctx.check(names == want, "R17-4", "arkzkey layout %s" % path.split("::")[-1], "fields in the file's order %s" % want,
                      "%s declares %s; the derived reader follows the declaration order, the file is laid out as %s" % (path, names, want))
        # and the two objects are read from the one cursor in the file's order: proving key first, then the matrices
        order = "?"
        if len(oks) == 1:
            tup = oks[0][4][0]
            def reads(t):
                return [x for x in subterms(t) if isinstance(x, tuple) and x and x[0] == "call" and re.search(r"CanonicalDeserialize::deserialize_", x[1])]
            pk_r, cm_r = reads(tup[1][0]), reads(tup[1][1])
            first = lambda r: not any(isinstance(y, tuple) and y and y[0] == "upd" for y in subterms(r[2][0]))
            if pk_r and cm_r and all(first(r) for r in pk_r) and not any(first(r) for r in cm_r):
                order = "pk,cm"
            else:
                order = "proving key from %s, matrices from %s" % ([sh(r, 60) for r in pk_r][:1], [sh(r, 60) for r in cm_r][:1])
        ctx.check(order == "pk,cm", "R17-4", "arkzkey read order", "proving key from the first read of the cursor, constraint matrices from the second",
                  "the arkzkey reader takes the %s; the file holds the proving key first and the matrices second" % order, loc(rd))


def run(ctx):
    cfgs = ["default", "optimal", "full", "stateless", "arkzkey"]
    ctx.prefetch(cfgs + ["fixtures"])
    check_matrix(ctx, cfgs)
    check_witnesses(ctx, [c for c in cfgs if ctx.compiled(c)[0]])
    n = 0
    for cfg in cfgs:
        if not ctx.compiled(cfg)[0]:
            continue
        fb = ctx.fb(cfg)
        if cfg != "stateless":
            check_aliases(ctx, cfg, fb)
        if cfg in ("default", "optimal", "full"):
            n += check_hashers(ctx, cfg, fb)
        if cfg in ("default", "arkzkey") or ctx.tier == "thorough":
            check_loader(ctx, cfg, fb)
    ctx.floor("hasher-impl-functions", n, 12)
    # R17-7 (shared with C06 R06-11): the persistent configuration stores what the in-memory ones keep: the key-value adapter drops or alters no record
    from . import c06 as _c06s
    _subs = type(ctx)(ctx.pid, ctx.tier)
    _c06s.check_store_adapter(_subs, ctx.fb("default"))
    for r in _subs.results:
        (ctx.ok if r.status == "ok" else ctx.fail)("R17-7", r.instance, r.reason, r.loc)
    # R17-5 (shared with C06 R06-2/R06-3): the feature-selected tree back ends agree on the bookkeeping formulas and on the node
    # recomputation shape (same high-water rule, delete guard, parent = H(left, right) unconditionally, same default cache)
    from . import c06
    from ..main import Ctx as _Ctx
    sub = _Ctx(ctx.pid, ctx.tier)
    fbd = ctx.fb("default")
    c06.check_atomic(sub, fbd, "default")
    c06.check_formulas(sub, fbd)
    c06.check_recompute(sub, fbd)
    c06.check_complete_writes(sub, fbd)
    c06.check_values(sub, fbd)
    c06.check_delegation(sub, fbd)
    c06.check_subtree_root(sub, fbd)
    for r in sub.results:
        (ctx.ok if r.status == "ok" else ctx.fail)("R17-5", r.instance, r.reason, r.loc)
    # R17-6 (shared with C07 R07-1..R07-3): the feature-selected back ends build membership proofs by one convention (the sibling at
    # every level is the stored node, never a shortcut value; direction bits; root recomputation), so a message produced under one
    # configuration carries the path another configuration's tree would give
    from . import c07
    sub7 = _Ctx(ctx.pid, ctx.tier)
    c07.check_full(sub7, fbd)
    c07.check_optimal(sub7, fbd)
    c07.check_pmtree(sub7, fbd)
    for r in sub7.results:
        (ctx.ok if r.status == "ok" else ctx.fail)("R17-6", r.instance, r.reason, r.loc)
    if ctx.tier == "thorough":
        for cfg in ("cli", "cli_stateless"):
            ok, meta = ctx.compiled(cfg)
            errs = re.findall(r"error(?:\[E\d+\])?: [^\n]*", meta.get("log", ""))[:3]
            ctx.check(ok, "R17-1", "compiles[%s]" % cfg, "rln-cli examples type-check", "rln-cli configuration `%s` does not compile: %s" % (cfg, errs))
