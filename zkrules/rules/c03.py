"""C03 Double-signalling always exposes the identity secret: recovery gate, divisor guard, share/nullifier/recovery formulas."""
import re
from ..symex import Engine, show, subterms, contains
from ..lib import *
from . import c04

INFO = {
    "level": "other",
    "explanation": "Decides (i) the recovery gate and the no-crash clause: in RLN::recover_id_secret every path that writes output is "
                   "conditioned on external_nullifier_1 == external_nullifier_2 (decoded at offset 160 of the respective input), the shares are "
                   "(x,y) decoded at 192/224 of input 1 resp. 2, and the bytes written are fr_to_bytes_le of the recovered value; every field "
                   "division reachable from recovery has its divisor proven non-zero by a dominating test (R03-2, contradiction rule: "
                   "Operation::eval_fr tests is_zero before a / b). (ii) share/nullifier formulas (shared with C04): nullifier = H[H[s,e,m]] "
                   "is independent of x and depends on s, e, m. (iii) compute_id_secret is y1 - x1*((y1-y2)/(x1-x2)) on its unique success path, "
                   "i.e. the inverse of the share line, for all field values. R03-4 (shared with C11): the C entry point recover_id_secret publishes exactly the bytes the method produced on the Ok arm, also when they are empty (no secret). R03-5 (shared with C01 R01-3): the four field elements, the position and the signal of a proving request reach the witness whole, so share and nullifier are those of the requested (s, e, m). R03-6 (shared, C09 R09-4): the hash of the formulas has the Poseidon permutation shape (dense linear layer, no data-dependent skip), without which nullifiers stop depending on every input.",
    "not_decided": "that different (e, m) give different nullifiers (collision resistance of Poseidon)",
    "assumptions": ["arkworks Fp operators are field operations; Fp division panics on a zero divisor (ark-ff 0.5 Div impl unwraps inverse())"],
}


def FRs(fb, INPUT, off):
    return prim(fb, "rln::utils::bytes_le_to_fr", sl(INPUT, off, off + 32))[1][0]


def run(ctx):
    cfgs = ["default"] if ctx.tier == "quick" else ["default", "stateless", "optimal"]
    ctx.prefetch(cfgs + ["fixtures"])
    for cfg in cfgs:
        fb = ctx.fb(cfg)
        check_recover(ctx, fb, cfg)
        check_formula(ctx, fb, cfg, "rln::protocol::compute_id_secret")
        check_divisors(ctx, fb, cfg, "rln::public::RLN::recover_id_secret")
        # (ii) share / nullifier formula
        sub = type(ctx)(ctx.pid, ctx.tier)
        c04.check_pvfw(sub, fb, cfg, "rln::protocol::proof_values_from_witness", "rln::protocol::compute_tree_root")
        for r in sub.results:
            r.rule = "R03-3b"
            ctx.results.append(r)
    # R03-4 (shared with C11): the C entry point of recovery hands the two messages to recover_id_secret and publishes exactly the
    # bytes it produced on the Ok arm - also when they are empty ("no secret"): a buffer left untouched would keep an earlier secret
    from . import c11
    k = 0
    for cfg in cfgs[:1]:
        fb = ctx.fb(cfg)
        for w in c11.wrappers(fb):
            if w["name"] == "recover_id_secret":
                sub = type(ctx)(ctx.pid, ctx.tier)
                c11.check_wrapper(sub, fb, w, cfg)
                k += 1
                for r in sub.results:
                    (ctx.ok if r.status == "ok" else ctx.fail)("R03-4", r.instance, r.reason, r.loc)
    ctx.floor("recovery-ffi-wrapper", k, 1)
    # R03-5 (shared with C01 R01-3): the share and the nullifier are those of the REQUESTED (secret, external nullifier, message id):
    # the four field elements, the position and the signal of a proving request reach the witness whole and unmodified
    from . import c01
    sub = type(ctx)(ctx.pid, ctx.tier)
    c01.check_request(sub, ctx.fb("default"), "default")
    for r in sub.results:
        (ctx.ok if r.status == "ok" else ctx.fail)("R03-5", r.instance, r.reason, r.loc)
    # R03-6 (shared with C09 R09-4): "different (e, m) give different nullifiers, the share lies on the line through (0, s)" holds
    # for the H of the formulas only while H mixes every input lane into every output: the permutation's linear layer is the dense
    # matrix-vector product and no step is skipped on a data-dependent condition
    from . import c09
    sub = type(ctx)(ctx.pid, ctx.tier)
    c09.check_shape(sub, ctx.fb("default"))
    for r in sub.results:
        (ctx.ok if r.status == "ok" else ctx.fail)("R03-6", r.instance, r.reason, r.loc)
    fx = ctx.fb("fixtures")
    from ..main import Ctx
    sub = Ctx(ctx.pid, ctx.tier)
    check_formula(sub, fx, "fixtures", "zkfix::proto::secret_wrong_sign")
    ctx.fixture("R03-3", any(r.status == "fail" for r in sub.results), "zkfix::proto::secret_wrong_sign")
    sub = Ctx(ctx.pid, ctx.tier)
    check_divisors(sub, fx, "fixtures", "zkfix::proto::secret_unguarded_div")
    ctx.fixture("R03-2", any(r.status == "fail" for r in sub.results), "zkfix::proto::secret_unguarded_div")
    sub = Ctx(ctx.pid, ctx.tier)
    check_divisors(sub, fx, "fixtures", "zkfix::proto::secret_guarded_div")
    ctx.fixture("R03-2-neg", not any(r.status == "fail" for r in sub.results), "zkfix::proto::secret_guarded_div (must be silent)")


def check_recover(ctx, fb, cfg):
    fn = "rln::public::RLN::recover_id_secret"
    it = fb.need(fn)
    ctx.touch(it)
    inst = "%s[%s]" % (fn, cfg)
    eng = Engine(fb, inline=opaque_rx(r"^rln::protocol::compute_id_secret$"), max_depth=5)
    paths = eng.run(it)
    writers = 0
    for p in paths:
        apps = [e for e in p.trace if e[0] == "append" and e[1][0] == p.frame and e[1][1] in (4, -4)]
        other_out = [c for c in p.calls() if 3 in c[5] and c[2] and c[2][min(3, len(c[2]) - 1)] == P(4)]
        if not apps:
            continue
        writers += 1
        I1, I2 = find_input(p, 2), find_input(p, 3)
        if I1 is None or I2 is None:
            ctx.fail("R03-1", inst, "writing path does not read both messages", loc(it))
            return
        e1, e2 = FRs(fb, I1, 160), FRs(fb, I2, 160)
        gate = ("eq", *sorted([e1, e2], key=repr))
        cm = cond_map(p)
        if cm.get(("b", gate)) is not True:
            ctx.fail("R03-1", inst, "a path writes the recovered secret without external_nullifier_1 == external_nullifier_2 being established "
                                    "(conditions: %s)" % [(sh(a, 100), v) for a, v in p.conds() if a[0] == "b"], loc(it, apps[0][4]))
            return
        sh1 = ("tuple", (FRs(fb, I1, 192), FRs(fb, I1, 224)))
        sh2 = ("tuple", (FRs(fb, I2, 192), FRs(fb, I2, 224)))
        rec = call("rln::protocol::compute_id_secret", sh1, sh2)
        if cm.get(("ok", rec)) is not True:
            ctx.fail("R03-1", inst, "secret is written on a path where compute_id_secret((x1,y1),(x2,y2)) is not known to be Ok, or shares are not "
                                    "(x,y) of message 1 and message 2: %s" % [sh(c[2], 200) for c in p.calls(r"compute_id_secret")], loc(it))
            return
        # completeness: recovery may be refused only for the reasons of the specification
        def allowed(a, v):
            if a == ("b", gate) or a == ("ok", rec):
                return v is True
            if a[0] == "ok" and a[1][0] == "call" and re.search(r"::read_to_end$", a[1][1]):
                return v is True
            if a[0] == "ok" and a[1][0] == "call" and re.search(r"::write_all$", a[1][1]):
                return True
            return is_len_lower_bound(a, v, (I1, I2), 288)
        extra = [(a, v) for a, v in p.conds() if not allowed(a, v)]
        if extra:
            ctx.fail("R03-1c", inst, "recovery is additionally conditioned on %s: two messages with equal external nullifier and distinct x "
                                     "must always yield the secret" % [(sh(a, 140), v) for a, v in extra], loc(it, apps[0][4]))
            return
        want = prim(fb, "rln::utils::fr_to_bytes_le", ("unwrap", rec))
        if len(apps) != 1 or apps[0][3] != want:
            ctx.fail("R03-1", inst, "bytes written are %s, specification fr_to_bytes_le(recovered secret)" % [sh(a[3], 160) for a in apps], loc(it))
            return
    if writers == 0:
        ctx.fail("R03-1", inst, "no path writes the recovered secret: anchor shape not recognised", loc(it))
        return
    ctx.ok("R03-1", inst, "%d writing path(s), all gated by equality of the external nullifiers at offset 160; shares (x@192,y@224)" % writers, loc(it))


def check_formula(ctx, fb, cfg, fn):
    it = fb.need(fn)
    ctx.touch(it)
    inst = "%s[%s]" % (fn, cfg)
    eng = Engine(fb)
    paths = eng.run(it)
    oks = [p for p in ret_paths(paths) if c04.is_ok_ret(eng, p)]
    if len(oks) != 1:
        ctx.fail("R03-3", inst, "specified as one formula: found %d success paths" % len(oks), loc(it))
        return
    x1, y1, x2, y2 = F(P(1), "0"), F(P(1), "1"), F(P(2), "0"), F(P(2), "1")
    extra = [(a, v) for a, v in oks[0].conds() if not ((a == ("b", ("eq", *sorted([x1, x2], key=repr))) and v is False) or
                                                       (a[0] == "b" and a[1][0] == "call" and a[1][1].endswith("::is_zero")
                                                        and a[1][2] == (("fsub", x1, x2),) and v is False))]
    if extra:
        ctx.fail("R03-3", inst, "success is additionally conditioned on %s: every pair of shares with x1 != x2 must yield a secret" % [
            (sh(a, 120), v) for a, v in extra], loc(it))
        return
    a1 = ("fdiv", ("fsub", y1, y2), ("fsub", x1, x2))
    spec = ("fsub", y1, ("fmul", *sorted([x1, a1], key=repr)))
    rv = eng.value_of(oks[0].store, oks[0].ret)[4][0]
    ctx.check(rv == spec, "R03-3", inst, "a0 = y1 - x1*((y1-y2)/(x1-x2))",
              "recovers %s, specification y1 - x1*((y1-y2)/(x1-x2))" % sh(rv, 200), loc(it))


def check_divisors(ctx, fb, cfg, fn):
    """R03-2: every field division reachable from fn has a dominating proof that the divisor is non-zero"""
    it = fb.need(fn)
    ctx.touch(it)
    inst = "%s[%s]" % (fn, cfg)
    eng = Engine(fb, max_depth=5, inline=lambda i: True if i.path.endswith("compute_id_secret") else None)
    paths = eng.run(it)
    n = 0
    bad = []
    for p in paths:
        seen = []
        for e in p.trace:
            if e[0] == "cond":
                seen.append((e[1], e[2]))
            if e[0] == "oblig" and e[1] == "FieldDiv":
                n += 1
                d = e[2][1]
                if not divisor_nonzero(d, seen):
                    bad.append((e[3], d))
    if n == 0:
        ctx.fail("R03-2", inst, "no field division found on any path: anchor shape not recognised", loc(it))
        return
    if bad:
        site, d = bad[0]
        ctx.fail("R03-2", inst, "field division by %s is not dominated by a test that it is non-zero (identical shares x1 == x2 divide by zero: "
                                "ark-ff's Div unwraps inverse() -> panic)" % sh(d, 120), "%s:%s" % (site[0], site[1]))
        return
    ctx.ok("R03-2", inst, "%d division site(s) guarded" % n, loc(it))


def divisor_nonzero(d, seen):
    for a, v in seen:
        if a[0] != "b":
            continue
        t = a[1]
        # is_zero(d) == false
        if t[0] == "call" and re.search(r"::is_zero$", t[1]) and t[2] == (d,) and v is False:
            return True
        # d = a - b and (a == b) is false
        if d[0] == "fsub" and t[0] == "eq" and set(t[1:]) == {d[1], d[2]} and v is False:
            return True
        if t[0] == "eq" and d in t[1:] and v is False:
            other = t[2] if t[1] == d else t[1]
            if other[0] == "call" and re.search(r"(Zero|zero)", other[1]):
                return True
    return False


def is_len_lower_bound(a, v, inputs, maxk):
    """a guard of the form len(input) < K (K <= maxk) taken on its false side, or len(input) >= K on its true side"""
    if a[0] != "b":
        return False
    t = a[1]
    if t[0] == "bin" and t[1] in ("Lt", "Ge", "Le", "Gt"):
        op, x, y = t[1], t[2], t[3]
    elif t[0] == "cmp":
        op, x, y = {"lt": "Lt", "ge": "Ge", "le": "Le", "gt": "Gt"}[t[1]], t[2], t[3]
    else:
        return False
    lens = [("len", i) for i in inputs]
    if x in lens and cint(y) is not None and cint(y) <= maxk:
        return (op == "Lt" and v is False) or (op == "Ge" and v is True)
    if y in lens and cint(x) is not None and cint(x) <= maxk:
        return (op == "Gt" and v is False) or (op == "Le" and v is True)
    return False
