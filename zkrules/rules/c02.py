"""C02 Verification accepts only untampered messages bound to signal and root (accept-implication)."""
import re
from ..symex import Engine, show, subterms
from ..lib import *
from ..facts import MissingAnchor

INFO = {
    "level": "other",
    "explanation": "Decides the clause 'verification returns true ONLY IF the zk-proof is valid for exactly the carried public values, "
                   "x = H(signal) and the carried root equals the current root / is in the non-empty root set' as a property of the "
                   "boolean structure of RLN::verify, verify_rln_proof and verify_with_roots: every path of the type-checked MIR is "
                   "enumerated symbolically (callees inlined through resolved instances), and on every path that can return Ok(true) the set "
                   "of atoms known true must contain groth, x_bind and root_bind (resp. roots_empty or root_in_set). Each atom is pinned to its "
                   "operands: the Groth16 call receives the instance's own verifying key, the validating deserialize_compressed of input[0..128] "
                   "and the five public values decoded from input[128..288] in circuit order [y, root, nullifier, x, external_nullifier]; "
                   "x_bind hashes exactly input[296..296+signal_len] with signal_len the u64 LE at 288; the root set is built only from roots_data "
                   "in 32-byte strides. Exhaustive over the finite set of paths/atom valuations. R02-4 (shared with C11): the C entry points verify / verify_rln_proof / verify_with_roots pass the same bytes to the same-named method and write the verdict - true and false alike - to the caller's flag exactly on the Ok arm. R02-5 (shared with C06 R06-3/R06-8): every write of the in-memory back ends recomputes all ancestors of what it changed and reports success only after that, so the root verification compares against is the root of the current leaves. R02-5 also includes the delegation rule of the persistent adapter (every write / deletion is handed to pmtree unconditionally), so that the compared root is the root of the current leaves in the default configuration too.",
    "not_decided": "that a tampered proof part fails the pairing check (soundness of Groth16 and of the opaque arkworks callees)",
    "exhaustive": True,
    "assumptions": ["Groth16::verify_proof, deserialize_compressed, Keccak and BigUint conversions mean what their names say"],
}


def prim(fb, name, arg):
    """the value a workspace primitive returns for a symbolic argument (single non-panicking path required)"""
    it = fb.need(name)
    eng = Engine(fb)
    ps = ret_paths(eng.run(it, args=[arg]))
    if len(ps) != 1:
        raise MissingAnchor("%s is specified as straight-line, found %d return paths" % (name, len(ps)))
    return eng.value_of(ps[0].store, ps[0].ret)


def FR(fb, x):
    r = prim(fb, "rln::utils::bytes_le_to_fr", x)
    assert r[0] == "tuple"
    return r[1][0]


def HF(fb, x):
    return prim(fb, "rln::hashers::hash_to_field", x)


def sl(b, lo, hi):
    return ("slice", b, mk_const("usize", lo), mk_const("usize", hi) if hi is not None else None)


def find_input(p, param):
    for c in p.calls(r"::read_to_end$"):
        if c[2][0] == P(param):
            return ("upd", c[1], 1, c[2])
    return None


def conjuncts(t):
    if isinstance(t, tuple) and t and t[0] == "bin" and t[1] == "BitAnd":
        return conjuncts(t[2]) + conjuncts(t[3])
    return [t]


def true_atoms(p, eng):
    """atoms known true on a path that returns Ok(true), or None when the path cannot return Ok(true)"""
    rv = eng.value_of(p.store, p.ret)
    if not (isinstance(rv, tuple) and rv[0] == "adt" and rv[2] == "Ok"):
        return None
    b = rv[4][0]
    atoms = set(a[1] for a, v in p.conds() if a[0] == "b" and v is True)
    neg = set(a[1] for a, v in p.conds() if a[0] == "b" and v is False)
    if is_const(b):
        if b[2] == 0:
            return None
    else:
        for c in conjuncts(b):
            if c in neg:
                return None
            atoms.add(c)
    return atoms


def spec_atoms(fb, INPUT, tree_cfg):
    V = {"root": FR(fb, sl(INPUT, 128, 160)), "external_nullifier": FR(fb, sl(INPUT, 160, 192)),
         "x": FR(fb, sl(INPUT, 192, 224)), "y": FR(fb, sl(INPUT, 224, 256)), "nullifier": FR(fb, sl(INPUT, 256, 288))}
    return V


def check_entry(ctx, fb, cfg, fn, need_root, need_x, roots=False, tag=""):
    it = fb.need(fn)
    ctx.touch(it)
    inst = "%s[%s]%s" % (fn, cfg, tag)
    where = loc(it)
    eng = Engine(fb, inline=opaque_rx(r"ZerokitMerkleTree>::root$"), max_depth=5)
    paths = eng.run(it)
    accepting = 0
    for p in paths:
        if p.kind != "return":
            continue
        atoms = true_atoms(p, eng)
        if atoms is None:
            continue
        accepting += 1
        INPUT = find_input(p, 2)
        if INPUT is None:
            ctx.fail("R02-2", inst, "accepting path does not read the message from input_data", where)
            return
        V = spec_atoms(fb, INPUT, cfg)
        # ---- groth atom
        g = [a for a in atoms if isinstance(a, tuple) and a[0] == "unwrap" and isinstance(a[1], tuple) and a[1][0] == "call"
             and re.search(r"Groth16<E, QAP>>::verify_proof$", a[1][1])]
        if len(g) != 1:
            ctx.fail("R02-1", inst, "a path returning Ok(true) is not conditioned on Groth16 verify_proof == true (atoms: %s)" % [
                sh(a, 70) for a in atoms], loc(it, p.site))
            return
        gargs = g[0][1][2]
        want_key = call("ark_groth16::prepare_verifying_key", F(P(1), "verification_key"))
        want_proof = ("unwrap", call("ark_serialize::CanonicalDeserialize::deserialize_compressed", sl(INPUT, 0, 128)))
        want_pub = ("array", (V["y"], V["root"], V["nullifier"], V["x"], V["external_nullifier"]))
        if gargs[0] != want_key:
            ctx.fail("R02-2", inst, "Groth16 check uses key %s, specification %s" % (sh(gargs[0], 90), sh(want_key, 90)), where)
            return
        if gargs[1] != want_proof:
            ctx.fail("R02-2", inst, "proof operand is %s, specification: validating deserialize_compressed(input[0..128])" % sh(gargs[1], 120), where)
            return
        if gargs[2] != want_pub:
            ctx.fail("R02-3", inst, "public inputs are %s, specification [y, root, nullifier, x, external_nullifier] decoded from input[128..288]" % sh(gargs[2], 300), where)
            return
        # ---- x binding
        if need_x:
            L = ("unwrap", None)
            want_len = None
            sig = None
            xs = [a for a in atoms if isinstance(a, tuple) and a[0] == "eq" and V["x"] in (a[1], a[2])]
            ok = False
            for a in xs:
                other = a[2] if a[1] == V["x"] else a[1]
                # other must be HF(input[296..296+L]) with L = usize(u64_le(input[288..296]))
                for st in subterms(other):
                    if st[0] == "slice" and st[1] == INPUT and st[2] == mk_const("usize", 296):
                        hi = st[3]
                        if isinstance(hi, tuple) and hi[0] == "bin" and hi[1] == "Add" and hi[3] == mk_const("usize", 296):
                            Lt = hi[2]
                            if other == HF(fb, st) and len_is_u64_le(Lt, INPUT):
                                ok = True
            if not ok:
                ctx.fail("R02-1", inst, "a path returning Ok(true) is not conditioned on x == hash_to_field(input[296..296+signal_len]) "
                                        "(equalities on x found: %s)" % [sh(a, 200) for a in xs], loc(it, p.site))
                return
        # ---- root binding
        if need_root:
            rs = [a for a in atoms if isinstance(a, tuple) and a[0] == "eq" and V["root"] in (a[1], a[2])]
            ok = False
            for a in rs:
                other = a[2] if a[1] == V["root"] else a[1]
                if other[0] == "call" and re.search(r"ZerokitMerkleTree>::root$", other[1]) and other[2] == (F(P(1), "tree"),):
                    ok = True
            if not ok:
                ctx.fail("R02-1", inst, "a path returning Ok(true) is not conditioned on tree.root() == carried root (equalities on root: %s)" % [
                    sh(a, 160) for a in rs], loc(it, p.site))
                return
        if roots:
            emp = [a for a in atoms if isinstance(a, tuple) and a[0] == "is_empty"]
            con = [a for a in atoms if isinstance(a, tuple) and a[0] == "call" and re.search(r"<impl \[T\]>::contains$", a[1])]
            ROOTS = find_input(p, 3)
            good = False
            for a in emp:
                if roots_vec_ok(ctx, fb, eng, it, paths, a[1], ROOTS):
                    good = True
            for a in con:
                if a[2][1] == V["root"] and roots_vec_ok(ctx, fb, eng, it, paths, a[2][0], ROOTS):
                    good = True
            # the same membership test written as roots.iter().any(|r| *r == carried root)
            for a in atoms:
                if isinstance(a, tuple) and a[0] == "call" and a[1].endswith("Iterator>::any") and len(a[2]) == 2 and isinstance(a[2][1], tuple) and a[2][1][0] == "closure":
                    seq = a[2][0]
                    while isinstance(seq, tuple) and seq and seq[0] == "call" and re.search(r"::(iter|into_iter)$", seq[1]) and seq[2]:
                        seq = seq[2][0]
                    cl = a[2][1]
                    cit = fb.items.get(cl[1])
                    if cit is None or len(cl[2]) != 1 or cl[2][0] != V["root"]:
                        continue
                    e3 = Engine(fb, inline=lambda i: False)
                    rets = [e3.value_of(q.store, q.ret) for q in e3.run(cit) if q.kind == "return"]
                    cap = F(P(1), "0")
                    if len(rets) == 1 and isinstance(rets[0], tuple) and rets[0][0] == "eq" and {rets[0][1], rets[0][2]} == {P(2), cap} and roots_vec_ok(ctx, fb, eng, it, paths, seq, ROOTS):
                        good = True
            if not good:
                ctx.fail("R02-1", inst, "a path returning Ok(true) is conditioned neither on an empty root set nor on roots.contains(carried root) "
                                        "(atoms: %s)" % [sh(a, 90) for a in atoms if a[0] in ("is_empty", "call")], loc(it, p.site))
                return
    if accepting == 0:
        ctx.fail("R02-1", inst, "no path returns Ok(true): anchor shape not recognised", where)
        return
    ctx.ok("R02", inst, "all %d accepting paths (of %d) imply groth%s%s%s with pinned operands" % (
        accepting, len(paths), " & x_bind" if need_x else "", " & root_bind" if need_root else "",
        " & (roots_empty | root_in_set)" if roots else ""), where)


def len_is_u64_le(Lt, INPUT):
    """Lt == usize::try_from(u64::from_le_bytes(input[288..296].try_into()?))? modulo the opaque conversion names"""
    names = []
    t = Lt
    while isinstance(t, tuple) and t[0] in ("unwrap", "call", "cast"):
        if t[0] == "unwrap":
            t = t[1]
        elif t[0] == "cast":
            t = t[2]
        else:
            names.append(t[1])
            if len(t[2]) != 1:
                return False
            t = t[2][0]
    if t != sl(INPUT, 288, 296):
        return False
    if not any(re.search(r"<impl u64>::from_le_bytes$", n) for n in names):
        return False
    if any(re.search(r"from_be_bytes|from_ne_bytes", n) for n in names):
        return False
    return True


def roots_vec_ok(ctx, fb, eng, it, paths, vec, ROOTS):
    """the root set is a phi of a loop whose only effect on it is push(FR(ROOTS[off..off+32])), off stepping by 32 from 0"""
    if ROOTS is None or not (isinstance(vec, tuple) and vec[0] == "phi"):
        return False
    header = vec[2]
    if vec[4] != ("vecnew",):
        return False
    backs = [p for p in paths if p.kind == "backedge" and p.loop == header]
    if not backs:
        return False
    for b in backs:
        pushes = [e for e in b.trace if e[0] == "push"]
        # locate the offset phi
        if len(pushes) != 1:
            return False
        x = pushes[0][3]
        offs = [s for s in subterms(x) if s[0] == "phi" and s[2] == header and s != vec]
        if len(set(offs)) != 1:
            return False
        off = offs[0]
        if off[4] != mk_const("usize", 0) and off[4] != mk_const("i32", 0):
            return False
        want = FR(fb, ("slice", ROOTS, off, None))
        want2 = FR(fb, ("slice", ROOTS, off, ("bin", "Add", off, mk_const("usize", 32))))
        if x not in (want, want2):
            return False
        # the carried offset advances by 32
        fin = None
        for (cell, v) in b.store.items():
            pass
        name = off[3]
        idx = [i for i, l in enumerate(it.locals) if l["name"] == name]
        if not idx:
            return False
        newv = b.store.get((b.frame, idx[0]))
        if newv != ("bin", "Add", off, mk_const("usize", 32)):
            return False
    return True


def run(ctx):
    cfgs = ["default", "stateless"] if ctx.tier == "quick" else ["default", "stateless", "optimal", "arkzkey"]
    ctx.prefetch(cfgs + ["fixtures"])
    n = 0
    for cfg in cfgs:
        fb = ctx.fb(cfg)
        check_entry(ctx, fb, cfg, "rln::public::RLN::verify", False, False)
        check_entry(ctx, fb, cfg, "rln::public::RLN::verify_with_roots", False, True, roots=True)
        n += 2
        if cfg != "stateless":
            check_entry(ctx, fb, cfg, "rln::public::RLN::verify_rln_proof", True, True)
            n += 1
    ctx.floor("verification-entry-points", n, 5)
    # R02-4 (shared with C11 R11-1..R11-3): the C entry points of verification hand the same bytes to the same-named method and write
    # the verdict - true *and* false - to the caller's flag exactly on the Ok arm (a flag left untouched on `Ok(false)` would keep a
    # previous `true`)
    from . import c11
    from ..main import Ctx as _Ctx
    k = 0
    for cfg in cfgs[:2]:
        fb = ctx.fb(cfg)
        for w in c11.wrappers(fb):
            if w["name"] in ("verify", "verify_rln_proof", "verify_with_roots"):
                sub = _Ctx(ctx.pid, ctx.tier)
                c11.check_wrapper(sub, fb, w, cfg)
                k += 1
                for r in sub.results:
                    (ctx.ok if r.status == "ok" else ctx.fail)("R02-4", r.instance, r.reason, r.loc)
    ctx.floor("verification-ffi-wrappers", k, 5)
    # R02-5 (shared with C06 R06-3 / R06-8): "the verifier's current tree root" is the root of its current leaves only if every write
    # recomputes all ancestors of what it changed and reports success only after having done so (in-memory back ends; the persistent
    # adapter delegates to pmtree)
    from . import c06
    sub = _Ctx(ctx.pid, ctx.tier)
    fbd = ctx.fb("default")
    c06.check_recompute(sub, fbd)
    c06.check_complete_writes(sub, fbd, flags=False)
    c06.check_delegation(sub, fbd)        # ... and the persistent adapter hands every write / deletion to pmtree, unconditionally
    for r in sub.results:
        (ctx.ok if r.status == "ok" else ctx.fail)("R02-5", r.instance, r.reason, r.loc)
