"""C11 The C FFI is behaviourally identical to the Rust API: every wrapper is a pure pass-through."""
import re
from ..symex import Engine, show
from ..lib import *

INFO = {
    "level": "proof",
    "explanation": "Closed rule set over every extern \"C\" #[no_mangle] function of rln::ffi (enumerated from the type-checked "
                   "program, per feature configuration): each wrapper's MIR is evaluated symbolically on all paths (ProcessArg::process "
                   "impls and Buffer conversions inlined through their resolved instances) and compared with the pass-through "
                   "specification: R11-1 one call into rln::public, the method of the same name; R11-2 arguments routed in declaration "
                   "order, ctx->self, output = &mut of a fresh Vec; R11-3 returns true exactly on the callee's Ok arm, *bool/*output written "
                   "only on that arm with the Ok payload / (ptr,len) of the very Vec passed, Vec forgotten on both arms; R11-4 "
                   "seq_atomic_operation's index is RLN::leaves_set(ctx); R11-5 constructors store Box::into_raw(Box::new(ok)) only on Ok, "
                   "Buffer->slice is from_raw_parts(ptr,len). Equality of behaviour with the Rust API then holds by construction. R11-6: no wrapper can panic in its own code (macro expansions and closures included): every bounds / unwrap / arithmetic obligation follows from the path's conditions, with the rln::public method opaque - a panic inside extern \"C\" aborts the process where the Rust API returns Err.",
    "not_decided": "tree-state atomicity of failed calls is delegated to C06/C08; unsafe pointer validity is the FFI contract",
    "trusted_base": ["rustc nightly type checking, trait resolution, MIR construction",
                     "unsafe primitives &*ptr, slice::from_raw_parts, Box::into_raw accepted as the FFI contract",
                     "symbolic evaluator zkrules/symex.py"],
    "assumptions": ["callers pass valid pointers (FFI contract)"],
    "exhaustive": True,
}

EXC_CALLEE = {"seq_atomic_operation": "atomic_operation"}  # frozen exception: sequential batch = atomic_operation at leaves_set()
FREE = {"hash": "rln::public::hash", "poseidon_hash": "rln::public::poseidon_hash"}
FLOOR = {"default": 30, "stateless": 13, "optimal": 30}


def BUF(i):
    return call("std::slice::from_raw_parts", F(P(i), "ptr"), F(P(i), "len"))


def wrappers(fb):
    return [it for it in fb.find(r"^rln::ffi::[a-z_]+$") if str(it.get("abi", "")).startswith("C") and it.get("no_mangle")]


def check_wrapper(ctx, fb, w, cfg, tag=""):
    name = w["name"]
    inst = "%s[%s]%s" % (w.path, cfg, tag)
    ctx.touch(w)
    eng = Engine(fb, inline=inline_only(r"ffi::"), max_depth=4)
    paths = eng.run(w)
    rets = ret_paths(paths)
    where = loc(w)
    if len(rets) != len(paths):
        ctx.fail("R11-3", inst, "wrapper has a diverging (panicking) path of its own", where)
        return
    tys = [l["ty"] for l in w.locals[1:w.arg_count + 1]]
    kinds = []
    for t in tys:
        if re.match(r"\*(mut|const) (rln::)?public::RLN$", t):
            kinds.append("ctx")
        elif re.match(r"\*const (rln::)?ffi::Buffer$", t):
            kinds.append("in")
        elif re.match(r"\*mut (rln::)?ffi::Buffer$", t):
            kinds.append("out")
        elif t == "*mut bool":
            kinds.append("bool")
        elif re.match(r"\*mut \*mut (rln::)?public::RLN$", t):
            kinds.append("ctxout")
        elif t == "usize":
            kinds.append("usize")
        else:
            kinds.append("?" + t)
    if any(k.startswith("?") for k in kinds):
        ctx.fail("R11-2", inst, "unrecognised parameter type %s" % kinds, where)
        return
    meth = EXC_CALLEE.get(name, name)
    target = FREE.get(name, "rln::public::RLN::" + meth)
    # expected argument list
    exp = []
    for i, k in enumerate(kinds, 1):
        if k == "ctx":
            exp.append(P(i))
        elif k == "in":
            exp.append(BUF(i))
        elif k == "usize":
            exp.append(P(i))
    okc = True
    for p in rets:
        pub = [c for c in p.calls() if c[1].startswith("rln::public::")]
        main = [c for c in pub if c[1] == target]
        others = [c for c in pub if c[1] != target]
        if name == "leaves_set":
            break
        if len(main) != 1:
            ctx.fail("R11-1", inst, "expected exactly one call to %s, found %s" % (target, [c[1] for c in pub]), where)
            return
        allowed_other = ["rln::public::RLN::leaves_set"] if name == "seq_atomic_operation" else []
        if [c[1] for c in others] != allowed_other:
            ctx.fail("R11-1", inst, "unexpected additional calls into rln::public: %s" % [c[1] for c in others], where)
            return
        c = main[0]
        argv = list(c[2])
        e = list(exp)
        if name == "seq_atomic_operation":
            ls = call("rln::public::RLN::leaves_set", P(1))
            e = [("upd", "rln::public::RLN::leaves_set", 0, (P(1),)), ls, BUF(2), BUF(3)]
            if argv[:1] == [P(1)]:
                e[0] = P(1)
        if "out" in kinds:
            e = e + [("vecnew",)]
        if argv != e:
            ctx.fail("R11-2" if name != "seq_atomic_operation" else "R11-4", inst,
                     "arguments reach %s as (%s), specification (%s)" % (
                         meth, ", ".join(sh(a, 60) for a in argv), ", ".join(sh(a, 60) for a in e)), loc(w, c[3]))
            return
        res = call(c[1], *c[2])
        cm = cond_map(p)
        okv = cm.get(("ok", res))
        ws = writes(p)
        rv = eng.value_of(p.store, p.ret)
        if okv is None:
            ctx.fail("R11-3", inst, "a return path does not branch on the callee's result", where)
            return
        if okv is False:
            if rv != mk_const("bool", 0) or ws:
                ctx.fail("R11-3", inst, "Err arm must return false and write nothing; returns %s, writes %d" % (sh(rv), len(ws)), where)
                return
        else:
            if rv != mk_const("bool", 1):
                ctx.fail("R11-3", inst, "Ok arm must return true; returns %s" % sh(rv), where)
                return
            if "out" in kinds:
                k = kinds.index("out") + 1
                vec_after = ("upd", c[1], len(argv) - 1, c[2])
                good = False
                if len(ws) == 1 and ws[0][1][1] == -k and ws[0][2] == ():
                    v = ws[0][3]
                    if isinstance(v, tuple) and v[0] == "adt" and v[1].endswith("ffi::Buffer") and v[3] == ("ptr", "len"):
                        ptr, ln = v[4]
                        pv = eng.value_of(p.store, ptr)
                        if pv == vec_after and ln == ("len", vec_after):
                            good = True
                if not good:
                    ctx.fail("R11-3", inst, "Ok arm must write *output = Buffer{ptr,len} of the Vec passed to the callee; writes: %s" % [
                        (x[1][1], sh(x[3], 120)) for x in ws], where)
                    return
            elif "bool" in kinds:
                k = kinds.index("bool") + 1
                bv = cm.get(("b", ("unwrap", res)))
                payload_ok = len(ws) == 1 and ws[0][1][1] == -k and (
                    (bv is not None and ws[0][3] == mk_const("bool", 1 if bv else 0)) or ws[0][3] == ("unwrap", res))
                if not payload_ok:
                    ctx.fail("R11-3", inst, "Ok arm must write the Ok payload to *bool_ptr; payload=%s writes=%s" % (
                        bv, [(x[1][1], sh(x[3], 60)) for x in ws]), where)
                    return
            elif "ctxout" in kinds:
                k = kinds.index("ctxout") + 1
                want = call("std::boxed::Box::<T>::into_raw", ("unwrap", res))
                if not (len(ws) == 1 and ws[0][1][1] == -k and ws[0][3] == want):
                    ctx.fail("R11-5", inst, "constructor must store Box::into_raw(Box::new(ok value)); writes=%s" % [
                        (x[1][1], sh(x[3], 100)) for x in ws], where)
                    return
            else:
                if ws:
                    ctx.fail("R11-3", inst, "plain wrapper writes through a pointer parameter", where)
                    return
        if "out" in kinds:
            vec_after = ("upd", c[1], len(argv) - 1, c[2])
            fg = [x for x in p.calls(r"^std::mem::forget$")]
            if [x[2] for x in fg] != [(vec_after,)]:
                ctx.fail("R11-3", inst, "output Vec must be forgotten exactly once on every arm (after the call)", where)
                return
    if name == "leaves_set":
        good = len(rets) == 1 and eng.value_of(rets[0].store, rets[0].ret) == call("rln::public::RLN::leaves_set", P(1))
        ctx.check(good, "R11-1", inst, "returns RLN::leaves_set(ctx)", "leaves_set wrapper does not return RLN::leaves_set(ctx)", where)
        return
    # arms present
    arms = set()
    for p in rets:
        for (a, v) in p.conds():
            if a[0] == "ok" and a[1][0] == "call" and a[1][1] == target:
                arms.add(v)
    if arms != {True, False}:
        ctx.fail("R11-3", inst, "wrapper lacks an Ok or an Err arm", where)
        return
    ctx.ok("R11", inst, "pass-through: %s(%s) -> %s; result mapping and output discipline as specified" % (
        meth, ",".join(kinds), "bool"), where)


def check_wrapper_panics(ctx, fb, w, cfg, rule="R11-6"):
    """R11-6: the wrapper's own code (macro expansion included) cannot panic: a panic inside an `extern "C"` function aborts the
    process, where the Rust API returns Err. Every bounds / unwrap / expect / arithmetic obligation on every path of the wrapper,
    with the rln::public method opaque, must be discharged by the path's own conditions. (The pointer dereferences are the FFI
    contract and generate no obligation.)"""
    from .. import panics
    eng = Engine(fb, inline=inline_only(r"ffi::"), max_depth=4)
    paths = eng.run(w)
    tot, done, und = panics.analyse(paths)
    # `&v[..]` (RangeFull) cannot fail: its obligation carries no bound
    und = [u for u in und if not (u["kind"] == "SliceIndex" and len(u["ops"]) == 3 and u["ops"][1] is None and u["ops"][2] is None)]
    # closures of the wrapper (iterator adaptors in a macro body) run inside the extern function as well
    for c in fb.closures_of(w.path):
        t2, d2, u2 = panics.analyse(Engine(fb, inline=inline_only(r"ffi::"), max_depth=4).run(c))
        tot += t2
        und += u2
    inst = "%s[%s] no panic" % (w.path, cfg)
    if und:
        u = und[0]
        ctx.fail(rule, inst, "the wrapper can panic inside the extern \"C\" function (process abort instead of `false`): %s obligation `%s` is not "
                 "implied by the path's conditions" % (u["kind"], u["text"][:160]), loc(w, u["site"]))
    else:
        ctx.ok(rule, inst, "%d panic obligation(s) in the wrapper's own code, all discharged" % tot, loc(w))


def run(ctx):
    cfgs = ["default", "stateless"] if ctx.tier == "quick" else ["default", "stateless", "optimal", "arkzkey"]
    ctx.prefetch(cfgs + ["fixtures"])
    for cfg in cfgs:
        fb = ctx.fb(cfg)
        ws = wrappers(fb)
        ctx.floor("ffi-wrappers[%s]" % cfg, len(ws), FLOOR.get(cfg, 30))
        for w in ws:
            check_wrapper(ctx, fb, w, cfg)
            check_wrapper_panics(ctx, fb, w, cfg)
    # fixtures: every rule must fire on its look-alike
    fx = ctx.fb("fixtures")
    from ..main import Ctx
    for fn, rule in [("swapped_args", "R11-2"), ("true_on_error", "R11-3"), ("output_on_error", "R11-3"),
                     ("len_from_capacity", "R11-3"), ("seq_from_zero", "R11-4")]:
        sub = Ctx(ctx.pid, ctx.tier)
        its = fx.find(r"^zkfix::ffi::%s$" % fn)
        if its:
            check_wrapper_fixture(sub, fx, its[0], fn)
        fired = any(r.status == "fail" for r in sub.results)
        ctx.fixture(rule, fired, "zkfix::ffi::" + fn)
    sub = Ctx(ctx.pid, ctx.tier)
    its = fx.find(r"^zkfix::ffi::err_arm_indexes$")
    if its:
        check_wrapper_panics(sub, fx, its[0], "fixtures")
    ctx.fixture("R11-6", any(r.status == "fail" for r in sub.results), "zkfix::ffi::err_arm_indexes (an unguarded index in the error arm must be seen)")
    sub = Ctx(ctx.pid, ctx.tier)
    its = fx.find(r"^zkfix::ffi::true_on_error$")
    if its:
        check_wrapper_panics(sub, fx, its[0], "fixtures")
    ctx.fixture("R11-6-neg", bool(its) and not any(r.status == "fail" for r in sub.results), "zkfix::ffi::true_on_error has no panic site (must be silent for R11-6)")


def check_wrapper_fixture(sub, fx, w, fn):
    """the fixtures mimic rln::ffi with the same shapes under zkfix::ffi / zkfix::public"""
    global FREE
    import zkrules.rules.c11 as me
    saved = (me.FREE, me.EXC_CALLEE)
    # remap names: fixtures call zkfix::public::RLN::<target>
    tgt = {"swapped_args": "atomic_operation", "true_on_error": "set_leaf", "output_on_error": "get_leaf",
           "len_from_capacity": "get_leaf", "seq_from_zero": "atomic_operation"}[fn]
    me.EXC_CALLEE = dict(saved[1])
    me.EXC_CALLEE[fn] = tgt
    try:
        _fixture_wrapper(sub, fx, w, fn, tgt)
    finally:
        me.FREE, me.EXC_CALLEE = saved


def _fixture_wrapper(sub, fx, w, fn, tgt):
    # run the same checker with zkfix paths by rewriting the item path prefix expectations
    import zkrules.rules.c11 as me
    src = FixtureView(fx)
    w2 = src.items[w.path.replace("zkfix::", "rln::")]
    w2.d = dict(w2.d)
    w2.d["name"] = "seq_atomic_operation" if fn == "seq_from_zero" else tgt
    if fn == "seq_from_zero":
        me.EXC_CALLEE["seq_atomic_operation"] = "atomic_operation"
    me.check_wrapper(sub, src, w2, "fixtures", tag=":" + fn)


class FixtureView:
    """presents the zkfix facts under rln:: names so the production rule code runs unchanged on them"""

    def __init__(self, fx):
        import json
        from ..facts import Item
        self.cfg = "fixtures"
        self.adts = {k.replace("zkfix::", "rln::"): v for k, v in fx.adts.items()}
        self.aliases = fx.aliases
        self.crates = fx.crates
        self.items = {}
        for p, it in fx.items.items():
            d = json.loads(json.dumps(it.d).replace("zkfix::", "rln::"))
            ni = Item(d, "rln", "fixtures")
            self.items[ni.path] = ni
        self._canon = None

    def lookup(self, name):
        from ..facts import FactBase
        return FactBase.lookup(self, name)

    def find(self, regex, kinds=("Fn", "AssocFn")):
        r = re.compile(regex)
        return [it for p, it in sorted(self.items.items()) if r.search(p) and (kinds is None or it.kind in kinds)]
