"""C16 Acknowledged tree updates survive reopen; storage failures are reported: error discipline of the storage path,
flush reachability, configuration table, load-or-create shape."""
import re
from ..symex import Engine, show, subterms, contains, known_ok, TooComplex
from ..lib import *
from ..facts import MissingAnchor

INFO = {
    "level": "other",
    "explanation": "Decides the clause 'if a storage write or flush fails the operation reports an error rather than success' as error "
                   "discipline on every path of every function of the storage path (utils::pm_tree::sled_adapter, rln::pm_tree_adapter, "
                   "rln::public): R16-1 every call whose result type is a Result is, on every path, either tested (`?`, match, map_err+`?`), "
                   "returned, or unwrapped - never discarded (`let _ =`, unused) or swallowed (.ok(), unwrap_or*, is_ok without use); and on "
                   "every path where such a call failed the function returns Err (or delegates to another fallible call, or diverges) - "
                   "never Ok. R16-2 RLN::flush reaches sled::Db::flush through the resolved call graph (close_db_connection -> "
                   "SledDB::close -> flush), and set_metadata writes the store before the in-memory copy. R16-3 PmtreeConfig::from_str: "
                   "each JSON key literal reaches the sled::Config builder method of the same name (path, temporary, cache_capacity, "
                   "flush_every_ms, mode, use_compression), the mode strings map to the same-named variants, and Default sets all six; the guard that refuses an existing location for a temporary (delete-on-drop) database tests the effective value handed to the builder, not the raw option. "
                   "R16-4 PmTree::new = load(config), and new(depth, same config) only when load reported DatabaseError(CannotLoadDatabase) - every other "
                   "load failure is returned; SledDB::load returns Ok only for a recovered location and that error value only for an unrecovered one; "
                   "no open failure is that value; load and new open through the same retrying routine. R16-5 a method that replaces the instance's tree builds the new one from the instance's storage configuration (not ZerokitMerkleTree::default). R16-6 (shared, C06 R06-11): put / put_batch hand every record to sled and report Ok only when sled did. R16-7 (shared, C11): the ten storage wrappers of the C API return true exactly on Ok and false on Err. R16-8: the caller's storage configuration reaches the tree in both constructors (RLN::new reads the documented key tree_config of its JSON, new_with_params the whole reader; Config::default() only for an empty text).",
    "not_decided": "what is on disk after a crash or an injected failure at write k, and equality of root/leaves/metadata after reopen "
                   "(behaviour of sled and pmtree over histories and fault positions: dynamic; the property's suggested fault hook is not used)",
    "assumptions": ["sled::Db::flush/insert/apply_batch return Err when the write fails", "pmtree propagates the Database errors it receives"],
}

FILES = ("utils/src/pm_tree/sled_adapter.rs", "rln/src/pm_tree_adapter.rs", "rln/src/public.rs")
SWALLOW_RX = re.compile(r"std::result::Result::<T, E>::(ok|unwrap_or|unwrap_or_default|unwrap_or_else|is_ok|is_err|err)$")
# (function, callee regex) -> reason: failures that are legitimately turned into another attempt
EXCEPTIONS = {
    ("rln::<pm_tree_adapter::PmTree as zerokit_utils::ZerokitMerkleTree>::new", r"MerkleTree::<D, H>::load$"):
        "load-or-create: a location where nothing is stored is created afresh; the creation's own failure is propagated (R16-4 pins the arm to the 'nothing stored' error)",
}


def exception_site(fb, f, it):
    """the exception for function `f` also covers a private helper that did not exist when the table was frozen and that only `f`
    calls (the code was moved out of `f` by an `extract function` refactor); R16-4 still pins what the arm may do"""
    if it.path == f:
        return True
    from ..symex import known_functions
    if it.path.split("@")[0] in known_functions() or it.kind not in ("Fn", "AssocFn"):
        return False
    callers = set()
    for p2, it2 in fb.items.items():
        if it2.kind not in ("Fn", "AssocFn", "Closure") or p2 == it.path:
            continue
        for b in it2.blocks:
            t = b["term"]
            if t["k"] == "call" and (t.get("resolved") or t.get("callee") or "") == it.path:
                callers.add(p2.split("::{closure")[0])
    return bool(callers) and callers <= {f}


def is_result_ty(ty):
    return ty.startswith("std::result::Result<") or ty.startswith("core::result::Result<")


def fallible_calls(item):
    """{callee name (as the evaluator prints it): [line,..]} for call terminators whose destination is a Result"""
    from ..symex import callee_name
    out = {}
    for b in item.blocks:
        if b["cleanup"]:
            continue
        t = b["term"]
        if t["k"] != "call":
            continue
        d = t["dest"]
        if d["proj"]:
            continue
        ty = item.locals[d["l"]]["ty"]
        if is_result_ty(ty):
            n = callee_name(t)
            if re.search(r"Try>::branch$|FromResidual|::map_err$|Result::<T, E>::(ok|unwrap|expect|unwrap_or\w*|is_ok|is_err|map|and_then)$", n):
                continue
            out.setdefault(n, []).append(t["sp"][0])
    return out


def contains_unswallowed(x, term):
    stack = [x]
    seen = set()
    while stack:
        t = stack.pop()
        if not isinstance(t, tuple) or t in seen:
            continue
        seen.add(t)
        if t == term:
            return True
        if t and t[0] == "call" and isinstance(t[1], str) and SWALLOW_RX.search(t[1]):
            continue
        for y in t:
            if isinstance(y, tuple):
                stack.append(y)
    return False


def result_of(x, t):
    """x denotes the Result produced by call t itself (possibly through map_err)"""
    while isinstance(x, tuple) and x and x[0] == "map_err":
        x = x[1]
    return x == t


def failure_value(rv, fall_terms):
    if not isinstance(rv, tuple) or not rv:
        return False
    if known_ok(rv) is False:
        return True
    if rv[0] == "const" and rv[1] == "bool" and rv[2] == 0:
        return True
    if rv[0] in ("call", "map_err") and any(contains(rv, t) for t in fall_terms):
        return True          # delegated to another fallible call whose result is returned
    if rv[0] == "adt" and rv[2] == "None":
        return True
    return False


def check_fn(ctx, fb, it, stats):
    fall = fallible_calls(it)
    if not fall:
        return
    eng = Engine(fb, inline=lambda i: False, max_paths=4000)
    try:
        paths = eng.run(it)
    except TooComplex as e:
        ctx.fail("R16-1", it.path, "too many paths to analyse (%s): error discipline not decided" % e, loc(it))
        return
    ctx.touch(it)
    dropped = {}
    swallowed = {}
    seen_names = set()
    for p in paths:
        rv = eng.value_of(p.store, p.ret) if p.kind == "return" else None
        terms = [("call", c[1], c[2]) for c in p.calls() if c[1] in fall]
        tested = [a[1] for a, v in p.conds() if a[0] == "ok"]
        unwrapped = [e[2][0] for e in p.obligations() if e[1] == "Unwrap"]
        for i, t in enumerate(terms):
            seen_names.add(t[1])
            ok = any(contains_unswallowed(x, t) for x in tested) or any(contains_unswallowed(x, t) for x in unwrapped) or \
                (rv is not None and contains_unswallowed(rv, t))
            # a call later on the path whose argument is this result (e.g. a helper taking the Result) counts as use
            if not ok:
                later = [c for c in p.calls() if any(contains_unswallowed(a, t) for a in c[2]) and not SWALLOW_RX.search(c[1])]
                ok = bool(later) and False
            if not ok:
                if p.kind in ("backedge",) and i == len(terms) - 1 and False:
                    continue
                sw = any(s[0] == "call" and isinstance(s[1], str) and SWALLOW_RX.search(s[1]) and contains(s, t) for x in tested + ([rv] if rv else []) for s in subterms(x))
                site = [c[3] for c in p.calls() if ("call", c[1], c[2]) == t][0]
                (swallowed if sw else dropped).setdefault((t[1], site[1]), site)
        # failure must not become success
        for a, v in p.conds():
            if a[0] != "ok" or v is not False:
                continue
            culprit = [t for t in terms if result_of(a[1], t)]
            if not culprit:
                continue
            if p.kind in ("diverge", "backedge"):
                continue
            if p.kind == "return" and failure_value(rv, terms):
                continue
            exc = [r for (f, rx), r in EXCEPTIONS.items() if exception_site(fb, f, it) and re.search(rx, culprit[0][1])]
            key = "%s|%s fails" % (it.path, re.sub(r"@.*", "", culprit[0][1])[-60:])
            if exc:
                if p.kind == "return" and any(contains(rv, t) for t in terms if t != culprit[0]):
                    stats["exceptions"].append((key, exc[0]))
                    continue
            ctx.fail("R16-1", key, "on a path where %s returned Err the function returns %s: a storage failure is reported as success" % (
                culprit[0][1][-80:], sh(rv, 120)), loc(it, p.site))
    for (name, line), site in sorted(dropped.items()):
        ctx.fail("R16-1", "%s|%s dropped" % (it.path, re.sub(r"@.*", "", name)[-60:]), "the Result of %s is discarded on some path (neither tested, returned nor unwrapped): "
                 "a failure of this call goes unreported" % name[-90:], loc(it, site))
    for (name, line), site in sorted(swallowed.items()):
        ctx.fail("R16-1", "%s|%s swallowed" % (it.path, re.sub(r"@.*", "", name)[-60:]), "the Result of %s is converted with ok()/unwrap_or*/is_ok and its error is lost" % name[-90:], loc(it, site))
    n = sum(len(v) for v in fall.values())
    stats["sites"] += n
    stats["fns"] += 1
    if not any(k[0] in fall for k in list(dropped) + list(swallowed)):
        stats["by_file"][it.file] = stats["by_file"].get(it.file, 0) + n


def check_flush(ctx, fb):
    seen, ext, statics = reach(fb, ["rln::public::RLN::flush"])
    ok = any(re.search(r"^sled::Db::flush$|sled::db::Db::flush$|sled::Tree::flush$", n) for n in ext)
    ctx.check(ok, "R16-2", "RLN::flush reaches sled flush", "call graph: %s" % " -> ".join(sorted(s.split("::")[-1] for s in seen)),
              "RLN::flush no longer reaches sled::Db::flush (reachable workspace fns: %s; external: %s)" % (sorted(seen), sorted(ext)[:8]))
    need = ["close_db_connection", "Database>::close"]
    for nd in need:
        ctx.check(any(nd in s for s in seen), "R16-2", "flush path via %s" % nd, "on the path", "%s is not on RLN::flush's call path: %s" % (nd, sorted(seen)))
    # must-pass-through: an acknowledged flush has gone through the store's flush on every success path
    chain = [(r"^rln::public::RLN::flush$", r"ZerokitMerkleTree>::close_db_connection$"),
             (r"PmTree as zerokit_utils::ZerokitMerkleTree>::close_db_connection$", r"Database>?::close$"),
             (r"SledDB as (vacp2p_)?pmtree::Database>::close$", r"sled::Db::flush$|sled::db::Db::flush$|sled::Tree::flush$")]
    for frx, crx in chain:
        f = fb.one(frx)
        ctx.touch(f)
        e0 = Engine(fb, inline=lambda i: False)
        bad = None
        n_ok = 0
        for p in e0.run(f):
            if p.kind != "return":
                continue
            rv = e0.value_of(p.store, p.ret)
            cs = p.calls(crx)
            if known_ok(rv) is True:
                n_ok += 1
                if not cs or not any(cond_map(p).get(("ok", ("call", c[1], c[2]))) is True or any(a[0] == "ok" and contains(a[1], ("call", c[1], c[2])) and v is True for a, v in p.conds()) for c in cs):
                    bad = p
            elif known_ok(rv) is None and not (isinstance(rv, tuple) and rv[0] in ("call", "map_err") and cs and contains(rv, ("call", cs[0][1], cs[0][2]))):
                bad = p
        ctx.check(bad is None, "R16-2", "flush must pass through: %s" % f.path.split("::")[-1].join(["", ""]) if False else "flush passes through %s" % crx.split("$")[0][-28:] + " in " + f.path[-48:],
                  "every success path calls it and requires its success", "%s can report success without %s having been called successfully (a path returns Ok before the store is flushed)" % (
                      f.path, crx), loc(f, bad.site) if bad else loc(f))
    # set_metadata: store first, then memory
    it = fb.one(r"PmTree as zerokit_utils::ZerokitMerkleTree>::set_metadata$")
    ctx.touch(it)
    eng = Engine(fb, inline=lambda i: False)
    good = 0
    why = ""
    for p in eng.run(it):
        if p.kind != "return":
            continue
        rv = eng.value_of(p.store, p.ret)
        puts = p.calls(r"Database>::put$")
        mem = [e for e in p.trace if e[0] == "write" and e[1][1] == -1 and e[2] and e[2][-1] == ("f", "metadata")]
        if known_ok(rv) is not False:
            if len(puts) == 1 and mem and cond_map(p).get(("ok", ("call", puts[0][1], puts[0][2]))) is True:
                good += 1
            else:
                why = "an Ok path does not write the store successfully before updating the in-memory metadata"
        else:
            if mem:
                why = "in-memory metadata updated on a failing path"
    ctx.check(good >= 1 and not why, "R16-2", "set_metadata order", "db.put(METADATA_KEY, ..)? precedes the in-memory update; Err leaves memory unchanged", why or "no Ok path", loc(it))


KEYS = ["temporary", "path", "cache_capacity", "flush_every_ms", "mode", "use_compression"]


def peel(t):
    """builder chain -> [(method, arg)] innermost first"""
    out = []
    while isinstance(t, tuple) and t and t[0] == "call" and re.search(r"(^|::)Config::\w+$", t[1]):
        m = t[1].split("::")[-1]
        if m == "new":
            break
        out.append((m, t[2][1] if len(t[2]) > 1 else None))
        t = t[2][0]
    return list(reversed(out)), t


def json_keys(t):
    ks = set()
    for s in subterms(t):
        if (s[0] == "call" and re.search(r"Index<I>.*>::index$", s[1])) or (s[0] in ("idx", "mapidx")):
            for x in (s[2] if s[0] == "call" else s[1:]):
                if isinstance(x, tuple) and x and x[0] == "str":
                    ks.add(x[1])
    return ks


def check_config(ctx, fb):
    it = fb.one(r"PmtreeConfig as std::str::FromStr>::from_str$")
    ctx.touch(it)
    eng = Engine(fb, inline=lambda i: False)
    paths = eng.run(it)
    oks = []
    for p in paths:
        if p.kind == "return":
            rv = eng.value_of(p.store, p.ret)
            if known_ok(rv) is True:
                oks.append((p, rv))
    if not oks:
        ctx.fail("R16-3", "from_str", "no success path found", loc(it))
        return
    bad = None
    modes = {}
    for p, rv in oks:
        cfg = rv[4][0][4][0]
        chain, base = peel(cfg)
        if sorted(m for m, _ in chain) != sorted(KEYS):
            bad = "builder methods applied: %s, specification: %s" % ([m for m, _ in chain], KEYS)
            break
        for m, a in chain:
            if m == "mode":
                sel = None
                for at, v in p.conds():
                    if at[0] == "b" and at[1][0] == "eq" and v is True:
                        lits = [x[1] for x in at[1][1:] if isinstance(x, tuple) and x[0] == "str"]
                        if lits:
                            sel = lits[0]
                var = a[2] if isinstance(a, tuple) and a[0] == "adt" else None
                modes.setdefault(sel, set()).add(var)
                ks = set()
                for at, v in p.conds():
                    if at[0] in ("ok", "b"):
                        kk = json_keys(at[1])
                        if "mode" in kk:
                            ks |= {"mode"}
                if "mode" not in ks:
                    bad = "mode is not selected by the JSON key \"mode\""
                continue
            ks = json_keys(a)
            if ks != {m}:
                bad = "builder method %s receives the value of JSON key(s) %s" % (m, sorted(ks))
                break
        if bad:
            break
    ctx.check(bad is None, "R16-3", "from_str key table", "each of %s reaches the same-named sled::Config method on %d success paths" % (KEYS, len(oks)), bad or "", loc(it))
    # one belief about a missing key: every condition that looks at the "temporary" option (the guard that refuses to open an existing
    # location as temporary, i.e. delete-on-drop) must test the very value handed to sled::Config::temporary; a guard on the raw option
    # treats a missing key as `false` while the builder treats it as the default `true`, and the existing tree is removed on drop
    incons = None
    nguard = 0
    for p, rv in oks:
        chain, base = peel(rv[4][0][4][0])
        eff = dict(chain).get("temporary")
        for at, v in p.conds():
            if at[0] not in ("b", "ok", "v") or "temporary" not in json_keys(at[1]):
                continue
            nguard += 1
            if not (at[0] == "b" and at[1] == eff):
                incons = "a success path is conditioned on %s while sled::Config::temporary receives %s" % (sh(at[1], 120), sh(eff, 120))
    def exists_true(at, v):
        # `path.exists()` is true: tested directly, or as `path.as_ref().filter(|p| p.exists())` being Some
        if at[0] == "b" and at[1][0] == "call" and at[1][1].endswith("::exists") and v is True:
            return True
        if at[0] == "ok" and v is True and isinstance(at[1], tuple) and at[1][0] == "call" and at[1][1].endswith("Option::<T>::filter") and len(at[1][2]) == 2:
            cps = closure_paths(fb, at[1][2][1]) or []
            return bool(cps) and all(isinstance(val, tuple) and val and val[0] == "call" and val[1].endswith("::exists") for _, val in cps)
        return False
    errs = [p for p in paths if p.kind == "return" and known_ok(eng.value_of(p.store, p.ret)) is False
            and any(exists_true(at, v) for at, v in p.conds())]
    ctx.check(incons is None and nguard >= 1 and len(errs) >= 1, "R16-3", "from_str temporary guard", "the existing-location guard tests the effective `temporary` value (the one the builder receives)",
              incons or "no guard on the temporary option found (%d conditions, %d rejecting paths): an existing tree can be opened delete-on-drop" % (nguard, len(errs)), loc(it))
    want = {"HighThroughput": {"HighThroughput"}, "LowSpace": {"LowSpace"}, None: {"HighThroughput"}}
    # compared as total functions of the key's string: an explicit arm that maps a name to what the default arm gives anyway may be
    # present or absent
    if None in modes:
        modes = {k: v for k, v in modes.items() if k is None or v != modes[None]}
        want = {k: v for k, v in want.items() if k is None or v != want[None]}
    ctx.check(modes == want, "R16-3", "from_str mode table", "\"HighThroughput\"/\"LowSpace\" map to the same-named variants, default HighThroughput",
              "mode strings map as %s, specification %s" % (modes, want), loc(it))
    # Default
    dit = fb.one(r"PmtreeConfig as std::default::Default>::default$")
    ctx.touch(dit)
    e2 = Engine(fb, inline=lambda i: False)
    ps = ret_paths(e2.run(dit))
    ok = False
    got = None
    if len(ps) == 1:
        rv = e2.value_of(ps[0].store, ps[0].ret)
        chain, base = peel(rv[4][0] if rv[0] == "adt" else rv)
        got = [m for m, _ in chain]
        ok = sorted(got) == sorted(KEYS)
    ctx.check(ok, "R16-3", "Default sets all keys", "all six options set explicitly", "Default applies %s" % got, loc(dit))


def nothing_stored(rv):
    """the error value `PmtreeErrorKind::DatabaseError(DatabaseErrorKind::CannotLoadDatabase)`"""
    return (isinstance(rv, tuple) and rv[0] == "adt" and rv[1].endswith("result::Result") and rv[2] == "Err" and rv[4] and isinstance(rv[4][0], tuple)
            and rv[4][0][0] == "adt" and rv[4][0][2] == "DatabaseError" and rv[4][0][4] and isinstance(rv[4][0][4][0], tuple)
            and rv[4][0][4][0][0] == "adt" and rv[4][0][4][0][2] == "CannotLoadDatabase")


def check_open(ctx, fb):
    from .. import symex
    # SledDB::load: Ok only for a recovered database; the 'nothing stored here' error exactly when it was not recovered
    lit = fb.one(r"SledDB as (vacp2p_)?pmtree::Database>::load$")
    ctx.touch(lit)
    eng = Engine(fb, inline=lambda i: False)
    good, nothing_ok, n_nothing = False, True, 0
    openers = set()
    for p in eng.run(lit):
        for c in p.calls(r"sled::Config::open$|SledDB::new_with_tries$"):
            openers.add(re.sub(r"@.*", "", c[1]).split("::")[-1])
        if p.kind != "return":
            continue
        rv = eng.value_of(p.store, p.ret)
        cm = cond_map(p)
        rec = [v for a, v in cm.items() if a[0] == "b" and a[1][0] == "call" and a[1][1].endswith("was_recovered")]
        if known_ok(rv) is not False:
            good = rec == [True]
        if nothing_stored(rv):
            n_nothing += 1
            if rec != [False]:
                nothing_ok = False
    ctx.check(good, "R16-4", "SledDB::load requires was_recovered", "Ok only for a recovered (pre-existing) database", "SledDB::load can return Ok for a location that was not recovered", loc(lit))
    ctx.check(nothing_ok and n_nothing == 1, "R16-4", "SledDB::load reports 'nothing stored' only for an unrecovered location",
              "CannotLoadDatabase is returned on exactly the path where was_recovered() is false",
              "SledDB::load returns CannotLoadDatabase on %d path(s), not only when the location was not recovered: the caller creates (resets) the tree on that value" % n_nothing, loc(lit))
    # the other errors load can return come from the shared opener: none of them is the 'nothing stored' value
    nit = fb.one(r"SledDB::new_with_tries$")
    ctx.touch(nit)
    e3 = Engine(fb, inline=lambda i: False)
    bad = [p.site for p in e3.run(nit) if p.kind == "return" and nothing_stored(e3.value_of(p.store, p.ret))]
    ctx.check(not bad, "R16-4", "open failures are not 'nothing stored'", "no failure of the opener is the CannotLoadDatabase value",
              "SledDB::new_with_tries returns CannotLoadDatabase for an open failure: a database that cannot be opened would be re-created", loc(nit, bad[0] if bad else None))
    # load and new open the location through the same routine (same retry policy while the previous handle releases its lock)
    cit = fb.one(r"SledDB as (vacp2p_)?pmtree::Database>::new$")
    ctx.touch(cit)
    e4 = Engine(fb, inline=lambda i: False)
    copen = set()
    for p in e4.run(cit):
        for c in p.calls(r"sled::Config::open$|SledDB::new_with_tries$"):
            copen.add(re.sub(r"@.*", "", c[1]).split("::")[-1])
    ctx.check(openers == copen == {"new_with_tries"}, "R16-4", "load and create share the opener",
              "Database::load and Database::new both open through new_with_tries (retry while the lock of a closing handle is still held)",
              "load opens through %s, new through %s: a transient open failure in load alone makes PmTree::new fall through to creation, which resets an existing tree" % (sorted(openers), sorted(copen)), loc(lit))
    # PmTree::new: load(config); create only when load reported 'nothing stored'; any other load failure is an error
    it = fb.one(r"PmTree as zerokit_utils::ZerokitMerkleTree>::new$")
    ctx.touch(it)
    eng = Engine(fb, inline=inline_only(r"PmtreeConfig as std::clone::Clone>::clone$"))
    vi_outer = symex.VARIANT_INDEX.get(("vacp2p_pmtree::PmtreeErrorKind", "DatabaseError"))
    vi_inner = symex.VARIANT_INDEX.get(("vacp2p_pmtree::DatabaseErrorKind", "CannotLoadDatabase"))
    if vi_outer is None or vi_inner is None:
        raise MissingAnchor("variant indices of PmtreeErrorKind::DatabaseError / DatabaseErrorKind::CannotLoadDatabase (%s)" % sorted(k for k in symex.VARIANT_INDEX if "pmtree" in k[0]))
    oks = []
    shape = True
    why = ""
    n_create = n_reject = 0
    for p in eng.run(it):
        ld = p.calls(r"MerkleTree::<D, H>::load$")
        nw = p.calls(r"MerkleTree::<D, H>::new$")
        is_ok = p.kind == "return" and known_ok(eng.value_of(p.store, p.ret)) is not False
        if is_ok:
            oks.append(p)
        if len(ld) != 1:
            if is_ok or nw:
                shape, why = False, "a path creates or returns a tree without trying to load the persisted one first"
            continue
        cfg_l = ld[0][2][0]
        lt = ("call", ld[0][1], ld[0][2])
        cm = cond_map(p)
        lok = cm.get(("ok", lt))
        if cfg_l != F(P(3), "0"):
            shape, why = False, "load uses %s, specification the caller's configuration" % sh(cfg_l, 80)
        if lok is True and nw:
            shape, why = False, "a tree that loaded successfully is re-created"
        if lok is False:
            # which error? the two discriminant tests of the match
            ds = {sh(a[1], 200): v for a, v in cm.items() if a[0] == "d" and contains(a[1], lt)}
            pinned = sorted(ds.values(), key=str) == sorted([("eq", vi_outer), ("eq", vi_inner)], key=str) and len(ds) == 2
            if nw:
                n_create += 1
                if not pinned:
                    shape, why = False, ("the tree is created (its depth, leaf count and left branch are rewritten) after a load failure that is not pinned to "
                                         "DatabaseError(CannotLoadDatabase) (tests on the error: %s): an existing tree that could not be opened or read is reset" % ds)
                elif len(nw) != 1 or nw[0][2][1] != cfg_l or nw[0][2][0] != P(1):
                    shape, why = False, "creation uses depth/config %s, load used %s" % (sh(nw[0][2], 100), sh(cfg_l, 60))
            elif p.kind == "return":
                n_reject += 1
                if is_ok:
                    shape, why = False, "a load failure is followed by success without creation"
    ctx.check(shape and len(oks) == 2 and n_create >= 1 and n_reject >= 1, "R16-4", "PmTree::new load-or-create",
              "load(config); create(depth, same config) only when load reported that nothing is stored there; every other load failure is returned as Err",
              why or "expected 2 success paths, creation and rejection arms; found %d / %d / %d" % (len(oks), n_create, n_reject), loc(it))


def check_constructor_config(ctx, fb):
    """R16-8: the storage configuration a caller supplies reaches the tree. RLN::new builds the tree with
    Config::from_str(json["tree_config"].to_string()) of the JSON it was given (documented key), new_with_params with
    Config::from_str(the whole reader); Config::default() only when that string is empty. A configuration that is silently dropped
    (wrong key, error turned into the default) puts the tree into a temporary database: nothing survives a reopen."""
    for fn, src_param, key in (("rln::public::RLN::new", 2, "tree_config"), ("rln::public::RLN::new_with_params", 4, None)):
        it = fb.need(fn)
        ctx.touch(it)
        eng = Engine(fb, inline=lambda i: False)
        why = ""
        n_cfg = n_def = 0
        for p in eng.run(it):
            if p.kind != "return":
                continue
            rv = eng.value_of(p.store, p.ret)
            if not (rv[0] == "adt" and rv[2] == "Ok"):
                continue
            fields = dict(zip(rv[4][0][3], rv[4][0][4]))
            t = fields.get("tree")
            news = [x for x in subterms(t) if isinstance(x, tuple) and x and x[0] == "call" and re.search(r"ZerokitMerkleTree>::new$", x[1])] if t else []
            if len(news) != 1 or news[0][2][0] != P(1):
                why = "the tree is %s, specification PoseidonTree::new(tree_height, default leaf, configuration)" % sh(t, 120)
                break
            cfg = news[0][2][2]
            text = ("call", None, None)
            reader = ("upd", None)
            raw = [x for x in subterms(cfg) if isinstance(x, tuple) and x and x[0] == "upd" and str(x[1]).endswith("read_to_end") and x[3][0] == P(src_param)]
            empties = [(a, v) for a, v in p.conds() if a[0] == "b" and isinstance(a[1], tuple) and (a[1][0] == "is_empty" or (a[1][0] == "call" and a[1][1].endswith("::is_empty")))]
            if cfg[0] == "call" and cfg[1].endswith("Default>::default"):
                n_def += 1
                if not (empties and empties[-1][1] is True and any(isinstance(x, tuple) and x and x[0] == "upd" and str(x[1]).endswith("read_to_end") and x[3][0] == P(src_param) for x in subterms(empties[-1][0]))):
                    why = "the default configuration is used on a path where the caller's configuration text is not known to be empty"
                    break
                continue
            fs = cfg[1] if cfg[0] == "unwrap" else None
            if not (fs and fs[0] == "call" and fs[1].endswith("FromStr>::from_str") and raw):
                why = "the tree's configuration is %s, specification Config::from_str(the caller's text)" % sh(cfg, 140)
                break
            n_cfg += 1
            arg = fs[2][0]
            if key is not None:
                ks = [x[1] for x in subterms(arg) if isinstance(x, tuple) and len(x) == 2 and x[0] == "str"]
                idx = [x for x in subterms(arg) if isinstance(x, tuple) and x and x[0] == "call" and re.search(r"Index<.*>::index$|Value::get$", x[1])]
                if ks != [key] or len(idx) != 1:
                    why = "the configuration is read from %s, documented key %r of the input JSON" % (ks or sh(arg, 80), key)
                    break
            else:
                if any(isinstance(x, tuple) and x and x[0] == "call" and re.search(r"Index<.*>::index$", x[1]) for x in subterms(arg)):
                    why = "new_with_params parses %s, specification the whole tree_config reader" % sh(arg, 100)
                    break
        if not why and (n_cfg < 1 or n_def < 1):
            why = "expected a path with the caller's configuration and a path with the default (empty text); found %d / %d" % (n_cfg, n_def)
        ctx.check(not why, "R16-8", "%s configuration" % fn.split("::")[-1], "tree built with Config::from_str(caller's %s), default only for an empty text" % (
            "JSON[\"tree_config\"]" if key else "reader"), why, loc(it))


def check_tree_replacement(ctx, fb):
    """R16-5: the instance keeps the storage it was configured with: a method that replaces RLN.tree must build the new tree from the
    instance's configuration; building it with ZerokitMerkleTree::default (a fresh temporary database) detaches every later update,
    and flush(), from the configured location"""
    n = 0
    for path, it in sorted(fb.items.items()):
        if it.kind not in ("Fn", "AssocFn") or it.file != "rln/src/public.rs" or it.get("test") or not path.startswith("rln::public::RLN::"):
            continue
        if len(it.locals) < 2 or not it.locals[1]["ty"].startswith("&mut "):
            continue
        eng = Engine(fb, inline=lambda i: False)
        hit = None
        for p in eng.run(it):
            w = [e for e in p.trace if e[0] == "write" and e[1][1] == -1 and e[2] and e[2][0] == ("f", "tree") and len(e[2]) == 1]
            if not w:
                continue
            n += 1
            v = w[0][3]
            defs = [t for t in subterms(v) if isinstance(t, tuple) and t and t[0] == "call" and isinstance(t[1], str) and re.search(r"ZerokitMerkleTree>::default$", t[1])]
            if defs:
                hit = p
        if hit is not None:
            ctx.fail("R16-5", "%s replaces the tree with a default one" % path, "%s stores a tree built by ZerokitMerkleTree::default (default, temporary storage) into the instance: updates made "
                     "afterwards, and flush(), no longer reach the location the instance was configured with" % path, loc(it, hit.site))
    ctx.floor("tree-replacement-sites", n, 2)


def run(ctx):
    ctx.prefetch(["default", "fixtures"])
    fb = ctx.fb("default")
    stats = {"sites": 0, "fns": 0, "by_file": {}, "exceptions": []}
    for path, it in sorted(fb.items.items()):
        if it.kind not in ("Fn", "AssocFn", "Closure"):
            continue
        if it.file not in FILES:
            continue
        if it.get("test"):
            continue
        before = len([r for r in ctx.results if r.status == "fail"])
        check_fn(ctx, fb, it, stats)
        after = len([r for r in ctx.results if r.status == "fail"])
        if after == before and fallible_calls(it):
            ctx.ok("R16-1", it.path, "%d fallible call(s): every Result tested/returned/unwrapped on every path; no failure becomes Ok" % sum(len(v) for v in fallible_calls(it).values()), loc(it))
    for key, reason in sorted(set(stats["exceptions"])):
        ctx.notes.append("exception %s: %s" % (key, reason))
    ctx.notes.append("fallible call sites per file: %s" % stats["by_file"])
    ctx.floor("fallible-call-sites", stats["sites"], 100)
    ctx.floor("functions-with-fallible-calls", stats["fns"], 40)
    check_flush(ctx, fb)
    check_config(ctx, fb)
    check_open(ctx, fb)
    check_tree_replacement(ctx, fb)
    check_constructor_config(ctx, fb)
    # R16-7 (shared with C11 R11-1..R11-3): "storage failures are reported" to a C caller too: the wrappers of the tree mutators and
    # of flush return true exactly on the method's Ok and false on its Err
    from . import c11
    k7 = 0
    for w in c11.wrappers(fb):
        if w["name"] in ("flush", "set_leaf", "set_next_leaf", "delete_leaf", "set_leaves_from", "init_tree_with_leaves", "atomic_operation",
                         "seq_atomic_operation", "set_metadata", "set_tree"):
            sub7 = type(ctx)(ctx.pid, ctx.tier)
            c11.check_wrapper(sub7, fb, w, "default")
            k7 += 1
            for r in sub7.results:
                (ctx.ok if r.status == "ok" else ctx.fail)("R16-7", r.instance, r.reason, r.loc)
    ctx.floor("storage-ffi-wrappers", k7, 10)
    # R16-6 (shared with C06 R06-11): an acknowledged write is handed to sled whole: put / put_batch insert every record they
    # receive, unconditionally, and report Ok only when sled did
    from . import c06
    sub = type(ctx)(ctx.pid, ctx.tier)
    c06.check_store_adapter(sub, fb)
    for r in sub.results:
        (ctx.ok if r.status == "ok" else ctx.fail)("R16-6", r.instance, r.reason, r.loc)
    # fixtures
    fx = ctx.fb("fixtures")
    from ..main import Ctx
    for fn, expect in [("zkfix::storage::dropped_put", True), ("zkfix::storage::ok_swallow", True), ("zkfix::storage::err_to_ok", True), ("zkfix::storage::proper", False)]:
        sub = Ctx(ctx.pid, ctx.tier)
        st = {"sites": 0, "fns": 0, "by_file": {}, "exceptions": []}
        try:
            check_fn(sub, fx, fx.need(fn), st)
            fired = any(r.status == "fail" for r in sub.results)
        except MissingAnchor:
            fired = not expect
        ctx.fixture("R16-1" + ("" if expect else "-neg"), fired == expect, fn + ("" if expect else " (must be silent)"))
