"""C06 Each Merkle tree back end is observationally equal to the ideal hash tree: 'rejected operations change nothing', the
bookkeeping formulas (high-water mark, capacity guards) and the node-recomputation shape, per back end."""
import re
from ..symex import Engine, show, subterms, contains, known_ok, known_functions
from ..lib import *
from ..facts import MissingAnchor
from .. import treefx
from . import c15

INFO = {
    "level": "other",
    "explanation": "Decides the clauses of the property that are visible in the shape of the code, for every history: R06-1 atomicity on "
                   "rejection: on every path of a mutator (set, set_range, update_next, delete, override_range and PmTree's helpers, for "
                   "the three back ends) and of the RLN entry points (set_leaf, set_leaves_from, init_tree_with_leaves, atomic_operation, "
                   "set_next_leaf, delete_leaf) that returns Err, no store into the tree object and no inner mutating call that "
                   "succeeded precedes the failure (exceptions are a frozen table with one reason each). R06-2 bookkeeping formulas: "
                   "set/set_range update the high-water mark as max(next_index, position + count) and only after the write; delete is "
                   "dominated by `index < next_index` and never raises the mark; capacity guards (`index >= capacity`, `start + len > "
                   "capacity`) dominate the first store; leaves_set() returns the mark; get() is bounds-guarded. R06-3 node "
                   "recomputation shape: Full: update_nodes(start, end) recomputes nodes[p] = H(nodes[2p+1], nodes[2p+2]) for p in "
                   "parent(start)..=parent(end) and recurses to the root, set_range hands it exactly [index, index+count-1] with index = "
                   "capacity+start-1; Optimal: hash_couple(d, i) = H(get_node(d, i&!1), get_node(d, (i&!1)+1)) unconditionally, "
                   "get_node = stored node or the level's cached default, update_hashes rehashes, level by level, every parent of the changed range [first>>1, last>>1] "
                   "starting from (index, index+length-1) until depth 0, and set/set_range hand it (index, 1) / (start, len); both constructors build the default cache as "
                   "cache[l] = H(cache[l+1], cache[l+1]); root() is node 0 / get_node(0, 0). R06-4 the persistent adapter delegates: set/delete/update_next/set_range/get/root/"
                   "leaves_set/depth/capacity/proof each call pmtree's operation of the same name with the caller's arguments exactly once and before any branch. "
                   "R06-5 get_subtree_root(n, index) in the three back ends: two bounds rejections, level 0 = root(), level depth = get(index), level n = the node "
                   "(n, index >> (depth - n)) - in the full tree as a climb of depth - n parents ((i+1)>>1)-1 from node 2^depth + index - 1 (or the equivalent closed form). R06-6 the plain observers: capacity = 1 << depth, depth, metadata/set_metadata (in-memory trees), compute_root = Ok(root()). R06-8 every success path of an in-memory set / set_range stores, recomputes, raises the mark and flags (no value-dependent shortcut). R06-7 who-may-write: next_index, nodes, the default cache and depth of the in-memory trees are stored only by the operations whose effect is specified. R06-9 stored and returned values as terms: set(i, v) stores v at leaf position i, delete(i) = set(i, H::default_leaf()), get(i) returns the node stored at leaf position i, optimal set_range stores leaf k at (depth, start + k). R06-10 (shared with C08/C15): the persistent adapter's batch removal rewrites exactly the span first..=last with the default leaf at the listed positions and the current leaf elsewhere. R06-11 store adapter: SledDB::get returns sled's bytes for the key untransformed, put is one unconditional insert of the pair, every iteration of put_batch inserts its own pair exactly once with no other branch and the batch is applied to self.0, Ok only if sled reported Ok (a record dropped under the persistent tree makes stored leaves disagree with the reported root). R06-12 (shared, C16 R16-4): a persistent tree opened again at its location is the stored tree (creation only on the 'nothing stored' report, which load gives only for an unrecovered location).",
    "not_decided": "equality of roots/leaves with the ideal tree as values over histories (numeric; Poseidon opaque), pmtree's internals",
    "assumptions": ["pmtree's mutators are atomic on their own errors"],
}

MUTATORS = ["set", "set_range", "update_next", "delete", "override_range"]
# (function regex, failing-callee regex) -> reason: an Err source that cannot occur after the point where mutation started
EXCEPTIONS = [
    (r"FullMerkleTree<H> as .*ZerokitMerkleTree>::set_range$", r"update_nodes$", "update_nodes fails only if its two ends are on different levels; both are leaf-level indices index..index+count-1"),
    (r"FullMerkleTree::<H>::update_nodes$", r"update_nodes$", "recursive call on the parents of two same-level nodes (same reason)"),
    (r"(Full|Optimal)MerkleTree<H> as .*ZerokitMerkleTree>::override_range$", r"ZerokitMerkleTree>::(delete|set_range)$",
     "the batch was validated (fit and every removal index below the capacity) before the first mutation: the guards of delete/set_range are implied (C08 R08-1)"),
    (r"(Full|Optimal)MerkleTree<H> as .*ZerokitMerkleTree>::delete$", r"ZerokitMerkleTree>::set$", "delete writes only when index < next_index <= capacity, where set cannot fail"),
    (r"OptimalMerkleTree<H> as .*ZerokitMerkleTree>::(set|set_range)$", r"update_hashes$", "update_hashes has no reachable Err (it returns Ok after the root is stored)"),
]


OBSERVERS = ["root", "get", "leaves_set", "depth", "capacity", "get_subtree_root", "proof", "get_empty_leaves_indices", "metadata"]
_OBS = {}


def self_fields(item):
    """names of the fields of `self` (local 1) that the body mentions, through (*self).f or self.f"""
    out = set()

    def walk(x):
        if isinstance(x, dict):
            if "l" in x and "proj" in x and x["l"] == 1:
                for pr in x["proj"]:
                    if pr[0] == "deref":
                        continue
                    if pr[0] == "field":
                        out.add(pr[2])
                    break
            for v in x.values():
                walk(v)
        elif isinstance(x, list):
            for v in x:
                walk(v)
    walk(item.blocks)
    return out


def any_fields(item):
    out = set()

    def walk(x):
        if isinstance(x, dict):
            for pr in x.get("proj", []) if isinstance(x.get("proj"), list) else []:
                if pr[0] == "field" and isinstance(pr[2], str) and not pr[2].isdigit():
                    out.add(pr[2])
            for v in x.values():
                walk(v)
        elif isinstance(x, list):
            for v in x:
                walk(v)
    walk(item.blocks)
    return out


def observed_fields(fb, name):
    """fields of the tree object that some read-only operation of the tree interface (or a helper it hands `self` to) reads:
    a store to any other field cannot change what the tree reports"""
    key = (id(fb), name)
    if key in _OBS:
        return _OBS[key]
    roots = []
    for m in OBSERVERS:
        it = c15.get(fb, name, m)
        if it is not None:
            roots.append(it)
    if len(roots) < 6:
        raise MissingAnchor("observers of %s (found %d)" % (name, len(roots)))
    sty = re.sub(r"^&(mut )?", "", roots[0].locals[1]["ty"])
    seen, _, _ = reach(fb, [r.path for r in roots])
    fields = set()
    for pth in seen:
        it = fb.items[pth]
        if it.kind not in ("Fn", "AssocFn") or len(it.locals) < 2:
            continue
        if re.sub(r"^&(mut )?", "", it.locals[1]["ty"]) != sty:
            continue
        fields |= self_fields(it)
        for c in fb.closures_of(pth):
            # a closure reads `self` through its captured environment: count every field name it mentions
            fields |= any_fields(c)
    _OBS[key] = fields
    return fields


def loop_mutations(paths, observed=None):
    """{loop header: description} for loops whose body changes the tree object (seen on the back-edge paths)"""
    out = {}
    for b in paths:
        if b.kind != "backedge":
            continue
        start = None
        for i, e in enumerate(b.trace):
            if e[0] == "loop" and e[2] == b.loop:
                start = i
        if start is None:
            continue
        body = [d for i, d in mutation_events(b, observed=observed) if i > start]
        if body:
            out.setdefault(b.loop, body[0])
    return out


def mutation_events(p, self_param=1, loops=None, observed=None):
    """ordered list of (index in trace, description) of state changes of the tree object on this path;
    `observed`: when given, stores to fields outside it are not observable and are skipped"""
    out = []
    for i, e in enumerate(p.trace):
        if loops and e[0] == "loop" and e[2] in loops and not (p.kind == "backedge" and p.loop == e[2]):
            out.append((i, "loop: " + loops[e[2]]))
        if e[0] == "write" and e[1][1] == -self_param:
            if observed is not None and e[2] and e[2][0][0] == "f" and e[2][0][1] not in observed:
                continue
            out.append((i, "store to self.%s" % ".".join(str(k[1]) for k in e[2][:1])))
        elif e[0] == "call" and re.search(r"MerkleTree::<D, H>::(set|set_range|update_next|delete)$|ZerokitMerkleTree>::(set|set_range|update_next|delete|override_range|set_metadata)$|HashMap::<K, V, S, A>::insert$|PmTree::(remove_indices|remove_indices_and_set_leaves)$|Database>?::put$|RLN::(set_tree|set_leaves_from)$", e[1]):
            out.append((i, "call " + e[1].split("::")[-1]))
        elif e[0] == "call" and e[1].endswith("Iterator::for_each") and any(isinstance(a, tuple) and a and a[0] == "closure" for a in e[2]):
            out.append((i, "for_each(closure writing self)"))
    return out


def atomicity(ctx, fb, it, inst, observed=None):
    eng = Engine(fb, inline=lambda i: False, max_paths=4000)
    paths = eng.run(it)
    bad = {}
    nerr = 0
    lm = loop_mutations(paths, observed)
    for p in paths:
        if p.kind != "return":
            continue
        rv = eng.value_of(p.store, p.ret)
        if known_ok(rv) is True:
            continue
        # where did this path fail?  the last `ok(...)` condition that is False, or an explicit Err
        fail_at = None
        culprit = None
        for i, e in enumerate(p.trace):
            if e[0] == "cond" and e[1][0] == "ok" and e[2] is False:
                fail_at = i
                culprit = e[1][1]
        if known_ok(rv) is None and isinstance(rv, tuple) and rv[0] in ("call", "map_err"):
            # tail call: delegated result; the callee's own atomicity is checked separately
            fail_at = len(p.trace)
            culprit = rv
        if fail_at is None:
            fail_at = len(p.trace)
        nerr += 1
        muts = [(i, d) for i, d in mutation_events(p, loops=lm, observed=observed) if i < fail_at]
        # the failing call itself is not a completed mutation
        cname = None
        cur = culprit
        while isinstance(cur, tuple) and cur and cur[0] == "map_err":
            cur = cur[1]
        if isinstance(cur, tuple) and cur and cur[0] == "call":
            cname = cur[1]
            muts = [(i, d) for i, d in muts if not (p.trace[i][0] == "call" and ("call", p.trace[i][1], p.trace[i][2]) == cur)]
        if not muts:
            continue
        exc = [r for frx, crx, r in EXCEPTIONS if re.search(frx, it.path) and cname and re.search(crx, cname)]
        if exc and re.search(r"override_range$", it.path):
            # this exception is only sound on paths that passed the whole validation
            if not all(treefx.batch_validated(fb, p, muts[0][0])):
                exc = []
        if exc and cname and re.search(r"update_nodes$", cname):
            # premise: update_nodes' own Err arises only from the `levels(start) != levels(end)` test (its other failures are its recursion)
            ci = fb.lookup(cname.split("@")[0])
            okp = ci is not None
            if okp:
                e2 = Engine(fb, inline=lambda i: False)
                for q in e2.run(ci):
                    if q.kind != "return":
                        continue
                    rvq = e2.value_of(q.store, q.ret)
                    if known_ok(rvq) is False and isinstance(rvq, tuple) and rvq[0] == "adt":
                        lv = [a for a, v in q.conds() if a[0] == "b" and len([t for t in subterms(a[1]) if t[0] == "call" and t[1].endswith("::levels")]) == 2]
                        if not lv:
                            okp = False
            if not okp:
                exc = []
        if exc and cname and re.search(r"update_hashes$", cname):
            # this exception claims the callee cannot fail: decide it on the callee
            ci = fb.lookup(cname.split("@")[0])
            if ci is None:
                exc = []
            else:
                e2 = Engine(fb, inline=lambda i: False)
                if any(q.kind == "return" and known_ok(e2.value_of(q.store, q.ret)) is not True for q in e2.run(ci)):
                    exc = []
        if exc:
            ctx.notes.append("%s: Err from %s after %s: %s" % (inst, cname.split("::")[-1], muts[0][1], exc[0]))
            continue
        key = (muts[0][1], cname.split("::")[-1] if cname else "explicit Err")
        bad.setdefault(key, p)
    for (m, c), p in sorted(bad.items(), key=lambda x: x[0]):
        ctx.fail("R06-1", "%s|%s before %s" % (inst, m, c), "%s can return Err (from %s) after it has already changed the tree (%s): a rejected operation is not a no-op" % (inst, c, m), loc(it, p.site))
    if not bad:
        ctx.ok("R06-1", inst, "%d failing path(s): none is preceded by a change of the tree" % nerr, loc(it))


def check_atomic(ctx, fb, cfg):
    n = 0
    for name in ("pmtree", "optimal", "full"):
        for m in MUTATORS + (["remove_indices", "remove_indices_and_set_leaves"] if name == "pmtree" else []):
            it = c15.get(fb, name, m)
            if it is None:
                raise MissingAnchor("%s::%s" % (name, m))
            ctx.touch(it)
            atomicity(ctx, fb, it, "%s::%s" % (name, m), observed_fields(fb, name))
            n += 1
    for m in ("set_leaf", "set_leaves_from", "init_tree_with_leaves", "atomic_operation", "set_next_leaf", "delete_leaf", "set_metadata"):
        it = fb.need("rln::public::RLN::" + m)
        ctx.touch(it)
        atomicity(ctx, fb, it, "RLN::%s[%s]" % (m, cfg))
        n += 1
    ctx.floor("mutators", n, 24)


def check_formulas(ctx, fb):
    NI = F(P(1), "next_index")
    # high-water formulas
    for name in ("optimal", "full"):
        for m, count in (("set", mk_const("usize", 1)), ("set_range", None)):
            it = c15.get(fb, name, m)
            s = treefx.summarize(fb, it)
            ok = len(s["hw"]) == 1
            why = "high-water updates: %s" % [sh(h, 120) for h in s["hw"]]
            if ok:
                h = s["hw"][0]
                ok = h[0] == "call" and h[1] == "std::cmp::max" and len(h[2]) == 2
                if ok:
                    a, b = h[2]
                    oka = isinstance(a, tuple) and a[0] == "field" and a[2] == ("f", "next_index")
                    if m == "set":
                        okb = b in (("bin", "Add", P(2), mk_const("usize", 1)),)
                    else:
                        okb = isinstance(b, tuple) and b[0] == "bin" and b[1] == "Add" and P(2) in b[2:] and (("len", P(3)) in b[2:] or any(isinstance(x, tuple) and x[0] in ("upd", "call") for x in b[2:]))
                    ok = oka and okb
            ctx.check(ok, "R06-2", "%s::%s high-water" % (name, m), "next_index = max(next_index, position + count)", why, loc(it))
            if m == "set_range":
                # an empty batch changes nothing in the ideal tree: max(next_index, start + 0) raises the mark to `start` when the
                # batch is empty and start lies beyond it, so the mark may only be stored on paths where the count is known to be
                # non-zero (sibling agreement: one back end guarding the store and the other not is a contradiction)
                eng_h = Engine(fb, inline=lambda i: False)
                bad_h = None
                nh = 0
                for p in eng_h.run(it):
                    hws = [e for e in p.trace if e[0] == "write" and e[2] == (("f", "next_index"),)]
                    if not hws:
                        continue
                    nh += 1
                    v = hws[0][3]
                    ns = set()
                    if isinstance(v, tuple) and v[0] == "call" and len(v[2]) == 2 and isinstance(v[2][1], tuple) and v[2][1][:2] == ("bin", "Add"):
                        ns = {x for x in v[2][1][2:] if x != P(2)}
                    ns |= {("len", P(3))}
                    nonzero = any(op == "!=" and ((x in ns and cint(y) == 0) or (y in ns and cint(x) == 0)) for op, x, y in eq_facts(p.conds())) or \
                        any((op == "<" and cint(x) == 0 and y in ns) or (op == "<=" and cint(x) == 1 and y in ns) for op, x, y in cmp_facts(p.conds())) or \
                        any(a == ("b", ("is_empty", P(3))) and v_ is False for a, v_ in p.conds())
                    if not nonzero:
                        bad_h = p
                ctx.check(bad_h is None and nh >= 1, "R06-2", "%s::set_range empty batch" % name, "the mark is stored only when the batch is non-empty",
                          "%s::set_range stores next_index = max(next_index, start + count) on a path where count may be 0: an empty range write at a position beyond the mark raises leaves_set() to that position (the ideal tree and the other back ends change nothing)" % name,
                          loc(it, bad_h.site if bad_h else None))
        it = c15.get(fb, name, "delete")
        eng = Engine(fb, inline=lambda i: False)
        ok = True
        n_m = 0
        for p in eng.run(it):
            muts = mutation_events(p)
            if not muts:
                continue
            n_m += 1
            if not holds_lt(p.conds(), P(2), NI):
                ok = False
            if any(e[0] == "write" and e[2] == (("f", "next_index"),) for e in p.trace):
                ok = False
        ctx.check(ok and n_m >= 1, "R06-2", "%s::delete guard" % name, "resets only positions below the high-water mark (index < next_index) and never writes the mark itself",
                  "%s::delete changes the tree on a path that is not dominated by `index < next_index` (deleting a never-written position must not write it, let alone advance next_index)" % name, loc(it))
        it = c15.get(fb, name, "leaves_set")
        v = prim(fb, it.path, P(1))
        ctx.check(v == NI, "R06-2", "%s::leaves_set" % name, "returns next_index", "leaves_set returns %s" % sh(v, 80), loc(it))
    # capacity guards dominate the first store
    for name, m, want in (("optimal", "set", ("Ge", P(2))), ("optimal", "set_range", ("Gt", None)), ("full", "set_range", ("Gt", None)), ("optimal", "get", ("Ge", P(2))), ("full", "get", ("Ge", P(2)))):
        it = c15.get(fb, name, m)
        eng = Engine(fb, inline=inline_only(r"ZerokitMerkleTree>::capacity$"))
        ok = True
        seen = 0
        for p in eng.run(it):
            rv = eng.value_of(p.store, p.ret) if p.kind == "return" else None
            touches = mutation_events(p) or (m == "get" and p.kind == "return" and known_ok(rv) is True)
            if not touches:
                continue
            seen += 1
            g = [(a, v) for a, v in p.conds() if a[0] == "b" and a[1][0] == "bin" and a[1][1] == want[0] and any(x[0] == "bin" and x[1] == "Shl" for x in subterms(a[1][3]))]
            if not g or g[0][1] is not False:
                ok = False
                continue
            lhs = g[0][0][1][2]
            if want[1] is not None and lhs != want[1]:
                ok = False
            if want[1] is None and not (lhs[0] == "bin" and lhs[1] == "Add" and P(2) in lhs[2:]):
                ok = False
            first = mutation_events(p)[:1]
            gi = [i for i, e in enumerate(p.trace) if e[0] == "cond" and e[1] == g[0][0]]
            if first and gi and gi[0] > first[0][0]:
                ok = False
        ctx.check(ok and seen >= 1, "R06-2", "%s::%s capacity guard" % (name, m), "position (+ count) checked against 1 << depth before the first store / read",
                  "%s::%s touches the tree on a path not dominated by its capacity guard" % (name, m), loc(it))


def check_recompute(ctx, fb):
    ip = treefx.TREES["optimal"][1]
    H_ = lambda a, b: None
    # hash_couple
    it = fb.need(ip + "hash_couple")
    ctx.touch(it)
    eng = Engine(fb, inline=lambda i: False)
    ps = eng.run(it)
    rets = ret_paths(ps)
    ok = len(ps) == 1 and len(rets) == 1
    got = eng.value_of(rets[0].store, rets[0].ret) if rets else None
    if ok:
        b = ("bin", "BitAnd", P(3), ("un", "Not", mk_const("usize", 1)))
        gn = lambda i: call(ip + "get_node", P(1), P(2), i)
        ok = got[0] == "call" and got[1].endswith("Hasher::hash") and got[2][0] == ("array", (gn(b), gn(("bin", "Add", b, mk_const("usize", 1)))))
    ctx.check(ok, "R06-3", "optimal::hash_couple", "H(get_node(d, i & !1), get_node(d, (i & !1) + 1)) on a single path",
              "hash_couple is %s on %d path(s): a parent must always be the hash of its two children (a shortcut for 'empty' couples returns stale hashes for sparse writes)" % (sh(got, 200), len(ps)), loc(it))
    # get_node
    it = fb.need(ip + "get_node")
    ctx.touch(it)
    v = prim(fb, it.path, P(1), P(2), P(3))
    okg = v[0] == "call" and v[1].endswith("unwrap_or_else") and v[2][0][0] == "call" and v[2][0][1].endswith("HashMap::<K, V, S, A>::get") and v[2][0][2] == (F(P(1), "nodes"), ("tuple", (P(2), P(3)))) and v[2][1][0] == "closure"
    if okg:
        cl = fb.need(v[2][1][1])
        e2 = Engine(fb, inline=lambda i: False)
        cv = [e2.value_of(p.store, p.ret) for p in ret_paths(e2.run(cl))]
        okg = len(cv) == 1 and cv[0][0] == "idx" and cv[0][1][0] == "field" and cv[0][1][2] == ("f", "cached_nodes")
    ctx.check(okg, "R06-3", "optimal::get_node", "stored node (depth, index) or the level's cached default", "get_node is %s" % sh(v, 200), loc(it))
    # update_hashes(index, length): level by level from the leaves, for every parent p of the changed range
    # [first>>1, last>>1]: nodes[(depth-1, p)] = hash_couple(depth, 2p); then the range is halved; until the root
    it = fb.need(ip + "update_hashes")
    ctx.touch(it)
    eng = Engine(fb, inline=lambda i: False, max_paths=4000)
    paths = eng.run(it)
    why = None
    inner = [p for p in paths if p.kind == "backedge" and p.calls(r"HashMap::<K, V, S, A>::insert$")]
    outer = [p for p in paths if p.kind == "backedge" and not p.calls(r"HashMap::<K, V, S, A>::insert$")]
    if len(inner) != 1 or len(outer) != 1:
        why = "expected one level loop and one parent loop, found %d / %d loop bodies" % (len(outer), len(inner))
    else:
        p = inner[0]
        c = p.calls(r"HashMap::<K, V, S, A>::insert$")[0]
        key, val = c[2][1], c[2][2]
        hc = p.calls(r"hash_couple$")
        o = outer[0]
        lv = desc_level(o)
        rng = p.calls(r"RangeInclusive::<Idx>::new$")
        rng = [r_ for r_ in rng if any(x[0] == "phi" for x in subterms(("t",) + tuple(r_[2])))]
        it_item = None
        for cc in p.calls(r"RangeInclusive<A>>::next$"):
            it_item = ("unwrap", ("call", cc[1], cc[2]))
        if not (lv and rng and it_item):
            why = "level loop shape not recognised (a walk over the levels self.depth, .., 1 with an inner loop over the parents)"
        else:
            d, top, lguards = lv
            lo, hi = rng[0][2]
            fphi = [s_ for s_ in subterms(lo) if s_[0] == "phi"]
            lphi = [s_ for s_ in subterms(hi) if s_[0] == "phi"]
            inner_next = ("ok", it_item[1])
            allowed = set(lguards) | {inner_next}
            if key != ("tuple", (("bin", "Sub", d, mk_const("usize", 1)), it_item)):
                why = "parent stored at %s, specification (depth - 1, parent_index)" % sh(key, 100)
            elif not (len(hc) == 1 and val == ("call", hc[0][1], hc[0][2]) and hc[0][2][1] == d and hc[0][2][2] == ("bin", "Shl", it_item, mk_const("i32", 1))):
                why = "parent value is %s, specification hash_couple(depth, parent_index << 1)" % sh(val, 120)
            elif not (fphi and lphi and lo == ("bin", "Shr", fphi[0], mk_const("i32", 1)) and hi == ("bin", "Shr", lphi[0], mk_const("i32", 1))):
                why = "parents recomputed for %s ..= %s, specification (first >> 1) ..= (last >> 1): every parent of the changed range" % (sh(lo, 60), sh(hi, 60))
            else:
                nf, nl = carried_of(o, fphi[0]), carried_of(o, lphi[0])
                if nf != lo or nl != hi:
                    why = "after a level the range becomes (%s, %s), specification (first>>1, last>>1)" % (sh(nf, 40), sh(nl, 40))
                elif fphi[0][4] != P(2) or lphi[0][4] != ("bin", "Sub", ("bin", "Add", P(2), P(3)), mk_const("usize", 1)) or top != F(P(1), "depth"):
                    why = "the climb starts with (first, last, depth) = (%s, %s, %s), specification (index, index + length - 1, self.depth)" % (sh(fphi[0][4], 40), sh(lphi[0][4], 60), sh(top, 40))
                else:
                    # nothing else decides whether a level or a parent is recomputed: besides the empty-range shortcut and the loops'
                    # own guards no condition may appear on any path that stores, climbs or returns Ok
                    def is_empty_guard(a_):
                        t = a_[1] if len(a_) > 1 else None
                        return a_[0] == "b" and isinstance(t, tuple) and t and ((t[0] == "bin" and t[1] in ("Eq", "Ne") and P(3) in t[2:] and any(cint(x) == 0 for x in t[2:] if isinstance(x, tuple))) or t[0] == "is_empty")
                    for q in paths:
                        if q.kind == "return" and known_ok(eng.value_of(q.store, q.ret)) is False:
                            continue
                        if q.kind not in ("return", "backedge"):
                            continue
                        extra = [(a_, v) for a_, v in q.conds() if a_ not in allowed and not is_empty_guard(a_)]
                        if extra:
                            why = "whether a level is recomputed depends on %s: an early exit leaves the levels above (and the root) stale" % [(sh(a_, 80), v) for a_, v in extra][:3]
    ctx.check(why is None, "R06-3", "optimal::update_hashes", "for every level: nodes[(depth-1, p)] = hash_couple(depth, 2p) for p in first>>1 ..= last>>1; range halved; until depth 0",
              "update_hashes: %s (a range write must rehash every parent of the written range on every level)" % why, loc(it))
    for m, args in (("set", (P(2), mk_const("usize", 1))), ("set_range", (P(2), ("len", P(3))))):
        it = c15.get(fb, "optimal", m)
        e3 = Engine(fb, inline=lambda i: False)
        cs = [c for p in e3.run(it) for c in p.calls(r"update_hashes$")]
        def same(a, b):
            return a == b or (isinstance(a, tuple) and a[0] == "call" and a[1].endswith("::len") and b == ("len", a[2][0]))
        ok = bool(cs) and all(len(c[2]) == 3 and same(c[2][1], args[0]) and same(c[2][2], args[1]) for c in cs)
        ctx.check(ok, "R06-3", "optimal::%s recompute range" % m, "update_hashes(%s, %s)" % (sh(args[0], 20), sh(args[1], 20)), "recomputation is requested for %s" % [[sh(a, 40) for a in c[2][1:]] for c in cs[:2]], loc(it))
    # Full
    fp = treefx.TREES["full"][1]
    it = fb.need(fp + "update_nodes")
    ctx.touch(it)
    eng = Engine(fb, inline=inline_only(r"FullMerkleTree::<H>::(parent|first_child)$"))
    ok = False
    why = "loop body not found"
    rec = None
    for p in eng.run(it):
        if p.kind == "backedge":
            w = [e for e in p.trace if e[0] == "write" and e[1][1] == -1 and e[2] and e[2][0] == ("f", "nodes")]
            if len(w) == 1:
                par = w[0][2][1][1]
                v = w[0][3]
                ch = ("bin", "Add", ("bin", "Shl", par, mk_const("i32", 1)), mk_const("usize", 1))
                N = lambda i: ("idx", None, i)
                good = v[0] == "call" and v[1].endswith("Hasher::hash") and v[2][0][0] == "array" and len(v[2][0][1]) == 2
                if good:
                    a, b = v[2][0][1]
                    good = a[0] == "idx" and b[0] == "idx" and a[2] == ch and b[2] == ("bin", "Add", ch, mk_const("usize", 1)) or (a[0] == "idx" and b[0] == "idx" and a[2] == ch and b[2] == ("bin", "Add", ("bin", "Shl", par, mk_const("i32", 1)), mk_const("usize", 2)))
                ok = bool(good)
                why = "nodes[%s] = %s" % (sh(par, 40), sh(v, 160))
        for c in p.calls(r"update_nodes$"):
            rec = c
    ctx.check(ok, "R06-3", "full::update_nodes", "nodes[p] = H(nodes[2p+1], nodes[2p+2]) for each parent p of the range", why, loc(it))
    # The climb, as a step relation that does not depend on how the repetition is spelled (tail recursion or a loop):
    #   state (start, end)  ->  (parent(start), parent(end)),  parent(x) = ((x + 1) >> 1) - 1,
    # taken unconditionally after a level has been recomputed, and the only way to finish with Ok without taking it is that a
    # parent does not exist (start == 0 or end == 0: the root has been reached).
    eng_r = Engine(fb, inline=inline_only(r"FullMerkleTree::<H>::(parent|first_child|levels)$"))
    run = eng_r.run(it)
    par = lambda x: ("bin", "Sub", ("bin", "Shr", ("bin", "Add", x, mk_const("usize", 1)), mk_const("i32", 1)), mk_const("usize", 1))
    steps, cur = [], None
    for p in run:
        for c in p.calls(r"update_nodes$"):
            steps.append((p, (P(2), P(3)), (c[2][1], c[2][2])))
        if p.kind == "backedge":
            ph = {ph_[4]: (ph_, v) for ph_, v in loop_phis(p) if ph_[4] in (P(2), P(3))}
            if len(ph) == 2:
                steps.append((p, (ph[P(2)][0], ph[P(3)][0]), (ph[P(2)][1], ph[P(3)][1])))
    okr = bool(steps)
    whyr = "no recursive call and no loop over (start, end) found"
    for p, (s0, e0), (s1, e1) in steps:
        cur = (s0, e0)
        if (s1, e1) != (par(s0), par(e0)):
            okr = False
            whyr = "the next level is (%s, %s), specification (parent(start), parent(end))" % (sh(s1, 60), sh(e1, 60))
    for p in run:
        if p.kind != "return" or not okr:
            continue
        rv = eng_r.value_of(p.store, p.ret)
        if known_ok(rv) is False:
            continue
        stepped = bool(p.calls(r"update_nodes$"))
        at_root = any(op == "==" and cint(y) == 0 and x in cur for op, x, y in eq_facts(p.conds()))
        if not stepped and not at_root:
            okr = False
            whyr = "a path returns Ok without going on to the level above although both parents exist (conditions %s)" % [(sh(a, 60), v) for a, v in p.conds()][-4:]
        extra = [(a, v) for a, v in p.conds() if a[0] == "b" and not (a[1][0] == "bin" and a[1][1] in ("Eq", "Ne") and (cint(a[1][3]) == 0 or "trailing_zeros" in sh(a[1], 400)))
                 and not (a[0] == "b" and a[1][0] == "call" and a[1][1].endswith("::is_empty"))]
        if extra and any(e[0] == "loop" for e in p.trace):
            okr = False
            whyr = "the climb depends on %s" % [(sh(a, 80), v) for a, v in extra][:3]
    ctx.check(okr, "R06-3", "full::update_nodes recursion", "(start, end) -> (parent(start), parent(end)) after every recomputed level, until a parent does not exist",
              "the climb to the root is conditional or missing on some path (%s): upper levels and the root can stay stale after a range write" % whyr, loc(it))
    it = c15.get(fb, "full", "set_range")
    e4 = Engine(fb, inline=inline_only(r"ZerokitMerkleTree>::capacity$"))
    cs = [c for p in e4.run(it) for c in p.calls(r"update_nodes$")]
    cap = ("bin", "Shl", mk_const("usize", 1), F(P(1), "depth"))
    okc = bool(cs)
    for c in cs:
        lo, hi = c[2][1], c[2][2]
        okc = okc and lo in (("bin", "Sub", ("bin", "Add", cap, P(2)), mk_const("usize", 1)), ("bin", "Sub", ("bin", "Add", P(2), cap), mk_const("usize", 1))) and hi[0] == "bin" and hi[1] == "Add" and lo in hi[2:]
    ctx.check(okc, "R06-3", "full::set_range recompute range", "update_nodes(index, index + count - 1) with index = capacity + start - 1", "recomputation requested for %s" % [[sh(a, 60) for a in c[2][1:]] for c in cs[:1]], loc(it))
    # roots
    for name, want in (("full", ("idx", F(P(1), "nodes"), mk_const("usize", 0))), ("optimal", call(ip + "get_node", P(1), mk_const("usize", 0), mk_const("usize", 0)))):
        it = c15.get(fb, name, "root")
        v = prim(fb, it.path, P(1), inline=lambda i: False)
        ctx.check(v == want, "R06-3", "%s::root" % name, "the top node", "root() returns %s" % sh(v, 100), loc(it))
    # default caches
    it = c15.get(fb, "optimal", "new")
    ctx.touch(it)
    e5 = Engine(fb, inline=lambda i: False)
    okd = False
    for p in e5.run(it):
        if p.kind == "backedge":
            for e in p.trace:
                if e[0] == "push":
                    v = e[3]
                    if v[0] == "call" and v[1].endswith("Hasher::hash"):
                        a = v[2][0]
                        okd = (a[0] == "repeat" and a[1][0] == "idx") or (a[0] == "array" and len(a[1]) == 2 and a[1][0] == a[1][1])
    ctx.check(okd, "R06-3", "optimal::new default cache", "cache[l] = H(cache[l+1], cache[l+1]) starting from the default leaf, then reversed", "default-node cache is not built by hashing each level with itself", loc(it))
    it = c15.get(fb, "full", "new")
    cl = [c for c in fb.closures_of(it.path)]
    okf = False
    for c in cl:
        e6 = Engine(fb, inline=lambda i: False)
        for p in ret_paths(e6.run(c)):
            v = e6.value_of(p.store, p.ret)
            if isinstance(v, tuple) and v[0] == "adt" and v[2] == "Some" and v[4][0][0] == "call" and v[4][0][1].endswith("Hasher::hash"):
                a = v[4][0][2][0]
                okf = a[0] == "array" and len(a[1]) == 2 and a[1][0] == a[1][1]
    ctx.check(okf, "R06-3", "full::new default cache", "successors(initial_leaf, |p| H(p, p))", "default-node cache is not built by hashing each level with itself", loc(it))


def check_values(ctx, fb):
    """R06-9: what is stored and what is returned, as terms: `set(i, v)` stores v itself at leaf position i, `delete(i)` writes the
    hasher's default leaf (the value an ideal tree holds at an unset position), `get(i)` returns the node stored at leaf position i
    (in-memory back ends; the persistent adapter's delegation is R06-4)"""
    n = 0
    depth = F(P(1), "depth")
    for name in ("optimal", "full"):
        # delete
        it = c15.get(fb, name, "delete")
        ctx.touch(it)
        eng = Engine(fb, inline=lambda i: False)
        sets = [c for p in eng.run(it) for c in p.calls(r"ZerokitMerkleTree>::set$")]
        ok = bool(sets) and all(len(c[2]) == 3 and c[2][0] == P(1) and c[2][1] == P(2) and isinstance(c[2][2], tuple) and c[2][2][0] == "call"
                                and c[2][2][1].endswith("Hasher::default_leaf") and c[2][2][2] == () for c in sets)
        n += 1
        ctx.check(ok, "R06-9", "%s::delete value" % name, "delete(i) = set(i, H::default_leaf())",
                  "%s::delete resets the position with %s, specification set(index, H::default_leaf()): any other value (a cached node, zero of another "
                  "hasher) makes the root differ from the other back ends after a deletion" % (name, [[sh(a, 50) for a in c[2][1:]] for c in sets][:2]), loc(it))
        # get
        it = c15.get(fb, name, "get")
        ctx.touch(it)
        eng = Engine(fb, inline=inline_only(r"ZerokitMerkleTree>::capacity$"))
        oks = [eng.value_of(p.store, p.ret) for p in eng.run(it) if p.kind == "return" and known_ok(eng.value_of(p.store, p.ret)) is not False]
        cap = ("bin", "Shl", mk_const("usize", 1), depth)
        if name == "optimal":
            want = [("call", treefx.TREES["optimal"][1] + "get_node", (P(1), depth, P(2)))]
        else:
            want = [("idx", F(P(1), "nodes"), ("bin", "Sub", ("bin", "Add", cap, P(2)), mk_const("usize", 1))),
                    ("idx", F(P(1), "nodes"), ("bin", "Sub", ("bin", "Add", P(2), cap), mk_const("usize", 1)))]
        got = [v[4][0] for v in oks if v[0] == "adt" and v[2] == "Ok"]
        n += 1
        ctx.check(len(got) == 1 and len(oks) == 1 and got[0] in want, "R06-9", "%s::get value" % name, "get(i) = the node stored at leaf position i",
                  "%s::get returns %s, specification %s" % (name, [sh(g, 100) for g in got], sh(want[0], 100)), loc(it))
        # set
        it = c15.get(fb, name, "set")
        ctx.touch(it)
        eng = Engine(fb, inline=lambda i: False)
        ok = True
        seen = 0
        why = ""
        for p in eng.run(it):
            if p.kind != "return" or known_ok(eng.value_of(p.store, p.ret)) is False:
                continue
            ins = p.calls(r"HashMap::<K, V, S, A>::insert$")
            sr = p.calls(r"ZerokitMerkleTree>::set_range$")
            seen += 1
            if name == "optimal":
                if not (len(ins) == 1 and ins[0][2][1] == ("tuple", (depth, P(2))) and ins[0][2][2] == P(3)):
                    ok, why = False, "stores %s" % [[sh(a, 50) for a in c[2][1:]] for c in ins]
            else:
                one = lambda t: t in (("call", "std::iter::once", (P(3),)), ("array", (P(3),))) or (isinstance(t, tuple) and t[0] == "call" and t[1].endswith("::once") and t[2] == (P(3),))
                if not (len(sr) == 1 and sr[0][2][0] == P(1) and sr[0][2][1] == P(2) and one(sr[0][2][2])):
                    ok, why = False, "delegates %s" % [[sh(a, 50) for a in c[2][1:]] for c in sr]
        n += 1
        ctx.check(ok and seen >= 1, "R06-9", "%s::set value" % name, "set(i, v) stores v at leaf position i",
                  "%s::set %s, specification the caller's leaf at (depth, index) / set_range(index, once(leaf))" % (name, why or "has no success path"), loc(it))
    # optimal::set_range: leaf k of the batch goes to position start + k
    it = c15.get(fb, "optimal", "set_range")
    eng = Engine(fb, inline=lambda i: False)
    ok, why = False, "no store loop found"
    runs = eng.run(it)
    store_loops = {b.loop for b in runs if b.kind == "backedge" and b.calls(r"HashMap::<K, V, S, A>::insert$")}
    skipping = [b for b in runs if b.kind == "backedge" and b.loop in store_loops and len(b.calls(r"HashMap::<K, V, S, A>::insert$")) != 1]
    for b in runs:
        if b.kind != "backedge":
            continue
        ins = b.calls(r"HashMap::<K, V, S, A>::insert$")
        if len(ins) != 1:
            continue
        if skipping:
            # every iteration stores its leaf, whatever its value (a batch that writes the default value over an occupied position
            # must replace it)
            ok, why = False, "an iteration of the store loop does not store its leaf (conditions %s)" % [(sh(a, 60), v) for a, v in skipping[0].conds()][-2:]
            break
        key, val = norm_loopvars(ins[0][2][1]), norm_loopvars(ins[0][2][2])
        if key[0] == "tuple" and len(key[1]) == 2 and isinstance(key[1][1], tuple) and key[1][1][:2] == ("bin", "Add"):
            ops = set(key[1][1][2:])
            i = [x for x in ops if isinstance(x, tuple) and x[0] == "i"]
            d_ok = key[1][0] == depth or (isinstance(key[1][0], tuple) and key[1][0][0] == "field" and key[1][0][2] == ("f", "depth"))
            ok = d_ok and len(i) == 1 and ops == {i[0], P(2)} and cint(i[0][1]) == 0 and val[0] == "idx" and val[2] == i[0] and contains(val[1], P(3))
            why = "leaf %s is stored at %s" % (sh(val, 80), sh(key, 100))
    n += 1
    ctx.check(ok, "R06-9", "optimal::set_range values", "leaf k of the batch is stored at (depth, start + k)", "optimal::set_range: %s" % why, loc(it))
    ctx.floor("value-rule instances", n, 7)


PM_DELEGATES = {
    # adapter operation -> (pmtree operation, expected leading arguments after the tree)
    "set": ("set", (P(2), P(3))), "delete": ("delete", (P(2),)), "update_next": ("update_next", (P(2),)), "set_range": ("set_range", (P(2),)),
    "get": ("get", (P(2),)), "root": ("root", ()), "leaves_set": ("leaves_set", ()), "depth": ("depth", ()), "capacity": ("capacity", ()), "proof": ("proof", (P(2),)),
}


def check_complete_writes(ctx, fb, flags=True):
    """R06-8: a write that reports success has happened, whatever the value: every path of an in-memory set / set_range that can return Ok
    stores the leaf (or leaves), recomputes the parents, raises the high-water mark and marks the position(s); a shortcut for
    'unchanged' values skips the mark, so writing the default value to a fresh position would not count as a write"""
    for name in ("optimal", "full"):
        for m in ("set", "set_range"):
            it = c15.get(fb, name, m)
            ctx.touch(it)
            eng = Engine(fb, inline=lambda i: False)
            paths = eng.run(it)
            n_ok = 0
            why = None
            for p in paths:
                if p.kind != "return":
                    continue
                rv = eng.value_of(p.store, p.ret)
                if known_ok(rv) is False:
                    continue
                if known_ok(rv) is None:
                    # the result is delegated (FullMerkleTree::set hands the write to set_range): the delegate is checked on its own
                    if not p.calls(r"ZerokitMerkleTree>::set_range$"):
                        why = "a path returns %s" % sh(rv, 80)
                    n_ok += 1
                    continue
                n_ok += 1
                if name == "full" and m == "set":
                    # Ok after set_range succeeded: the mark is raised here
                    hw = [e for e in p.trace if e[0] == "write" and e[2] == (("f", "next_index"),)]
                    if not (p.calls(r"ZerokitMerkleTree>::set_range$") and hw):
                        why = "a success path does not go through set_range and the high-water update"
                    continue
                empty_range = m == "set_range" and any(a[0] == "ok" and v is False and "next" in repr(a)[:160] for a, v in p.conds()) and False
                stores = [e for e in p.trace if (e[0] == "write" and e[2] and e[2][0] == ("f", "nodes")) or (e[0] == "call" and e[1].endswith("HashMap::<K, V, S, A>::insert"))]
                loops = [e for e in p.trace if e[0] == "loop"]
                rec = p.calls(r"update_hashes$|update_nodes$")
                hw = [e for e in p.trace if e[0] == "write" and e[2] == (("f", "next_index"),)]
                fl = [e for e in p.trace if e[0] == "write" and e[2] and e[2][0] == ("f", treefx.FLAGS)]
                if m == "set":
                    # `flags=False`: a property that does not speak about the empty-position list shares the rule without that clause
                    if not (stores and rec and hw and (fl or not flags)):
                        why = "a success path of set skips %s" % ", ".join(k for k, v in (("the leaf store", stores), ("the parent recomputation", rec), ("the high-water update", hw), ("the flag", fl or not flags)) if not v)
                else:
                    # range write: leaves and flags are written in loops (possibly zero iterations for an empty range); the mark and the
                    # recomputation are unconditional
                    def empty_batch(pth):
                        for a, v in pth.conds():
                            t = a[1] if len(a) > 1 else None
                            if a[0] == "b" and isinstance(t, tuple) and t and t[0] == "is_empty" and v is True:
                                return True
                            if a[0] == "b" and isinstance(t, tuple) and t and t[0] == "bin" and t[1] in ("Ne", "Eq") and (cint(t[2]) == 0 or cint(t[3]) == 0) and v is (t[1] == "Eq"):
                                return True
                            if a[0] == "v" and v == ("eq", 0):
                                return True
                        return False
                    if not (hw and (rec or loops)) and not empty_batch(p):
                        why = "a success path of set_range skips %s" % ", ".join(k for k, v in (("the high-water update", hw), ("the parent recomputation", rec or loops)) if not v)
            ctx.check(why is None and n_ok >= 1, "R06-8", "%s::%s completes on every success path" % (name, m), "%d success path(s), each stores, recomputes, raises the mark and flags" % n_ok,
                      "%s::%s: %s: a write that returns Ok has not fully happened (the high-water mark and later appends then disagree with the other back ends)" % (name, m, why), loc(it))


def check_delegation(ctx, fb):
    """R06-4: the persistent adapter is a pass-through: each operation calls pmtree's operation of the same name with the caller's
    arguments, exactly once, before any branch - so what pmtree reports (values, high-water mark, root) is what the adapter reports"""
    n = 0
    for m, (op, args) in sorted(PM_DELEGATES.items()):
        it = c15.get(fb, "pmtree", m)
        if it is None:
            raise MissingAnchor("pmtree::%s" % m)
        ctx.touch(it)
        eng = Engine(fb, inline=lambda i: False)
        ok, why = True, ""
        npaths = 0
        for p in eng.run(it):
            npaths += 1
            calls = [(i, e) for i, e in enumerate(p.trace) if e[0] == "call" and re.search(r"MerkleTree::<D, H>::%s$" % op, e[1])]
            conds = [(i, e) for i, e in enumerate(p.trace) if e[0] == "cond"]
            if m == "set_range" and conds and conds[0][1][1] == ("b", ("is_empty", P(3))):
                # the one admitted branch: an empty batch writes nothing (in the ideal tree too) and is not handed to pmtree (R08-6)
                if conds[0][1][2] is True:
                    if calls or mutation_events(p):
                        ok, why = False, "the empty-batch branch still changes the tree"
                        break
                    continue
                conds = conds[1:]
            firstcond = min([i for i, e in conds] or [len(p.trace)])
            if len(calls) != 1:
                ok, why = False, "a path makes %d calls to pmtree's %s (specification: exactly one)" % (len(calls), op)
                break
            i, e = calls[0]
            if i > firstcond:
                ok, why = False, "pmtree's %s is called only under a condition (%s): on the other branch %s" % (op, sh(p.trace[firstcond][1], 100),
                    "the operation has no effect on the stored tree" if m in ("set", "delete", "update_next", "set_range") else "the result does not come from the stored tree")
                break
            got = tuple(e[2][1:1 + len(args)])
            if e[2][0] != F(P(1), "tree") or got != args:
                ok, why = False, "pmtree's %s receives %s, specification (self.tree, %s)" % (op, sh(e[2], 120), ", ".join(sh(a, 20) for a in args))
                break
            if m == "set_range" and not contains(e[2][2], P(3)):
                ok, why = False, "set_range passes values %s, specification the caller's values" % sh(e[2][2], 100)
                break
        ctx.check(ok and npaths >= 1, "R06-4", "pmtree::%s delegates" % m, "calls pmtree::%s(self.tree%s) once, unconditionally" % (op, "".join(", " + sh(a, 20) for a in args)), why, loc(it))
        n += 1
    ctx.floor("pmtree-delegates", n, 10)


def check_store_adapter(ctx, fb, rid="R06-11"):
    """R06-11: the key-value adapter under the persistent tree is a transparent map. pmtree recomputes parents from what `get`
    returns and persists leaves and nodes through `put` / `put_batch`; a record that is dropped, altered or written under a
    condition makes stored leaves disagree with the root the tree reports (and with the in-memory back ends) from the next
    read of that position on. Decided on every path: `get(k)` is sled's get of k and returns its bytes; `put(k, v)` is one
    unconditional insert of (k, v); `put_batch(m)` inserts every pair of m into one batch - each iteration exactly one insert of
    that iteration's pair, no other branch - and applies it; Ok only if sled reported Ok."""
    pre = r"SledDB as (vacp2p_)?pmtree::Database>::"
    n = 0
    # get
    it = fb.one(pre + r"get$")
    ctx.touch(it)
    eng = Engine(fb, inline=lambda i: False)
    ok, why = True, ""
    for p in eng.run(it):
        cs = p.calls(r"sled::(Tree|Db|db::Db)::get$")
        if len(cs) != 1 or cs[0][2] != (F(P(1), "0"), P(2)):
            ok, why = False, "a path does not read sled::get(self.0, key) exactly once (calls: %s)" % [sh(("call", c[1], c[2]), 80) for c in p.calls()][:4]
            break
        g = ("call", cs[0][1], cs[0][2])
        extra = [(a, v) for a, v in p.conds() if not contains(a, g)]
        if extra:
            ok, why = False, "the result depends on a condition other than sled's own result: %s" % sh(extra[0][0], 100)
            break
        if p.kind == "return":
            rv = eng.value_of(p.store, p.ret)
            if rv[0] == "adt" and rv[2] == "Ok":
                if not contains(rv, g):
                    ok, why = False, "Ok(%s) is not the value read from the store" % sh(rv, 100)
                    break
                for cl in [t for t in subterms(rv) if isinstance(t, tuple) and t and t[0] == "closure"]:
                    cit = fb.items.get(cl[1])
                    if cit is None:
                        continue
                    cps = [q for q in Engine(fb, inline=lambda i: False).run(cit) if q.kind != "unreachable"]
                    bad = [q for q in cps if q.conds() or q.kind != "return"]
                    other = [c[1] for q in cps for c in q.calls() if not re.search(r"to_vec$|deref$|as_ref$|to_owned$|::into$|::from$|clone$", c[1])]
                    if bad or other:
                        ok, why = False, "the stored bytes are transformed on the way out (%s)" % (other[:2] or "conditional")
                        break
    ctx.check(ok, rid, "SledDB::get", "get(k) = the bytes sled stores under k", why, loc(it))
    n += 1
    # put
    it = fb.one(pre + r"put$")
    ctx.touch(it)
    ok, why = True, ""
    for p in eng.run(it):
        cs = p.calls(r"sled::(Tree|Db|db::Db)::insert$")
        if len(cs) != 1 or cs[0][2] != (F(P(1), "0"), P(2), P(3)):
            ok, why = False, "a path does not make exactly one sled::insert(self.0, key, value) (found %s)" % [sh(("call", c[1], c[2]), 80) for c in cs]
            break
        g = ("call", cs[0][1], cs[0][2])
        extra = [(a, v) for a, v in p.conds() if not contains(a, g)]
        if extra:
            ok, why = False, "the write is subject to a condition: %s" % sh(extra[0][0], 100)
            break
        if p.kind == "return":
            rv = eng.value_of(p.store, p.ret)
            okc = [v for a, v in p.conds() if a == ("ok", g) or contains(a, g)]
            if rv[0] == "adt" and rv[2] == "Ok" and okc and okc[0] is False:
                ok, why = False, "Ok is returned although sled's insert failed"
                break
    ctx.check(ok, rid, "SledDB::put", "put(k, v) = one unconditional sled insert of (k, v); Ok only if sled reported Ok", why, loc(it))
    n += 1
    # put_batch
    ok, why, it = batch_rule(fb, fb.one(pre + r"put_batch$"))
    ctx.touch(it)
    ctx.check(ok, rid, "SledDB::put_batch", "put_batch(m) inserts every (k, v) of m, unconditionally, into one batch and applies it", why, loc(it))
    n += 1
    ctx.floor("store-adapter-ops", n, 3)


def batch_rule(fb, it, insert_rx=r"sled::Batch::insert$", apply_rx=r"sled::(Tree|Db|db::Db)::apply_batch$"):
    """every iteration inserts its own pair, exactly once and unconditionally; the batch is applied to self.0; Ok only if that succeeded"""
    eng = Engine(fb, inline=lambda i: False)
    ok, why = True, ""
    paths = eng.run(it)
    body = [p for p in paths if p.kind == "backedge"]
    rets = [p for p in paths if p.kind == "return"]
    closures = []
    if not body:
        # iterator form: subtree.into_iter().for_each(|(k, v)| batch.insert(k, v))
        for p in rets:
            for c in p.calls(r"Iterator>?::for_each$"):
                for t in subterms(("t",) + tuple(c[2])):
                    if isinstance(t, tuple) and t and t[0] == "closure" and t[1] in fb.items:
                        closures.append(fb.items[t[1]])
        for cit in closures:
            body += [q for q in Engine(fb, inline=lambda i: False).run(cit) if q.kind == "return"]
    if not body:
        ok, why = False, "shape not recognised: no loop (or for_each closure) that fills the batch"
    for p in body:
        ins = p.calls(insert_rx)
        cs = p.conds()
        nexts = [a for a, v in cs if isinstance(a, tuple) and a[0] == "ok" and a[1][0] == "call" and a[1][1].endswith("::next")]
        extra = [(a, v) for a, v in cs if a not in nexts]
        if len(ins) != 1:
            ok, why = False, "an iteration makes %d inserts into the batch (specification: every pair of the map is inserted once)%s" % (
                len(ins), ("; it is skipped under " + sh(extra[0][0], 100)) if extra else "")
            break
        if extra:
            ok, why = False, "whether / what an iteration inserts depends on %s" % sh(extra[0][0], 100)
            break
        k, v = ins[0][2][1], ins[0][2][2]
        src = None
        if nexts:
            src = ("unwrap", nexts[0][1])
        def is_part(t, idx):
            # the iteration's pair: unwrap(next(iter)).idx, or the closure's tuple parameter .idx
            if src is not None:
                return t == ("field", src, ("f", str(idx))) or t == F(src, str(idx))
            return isinstance(t, tuple) and t[0] == "field" and t[2] == ("f", str(idx)) and t[1][0] == "param"
        if not (is_part(k, 0) and is_part(v, 1)):
            ok, why = False, "the batch receives (%s, %s), specification the iteration's own (key, value)" % (sh(k, 60), sh(v, 60))
            break
    if ok:
        for p in rets:
            ap = p.calls(apply_rx)
            rv = eng.value_of(p.store, p.ret)
            if len(ap) != 1 or ap[0][2][0] != F(P(1), "0"):
                ok, why = False, "a return path does not apply the batch to self.0 exactly once"
                break
            g = ("call", ap[0][1], ap[0][2])
            okc = [v for a, v in p.conds() if contains(a, g)]
            if rv[0] == "adt" and rv[2] == "Ok" and (not okc or okc[-1] is not True):
                ok, why = False, "Ok is returned without sled's apply_batch having succeeded"
                break
    return ok, why, it


def check_subtree_root(ctx, fb):
    """R06-5: get_subtree_root(n, index) = root of the level-n subtree that contains leaf `index`: node (n, index >> (depth - n))"""
    for name in ("pmtree", "optimal", "full"):
        it = c15.get(fb, name, "get_subtree_root")
        if it is None:
            raise MissingAnchor("%s::get_subtree_root" % name)
        ctx.touch(it)
        # the tree's own private helpers (parent, or a helper that performs the climb) are evaluated in place, loops included
        own_helper = lambda i: bool(re.search(r"ZerokitMerkleTree>::(capacity|depth)$|::parent$", i.path)) or (
            name == "full" and i.kind in ("Fn", "AssocFn") and (i.file or "").endswith("full_merkle_tree.rs") and "ZerokitMerkle" not in i.path
            and not re.search(r"::(update_nodes|set_range|first_child|levels)$", i.path) and i.path not in known_functions())
        eng = Engine(fb, inline=own_helper)
        paths = eng.run(it)
        depth = F(P(1), "depth") if name != "pmtree" else ("call", None, None)
        counted = False
        why = None
        seen = {"root": 0, "leaf": 0, "node": 0, "err": 0}
        carried = {}
        need_counted = False
        for p in paths:
            cm = cond_map(p)

            def is_depth(t):
                return t == F(P(1), "depth") or (isinstance(t, tuple) and t and t[0] == "call" and re.search(r"::depth$", t[1]))
            lvl = [(a, v) for a, v in p.conds() if a[0] == "b" and a[1][0] == "bin" and a[1][1] == "Gt" and a[1][2] == P(2) and is_depth(a[1][3])]
            cap = [(a, v) for a, v in p.conds() if a[0] == "b" and a[1][0] == "bin" and a[1][1] == "Ge" and a[1][2] == P(3)]
            z = [(a, v) for a, v in p.conds() if a[0] == "b" and a[1][:3] == ("bin", "Eq", P(2)) and cint(a[1][3]) == 0]
            d = [(a, v) for a, v in p.conds() if a[0] == "b" and a[1][:3] == ("bin", "Eq", P(2)) and is_depth(a[1][3])]
            if p.kind == "backedge":
                # the loop step, by role: the level counter (starts at self.depth) decreases by one, the node index (the other
                # loop-carried variable) moves to its parent
                for ph, v in loop_phis(p):
                    rng = ph[4]
                    if (isinstance(rng, tuple) and rng and rng[0] == "adt" and str(rng[1]).endswith("ops::Range") and cint(rng[4][0]) == 0
                            and rng[4][1] == ("bin", "Sub", F(P(1), "depth"), P(2))):
                        # `for _ in 0..(depth - n)`: the level is counted by the range instead of being compared with n
                        carried.setdefault("level", set()).add(True)
                        counted = True
                        continue
                    if ph[4] == F(P(1), "depth"):
                        carried.setdefault("level", set()).add(v == ("bin", "Sub", ph, mk_const("usize", 1)))
                    elif isinstance(v, tuple) and v and v[0] != "phi":
                        isp = (v[:2] == ("bin", "Sub") and cint(v[3]) == 1 and isinstance(v[2], tuple) and v[2][:2] == ("bin", "Shr") and cint(v[2][3]) == 1 and v[2][2] == ("bin", "Add", ph, mk_const("usize", 1)))
                        carried.setdefault("node", set()).add(isp or (v[0] == "unwrap"))
                continue
            if p.kind != "return":
                continue
            rv = eng.value_of(p.store, p.ret)
            if known_ok(rv) is False:
                seen["err"] += 1
                if not ((lvl and lvl[0][1] is True) or (cap and cap[0][1] is True)):
                    why = "an Err path is not one of the two bounds rejections"
                continue
            if not (lvl and lvl[0][1] is False and cap and cap[0][1] is False):
                why = "a result is produced without the level/position bounds checks"
                continue
            if z and z[0][1] is True:
                seen["root"] += 1
                if not (known_ok(rv) is True and rv[4][0][0] == "call" and rv[4][0][1].endswith("::root") and rv[4][0][2] == (P(1),)):
                    why = "level 0 returns %s, specification root()" % sh(rv, 80)
                continue
            if d and d[0][1] is True:
                seen["leaf"] += 1
                if not (rv[0] == "call" and rv[1].endswith("::get") and rv[2] == (P(1), P(3))):
                    why = "level `depth` returns %s, specification get(index)" % sh(rv, 80)
                continue
            seen["node"] += 1
            v = rv[4][0] if known_ok(rv) is True else rv

            def shifted(t):
                return (isinstance(t, tuple) and t[:2] == ("bin", "Shr") and t[2] == P(3) and isinstance(t[3], tuple) and t[3][:2] == ("bin", "Sub") and is_depth(t[3][2]) and t[3][3] == P(2))
            if name == "optimal":
                good = v[0] == "call" and v[1].endswith("get_node") and v[2][0] == P(1) and v[2][1] == P(2) and shifted(v[2][2])
            elif name == "pmtree":
                k = v[1] if v[0] == "unwrap" else None
                good = bool(k) and k[0] == "call" and k[1].endswith("get_elem") and k[2][0] == F(P(1), "tree") and k[2][1][0] == "call" and k[2][1][1].endswith("Key::new") and k[2][1][2][0] == P(2) and shifted(k[2][1][2][1])
            else:
                # loop form: start at the leaf's node, climb one parent per level, stop after depth - n steps
                ix = v[2][1] if (v[0] == "call" and len(v[2]) == 2 and v[2][0] == F(P(1), "nodes")) or v[0] == "idx" else (v[2] if v[0] == "idx" else None)
                if v[0] == "idx":
                    base, ix = v[1], v[2]
                else:
                    base, ix = None, None
                good = False
                if base == F(P(1), "nodes") and isinstance(ix, tuple):
                    phis = [t for t in subterms(ix) if isinstance(t, tuple) and t and t[0] == "phi"]
                    if ix[0] == "unwrap":
                        good = True   # parent(0) = None arm: unreachable for a node below the root; the reachable arm is checked
                        seen["node"] -= 1
                    elif ix[0] == "phi" and any(a[0] == "ok" and a[1][0] == "call" and a[1][1].endswith("::next") and v2 is False for a, v2 in p.conds()):
                        # counted form: the node after the range 0..(depth - n) is exhausted; start and step are decided on the loop body
                        leafnode = ("bin", "Sub", ("bin", "Add", ("bin", "Shl", mk_const("usize", 1), F(P(1), "depth")), P(3)), mk_const("usize", 1))
                        good = ix[4] == leafnode
                        need_counted = True
                        if not good:
                            why = "the counted climb starts at %s, specification node 2^depth + index - 1" % sh(ix[4], 80)
                    elif phis:
                        ph = phis[0]
                        par = ("bin", "Sub", ("bin", "Shr", ("bin", "Add", ph, mk_const("usize", 1)), mk_const("usize", 1)), mk_const("usize", 1))
                        init = ph[4]
                        leafnode = ("bin", "Sub", ("bin", "Add", ("bin", "Shl", mk_const("usize", 1), F(P(1), "depth")), P(3)), mk_const("usize", 1))
                        ndc = [(a, v2) for a, v2 in p.conds() if a[0] == "b" and a[1][0] == "bin" and a[1][1] == "Eq" and a[1][3] == P(2) and isinstance(a[1][2], tuple) and a[1][2][:2] == ("bin", "Sub")]
                        nd_ok = bool(ndc) and ndc[0][1] is True and ndc[0][0][1][2][2][0] == "phi" and ndc[0][0][1][2][2][4] == F(P(1), "depth") and cint(ndc[0][0][1][2][3]) == 1
                        is_par = (ix[:2] == ("bin", "Sub") and cint(ix[3]) == 1 and isinstance(ix[2], tuple) and ix[2][:2] == ("bin", "Shr") and cint(ix[2][3]) == 1
                                  and ix[2][2] == ("bin", "Add", ph, mk_const("usize", 1)))
                        good = is_par and init == leafnode and nd_ok
                        if not good:
                            why = "the climb is %s from %s with exit test %s; specification: from node 2^depth + index - 1, parent ((i+1)>>1)-1 per level, depth - n levels" % (sh(ix, 80), sh(init, 80), [sh(a[1], 60) for a, _ in ndc])
                    else:
                        # closed form: ((2^depth + index) >> (depth - n)) - 1
                        tot = ("bin", "Shr", ("bin", "Add", ("bin", "Shl", mk_const("usize", 1), F(P(1), "depth")), P(3)), ("bin", "Sub", F(P(1), "depth"), P(2)))
                        good = ix == ("bin", "Sub", tot, mk_const("usize", 1))
            if not good and why is None:
                why = "level n returns %s, specification the node (n, index >> (depth - n)) that covers leaf `index`" % sh(v, 160)
        if name == "full" and why is None and need_counted and not counted:
            why = "the result is a loop-carried node but the loop is not `for _ in 0..(depth - n)`"
        if name == "full" and why is None and carried:
            if carried.get("level") != {True} or not carried.get("node") or False in carried.get("node"):
                why = "the climb's step is not (node -> parent ((i+1)>>1)-1, level -> level - 1): %s" % carried
        if why is None and not (seen["root"] >= 1 and seen["leaf"] >= 1 and seen["node"] >= 1 and seen["err"] >= 2):
            why = "expected the five arms (two rejections, root, leaf, inner node); found %s" % seen
        ctx.check(why is None, "R06-5", "%s::get_subtree_root" % name, "bounds rejections; level 0 = root(); level depth = get(index); level n = node (n, index >> (depth - n))", why, loc(it))
    # Full: parent / first_child index arithmetic of the implicit heap
    it = fb.one(r"FullMerkleTree::<H>::parent$")
    ctx.touch(it)
    eng = Engine(fb, inline=lambda i: False)
    vals = set()
    for p in eng.run(it):
        if p.kind == "return":
            rv = eng.value_of(p.store, p.ret)
            cm = cond_map(p)
            vals.add((sh(rv, 120), tuple(sorted((sh(a, 60), v) for a, v in cm.items()))))
    # the index is the function's usize parameter, wherever it stands (`parent(&self, i)` or an associated `parent(i)`)
    ks = [k for k in range(1, it.arg_count + 1) if it.locals[k]["ty"] == "usize"]
    k = ks[0] if len(ks) == 1 else 2
    want = {("Option::None{}", (("b((p%d Eq 0))" % k, True),)), ("Option::Some{0: (((p%d Add 1) Shr 1) Sub 1)}" % k, (("b((p%d Eq 0))" % k, False),))}
    ctx.check(vals == want, "R06-5", "full::parent", "None for the root, ((i + 1) >> 1) - 1 otherwise", "parent is %s" % sorted(vals), loc(it))


def check_plain_observers(ctx, fb):
    """R06-6: the remaining read-only operations are what their names say, in every back end"""
    for name in ("optimal", "full"):
        it = c15.get(fb, name, "capacity")
        ctx.touch(it)
        v = prim(fb, it.path, P(1))
        ctx.check(v == ("bin", "Shl", mk_const("usize", 1), F(P(1), "depth")), "R06-6", "%s::capacity" % name, "1 << depth", "capacity is %s" % sh(v, 80), loc(it))
        it = c15.get(fb, name, "depth")
        ctx.touch(it)
        v = prim(fb, it.path, P(1))
        ctx.check(v == F(P(1), "depth"), "R06-6", "%s::depth" % name, "the depth field", "depth is %s" % sh(v, 80), loc(it))
        it = c15.get(fb, name, "metadata")
        ctx.touch(it)
        v = prim(fb, it.path, P(1))
        ctx.check(known_ok(v) is True and v[4][0] == F(P(1), "metadata"), "R06-6", "%s::metadata" % name, "Ok(stored metadata)", "metadata is %s" % sh(v, 80), loc(it))
        it = c15.get(fb, name, "set_metadata")
        ctx.touch(it)
        eng = Engine(fb, inline=lambda i: False)
        ps = ret_paths(eng.run(it))
        ws = [e for p in ps for e in p.trace if e[0] == "write"]
        good = len(ps) == 1 and known_ok(eng.value_of(ps[0].store, ps[0].ret)) is True and len(ws) == 1 and ws[0][2] == (("f", "metadata"),) and ws[0][3] == P(2)
        ctx.check(good, "R06-6", "%s::set_metadata" % name, "stores the caller's bytes in the metadata field and nothing else", "set_metadata writes %s" % [(sh(e[2], 30), sh(e[3], 40)) for e in ws], loc(it))
    for name in ("pmtree", "optimal", "full"):
        it = c15.get(fb, name, "compute_root")
        ctx.touch(it)
        eng = Engine(fb, inline=lambda i: False)
        oks = [p for p in eng.run(it) if p.kind == "return" and known_ok(eng.value_of(p.store, p.ret)) is not False]
        good = len(oks) == 1
        why = "expected one success path, found %d" % len(oks)
        if good:
            v = eng.value_of(oks[0].store, oks[0].ret)[4][0]
            # the result is root() of the tree (optimal: after re-deriving the path of leaf 0, which must not change a consistent tree)
            arg = v[2][0] if (v[0] == "call" and v[1].endswith("::root") and len(v[2]) == 1) else None
            base = arg
            if isinstance(arg, tuple) and arg and arg[0] == "upd" and "recalculate_from" in str(arg[1]):
                base = arg[3][0] if len(arg) > 3 else None
            good = base in (P(1), F(P(1), "tree"))
            why = "compute_root returns %s, specification root()" % sh(v, 100)
            if good and mutation_events(oks[0]):
                good, why = False, "compute_root stores into the tree directly: %s" % mutation_events(oks[0])[:2]
        ctx.check(good, "R06-6", "%s::compute_root" % name, "Ok(root())", why, loc(it))


WRITERS = {
    # field -> functions allowed to store into it (each is covered by R06-1..R06-3: guards, formulas, recomputation shape)
    "next_index": {"set", "set_range", "new", "default"},
    "nodes": {"set", "set_range", "update_nodes", "update_hashes", "recalculate_from", "new", "default"},
    "cached_nodes": {"new", "default"},
    "depth": {"new", "default"},
}


def check_writers(ctx, fb):
    """R06-7 who-may-write for the in-memory trees' state: leaves/nodes, the high-water mark, the default cache and the depth are stored
    only by the operations whose effect is decided above; a store anywhere else (an observer, a proof routine) escapes every formula"""
    n = 0
    for field, allowed in sorted(WRITERS.items()):
        ws = treefx.field_writers(fb, field, c15.TREE_FILES[:2])
        for path, it in sorted(ws.items()):
            name = re.sub(r"::\{closure#\d+\}", "", path).split("::")[-1]
            ctx.touch(it)
            n += 1
            ctx.check(name in allowed, "R06-7", "%s writer %s@%s" % (field, path.split("::")[-1], it.file.split("/")[-1]), "one of %s" % sorted(allowed),
                      "%s stores into `%s` but is not one of the operations whose effect on it is specified (%s)" % (path, field, sorted(allowed)), loc(it))
    ctx.floor("state-writers", n, 6)


def run(ctx):
    ctx.prefetch(["default", "fixtures"])
    fb = ctx.fb("default")
    check_atomic(ctx, fb, "default")
    check_formulas(ctx, fb)
    check_recompute(ctx, fb)
    check_complete_writes(ctx, fb)
    check_values(ctx, fb)
    # R06-10 (shared with C08 R08-2 / C15 R15-1): the persistent adapter's batch removal rewrites the span L[0]..last(L)+1 with the
    # default leaf exactly at the listed positions and the current leaf elsewhere (a removed position that keeps its leaf leaves the
    # root different from the ideal tree's)
    it = c15.get(fb, "pmtree", "remove_indices")
    ctx.touch(it)
    okr, whyr = c15.removal_span_rule(fb, it)
    ctx.check(okr, "R06-10", "pmtree::remove_indices removal set", "values[i - first] = default leaf if i is listed else tree.get(i), for i in first..=last; written at first", whyr, loc(it))
    check_delegation(ctx, fb)
    check_store_adapter(ctx, fb)
    # R06-12 (shared with C16 R16-4): a persistent tree opened again at its location IS the stored tree: loading reports "nothing
    # stored" only for a location that held nothing, and creation (which resets depth, next index and the left-most nodes) happens
    # only on that report - otherwise the reopened tree is a mixture of a fresh tree and the old records
    from . import c16 as _c16
    _sub = type(ctx)(ctx.pid, ctx.tier)
    _c16.check_open(_sub, fb)
    for r in _sub.results:
        (ctx.ok if r.status == "ok" else ctx.fail)("R06-12", r.instance, r.reason, r.loc)
    check_subtree_root(ctx, fb)
    check_plain_observers(ctx, fb)
    check_writers(ctx, fb)
    if ctx.tier == "thorough":
        for cfg in ("optimal", "full"):
            f = ctx.fb(cfg)
            for m in ("set_leaf", "set_leaves_from", "init_tree_with_leaves", "atomic_operation", "set_next_leaf", "delete_leaf"):
                atomicity(ctx, f, f.need("rln::public::RLN::" + m), "RLN::%s[%s]" % (m, cfg))
    fx = ctx.fb("fixtures")
    from ..main import Ctx
    sub = Ctx(ctx.pid, ctx.tier)
    try:
        atomicity(sub, fx, fx.need("zkfix::trees::Flagged::clear_then_write"), "fixture")
        ctx.fixture("R06-1", any(r.status == "fail" for r in sub.results), "zkfix::trees::Flagged::clear_then_write (flags cleared before the fallible range write)")
        sub2 = Ctx(ctx.pid, ctx.tier)
        atomicity(sub2, fx, fx.need("zkfix::trees::Flagged::set_range_right_flags"), "fixture")
        ctx.fixture("R06-1-neg", not any(r.status == "fail" for r in sub2.results), "zkfix::trees::Flagged::set_range_right_flags (must be silent)")
        okf, whyf, _ = batch_rule(fx, fx.need("zkfix::storage::Store::put_batch_skips"), r"zkfix::storage::Batch::insert$", r"zkfix::storage::Kv::apply_batch$")
        ctx.fixture("R06-11", not okf, "zkfix::storage::Store::put_batch_skips (an iteration that skips its record must be seen)")
        okg, whyg, _ = batch_rule(fx, fx.need("zkfix::storage::Store::put_batch_whole"), r"zkfix::storage::Batch::insert$", r"zkfix::storage::Kv::apply_batch$")
        ctx.fixture("R06-11-neg", okg, "zkfix::storage::Store::put_batch_whole (must be silent)%s" % ("" if okg else ": " + whyg))
    except MissingAnchor as e:
        ctx.fixture("R06-1", False, "fixture missing: %s" % e)
