"""C05 The witness-graph evaluator: determinism, independence of the order of named inputs, and well-formedness of the bundled
graph against the evaluator's unchecked preconditions."""
import os, re
from ..symex import Engine, show, subterms, contains
from ..lib import *
from ..facts import MissingAnchor
from .. import extract, resources
from . import c20, c19

INFO = {
    "level": "other",
    "explanation": "Decides only the second sentence of the property (determinism, independence of the order in which named inputs are "
                   "supplied) plus the well-formedness of the bundled graph against the preconditions the evaluator does not check. "
                   "R05-1 purity: the resolved call graph below calc_witness / calculate_rln_witness reaches no entropy, time, environment, "
                   "thread identity, lock, cell or global (the random evaluation helpers of the optimiser are not reachable from it). "
                   "R05-2 order independence: calc_witness collects the named inputs into a map and populate_inputs stores value[i] at "
                   "inputs_info[name].0 + i and nothing else (shared with C20 R20-4); with R05-3 (bundled graph.bin read by a pure-Python "
                   "reader): the declared input ranges are pairwise disjoint, inside the input buffer, exclude slot 0 (the constant 1), "
                   "cover the buffer, and their names and lengths equal the seven (name, vector) pairs inputs_for_witness_calculation "
                   "builds (lengths 1,1,1,20,20,1,1) - so no two names can write one slot whatever the iteration order. R05-4: every "
                   "operand index of graph.bin is a backward reference (the evaluator's assert_valid is commented out and it indexes "
                   "values[a] unchecked), every operator code is one eval_fr implements (set taken from C19's extraction on the current "
                   "tree), Input nodes form one contiguous run as get_inputs_size assumes, input indices are below the buffer size, "
                   "witness-signal indices are below the node count, stored constants are canonical (< p), the container is consumed "
                   "exactly and the trailer points at the metadata. R05-5 (shared with C19): the operators the graph is evaluated with realise circom's comparison table, reduce before from_bigint, guard division and shifts, and take integer quotient / remainder and the ring operations on the whole values. R05-5 includes C19 R19-7 (the conversions every evaluate input passes through are the identity on whole values).",
    "not_decided": "the first sentence: equality of the computed witness with the reference generator (rln.wasm) for every assignment - a "
                   "numeric fact about 22k field operations; operator arithmetic on boundary operands is C19's",
    "assumptions": ["the pure-Python protobuf reader in zkrules/resources.py implements the wire format of proto.rs (field numbers checked by C20)"],
}

GRAPH = "rln/resources/tree_height_20/graph.bin"
ENTRY = ["rln::circuit::iden3calc::calc_witness", "rln::circuit::calculate_rln_witness"]


def implemented_ops(fb):
    """{class: set of operator names eval_fr implements} from the current tree (C19 machinery)"""
    out = {}
    for cls, adt in (("Operation", "Operation"), ("UnoOperation", "UnoOperation"), ("TresOperation", "TresOperation")):
        names = [n for n, _ in sorted(c20.variants(fb, c20.G + adt), key=lambda x: x[1])]
        it = fb.need(c20.G + cls + "::eval_fr")
        am, other = c19.arms(fb, it)
        if not am and len(names) == 1:
            impl = {names[0]} if "return" in other else set()
        else:
            impl, _ = c19.implemented(am, names)
        out[cls] = (names, impl)
    return out


def witness_names(fb):
    """[(name, length term)] built by inputs_for_witness_calculation"""
    it = fb.need("rln::protocol::inputs_for_witness_calculation")
    eng = Engine(fb, inline=lambda i: False)
    res = None
    for p in ret_paths(eng.run(it)):
        rv = eng.value_of(p.store, p.ret)
        if rv[0] == "adt" and rv[2] == "Ok":
            arr = rv[4][0]
            if arr[0] == "array":
                res = []
                for el in arr[1]:
                    name = el[1][0][1] if el[0] == "tuple" and el[1][0][0] == "str" else None
                    res.append((name, el[1][1] if el[0] == "tuple" else None))
    return it, res


def vec_len(t):
    """static length of a vec term when it is a vec![x] literal, else the field it clones"""
    s = show(t)
    if isinstance(t, tuple) and t[0] == "call" and re.search(r"into_vec$|box_assume_init_into_vec_unsafe$", t[1]):
        a = t[2][0]
        if a[0] == "array":
            return len(a[1])
    if isinstance(t, tuple) and t[0] == "array":
        return len(t[1])
    for x in subterms(t):
        if x[0] == "field" and x[1] == P(1) and x[2][1] in ("path_elements", "identity_path_index"):
            return x[2][1]
    return None


def check_purity(ctx, fb, rule="R05-1"):
    """the witness calculation reaches no global, clock, RNG, environment or interior-mutable state: its result is a function of the
    request and of the graph bytes of the instance it is called on"""
    seen, ext, statics = reach(fb, ENTRY)
    bad = sorted(n for n in ext if any(re.search(d, n) for d in DENY_EFFECTS))
    for s in sorted(seen):
        ctx.analysed["functions"].add(s)
    ctx.check(not bad, rule, "purity[calc_witness]", "%d repository fns and %d external callees reachable, none on the effect deny-list" % (len(seen), len(ext)),
              "witness calculation reaches %s (first via %s): evaluation is no longer a function of the inputs and the graph alone" % (bad[:4], ext.get(bad[0]) if bad else ""))
    ctx.check(not statics, rule, "globals[calc_witness]", "no global state reached", "witness calculation reaches global state %s" % sorted(statics))
    ctx.check(not any("random_eval" in s or "value_numbering" in s for s in seen), rule, "optimiser not on the evaluation path", "random_eval/value_numbering unreachable",
              "the randomised optimiser passes are reachable from calc_witness")
    ctx.floor("reachable-functions", len(seen), 8)


def run(ctx):
    ctx.prefetch(["default", "fixtures"])
    fb = ctx.fb("default")
    check_purity(ctx, fb)
    # ---- R05-5 (shared with C19 R19-2..R19-6): the operators the bundled graph is evaluated with follow circom's semantics
    from . import c19
    from ..main import Ctx as _Ctx5
    sub5 = _Ctx5(ctx.pid, ctx.tier)
    c19.check_compare(sub5, fb)
    c19.check_sinks(sub5, fb)
    c19.check_guards(sub5, fb)
    c19.check_intdiv(sub5, fb)
    c19.check_ring_ops(sub5, fb)
    c19.check_conversions(sub5, fb)
    for r in sub5.results:
        (ctx.ok if r.status == "ok" else ctx.fail)("R05-5", r.instance, r.reason, r.loc)
    # ---- R05-2 order independence of placement (rule shared with C20)
    from ..main import Ctx
    sub = Ctx(ctx.pid, ctx.tier)
    c20.check_evaluate(sub, fb)
    for r in sub.results:
        if r.rule == "R20-4" and r.instance.startswith(("populate_inputs", "get_inputs_buffer", "evaluate outputs")):
            (ctx.ok if r.status == "ok" else ctx.fail)("R05-2", r.instance, r.reason, r.loc)
    cw = fb.need(ENTRY[0])
    ctx.touch(cw)
    eng = Engine(fb, inline=lambda i: False)
    good = False
    why = "shape"
    for p in ret_paths(eng.run(cw)):
        calls = [c[1] for c in p.calls()]
        pop = p.calls(r"iden3calc::populate_inputs$")
        ev = p.calls(r"graph::evaluate$")
        des = p.calls(r"storage::deserialize_witnesscalc_graph$")
        if len(pop) == 1 and len(ev) == 1 and len(des) == 1:
            g = ("unwrap", ("call", des[0][1], des[0][2]))
            a = pop[0][2]
            okmap = a[1] == F(g, "2")
            okbuf = ev[0][2][0] == F(g, "0") and ev[0][2][2] == F(g, "1")
            src = a[0]
            okin = any(s == P(1) for s in subterms(src)) and any(s[0] == "call" and s[1].endswith("::collect") or s[0] == "call" and "collect" in s[1] for s in subterms(("x", src))) or contains(src, P(1))
            good = okmap and okbuf and okin
            why = "populate_inputs(map=%s), evaluate(nodes=%s, outputs=%s)" % (sh(a[1], 60), sh(ev[0][2][0], 60), sh(ev[0][2][2], 60))
    ctx.check(good, "R05-2", "calc_witness wiring", "inputs -> map; placement by the graph's own input map; evaluate(nodes, buffer, witness signals) of the same decoded graph", why, loc(cw))
    # ---- R05-3 / R05-4 the bundled graph
    path = os.path.join(extract.REPO, GRAPH)
    try:
        g = resources.read_graph(path)
    except Exception as e:
        ctx.fail("R05-4", "graph.bin readable", "cannot read %s: %s" % (GRAPH, e))
        return
    nodes = g["nodes"]
    ctx.check(g["consumed"] == g["size"] and g["trailer"] == g["metadata_offset"], "R05-4", "container", "%d bytes consumed exactly; trailer = metadata offset %d" % (g["size"], g["trailer"]),
              "container not consumed exactly (%d of %d) or trailer %d != metadata offset %d" % (g["consumed"], g["size"], g["trailer"], g["metadata_offset"]))
    ops = implemented_ops(fb)
    fwd = []
    badop = []
    cnt = {}
    for i, n in enumerate(nodes):
        cnt[n[0]] = cnt.get(n[0], 0) + 1
        if n[0] == "DuoOp":
            names, impl = ops["Operation"]
            if n[1] >= len(names) or names[n[1]] not in impl:
                badop.append((i, n))
            refs = n[2:4]
        elif n[0] == "UnoOp":
            names, impl = ops["UnoOperation"]
            if n[1] >= len(names) or names[n[1]] not in impl:
                badop.append((i, n))
            refs = n[2:3]
        elif n[0] == "TresOp":
            names, impl = ops["TresOperation"]
            if n[1] >= len(names) or names[n[1]] not in impl:
                badop.append((i, n))
            refs = n[2:5]
        else:
            refs = ()
        if any(r >= i for r in refs):
            fwd.append((i, n))
    ctx.check(not fwd, "R05-4", "backward references", "%d operator nodes, every operand index below the node's own index" % (cnt.get("DuoOp", 0) + cnt.get("UnoOp", 0) + cnt.get("TresOp", 0)),
              "graph.bin has forward/self references at %s: evaluate() would index values[] out of bounds" % fwd[:3])
    ctx.check(not badop, "R05-4", "operators implemented", "operator codes used: %s, all implemented by eval_fr on this tree" % sorted(set(ops["Operation"][0][n[1]] for n in nodes if n[0] == "DuoOp")),
              "graph.bin uses operators eval_fr does not implement (unimplemented! panic): %s" % badop[:3])
    ins = [i for i, n in enumerate(nodes) if n[0] == "Input"]
    contiguous = ins == list(range(ins[0], ins[0] + len(ins))) if ins else False
    size = (max(nodes[i][1] for i in ins) + 1) if ins else 0
    ctx.check(contiguous, "R05-4", "input nodes contiguous", "Input nodes form one run [%s..%s] as get_inputs_size assumes" % (ins[0] if ins else None, ins[-1] if ins else None),
              "Input nodes are not one contiguous run: get_inputs_size stops at the first gap and under-sizes the buffer")
    ctx.check(all(s < len(nodes) for s in g["signals"]) and len(g["signals"]) > 0, "R05-4", "witness signals in range", "%d witness signals, all below %d nodes" % (len(g["signals"]), len(nodes)),
              "a witness signal index is >= the node count")
    consts = [n for n in nodes if n[0] == "Constant"]
    ctx.check(all(n[1] < c19.P_MOD for n in consts), "R05-4", "constants canonical", "%d constants, all below p" % len(consts), "a stored constant is >= p (it would be silently reduced)")
    # input map
    ranges = sorted((o, o + l, k) for k, (o, l) in g["inputs"].items())
    disjoint = all(ranges[i][1] <= ranges[i + 1][0] for i in range(len(ranges) - 1))
    inside = all(0 < a and b <= size for a, b, _ in ranges)
    cover = sum(b - a for a, b, _ in ranges) == size - 1
    ctx.check(disjoint and inside and cover, "R05-3", "input ranges", "%d named inputs: pairwise disjoint, inside the %d-slot buffer, slot 0 excluded, slots 1..%d covered" % (len(ranges), size, size - 1),
              "declared input ranges %s are not disjoint/inside 1..%d/covering: two names could write one slot (order dependence) or a slot stays 0" % (ranges, size))
    it, names = witness_names(fb)
    ctx.touch(it)
    ok = names is not None and len(names) == len(g["inputs"])
    why = "inputs_for_witness_calculation builds %s" % ([n for n, _ in names] if names else None)
    if ok:
        for name, vec in names:
            if name not in g["inputs"]:
                ok, why = False, "the prover supplies input `%s` which the bundled graph does not declare (declared: %s)" % (name, sorted(g["inputs"]))
                break
            ln = vec_len(vec)
            want = g["inputs"][name][1]
            if isinstance(ln, int) and ln != want:
                ok, why = False, "input `%s` is supplied with %d element(s), the graph declares %d" % (name, ln, want)
                break
            if isinstance(ln, str) and want != 20:
                ok, why = False, "input `%s` (from %s) is declared with length %d, the tree height is 20" % (name, ln, want)
                break
            if ln is None:
                ok, why = False, "cannot determine the length supplied for `%s`: %s" % (name, sh(vec, 100))
                break
    ctx.check(ok, "R05-3", "input names", "the 7 (name, vector) pairs of the prover equal the graph's declared names and lengths", why, loc(it))
    ctx.floor("graph-nodes", len(nodes), 20000)
    ctx.notes.append("graph.bin: %d nodes %s, %d witness signals, inputs %s" % (len(nodes), cnt, len(g["signals"]), g["inputs"]))
    # fixture: the reader must reject a forward reference (self-made container)
    import struct, tempfile
    def vint(x):
        o = b""
        while True:
            c = x & 0x7F
            x >>= 7
            o += bytes([c | (0x80 if x else 0)])
            if not x:
                return o
    duo = bytes([0x22, 4, 0x10, 5, 0x18, 0])  # DuoOp{op:0(Mul), a_idx:5, b_idx:0} at index 1
    inp = bytes([0x0A, 0])
    blob = resources.MAGIC + struct.pack("<Q", 2) + vint(len(inp)) + inp + vint(len(duo)) + duo + vint(0) + struct.pack("<Q", 0)
    tf = os.path.join(extract.CACHE, "fixture-graph.bin")
    open(tf, "wb").write(blob)
    fg = resources.read_graph(tf)
    ctx.fixture("R05-4", fg["nodes"][1] == ("DuoOp", 0, 5, 0) and fg["nodes"][1][2] >= 1, "hand-made container with a forward reference is decoded and the reference seen")
