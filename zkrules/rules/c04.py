"""C04 Published proof values equal the RLN formulas (expression DAG of proof_values_from_witness vs the specification)."""
import re
from ..symex import Engine, show, subterms, contains
from ..lib import *

INFO = {
    "level": "other",
    "explanation": "Decides the first sentence of C04 for ALL witnesses, modulo the meaning of the opaque callees poseidon_hash and the "
                   "field operators: the value-numbered expression DAG of proof_values_from_witness on its unique success path is compared "
                   "with the specification y = s + x*H[s,e,m], nullifier = H[H[s,e,m]], root = compute_tree_root(s, limit, path, bits), x and "
                   "external_nullifier carried through; compute_tree_root's loop summary is compared with leaf = H[H[s],limit], "
                   "node' = (bit_i == 0) ? H[node, pe_i] : H[pe_i, node] over i in 0..len(bits). A region-confined defect needs an extra "
                   "data-dependent branch or operation, both of which change the DAG / path set. R04-3: the byte order of "
                   "serialize_proof_values, its decoder and the verifier's public-input order are mutually consistent.",
    "r04_4": "R04-4: the native proving entry points publish exactly serialize_proof_values(proof_values_from_witness(W)) of the witness they prove",
    "r04_7": "R04-7 (shared with C11): the C proving entry points publish exactly the bytes the method produced, in a buffer of their own",
    "r04_8": "R04-8 (shared with C09 R09-4): the hash of the formulas has the Poseidon permutation shape",
    "r04_6": "R04-6 (shared with C05 R05-1): the witness calculation behind the circuit's outputs reaches no process-wide or thread-local state",
    "r04_5": "R04-5 (shared with C20 R20-4): the circuit's outputs are computed from the witness's own inputs: each named input vector is placed whole at its declared offset under an exact length test, the evaluator dispatches to the same-named operators, the outputs are the declared output signals",
    "not_decided": "equality with positions 1..5 of the circuit witness (needs evaluating the witness graph: numeric)",
    "assumptions": ["poseidon_hash and arkworks Fp +,* are the functions of the specification (C09 covers the hash's parameters and shape)"],
}

W = P(1)


def run(ctx):
    cfgs = ["default"] if ctx.tier == "quick" else ["default", "optimal", "stateless"]
    ctx.prefetch(cfgs + ["fixtures"])
    for cfg in cfgs:
        fb = ctx.fb(cfg)
        check_pvfw(ctx, fb, cfg, "rln::protocol::proof_values_from_witness", "rln::protocol::compute_tree_root")
        check_ctr(ctx, fb, cfg, "rln::protocol::compute_tree_root")
        check_orders(ctx, fb, cfg)
        # R04-4: what the proving entry points PUBLISH is serialize_proof_values(proof_values_from_witness(W)) of the very
        # witness they prove (rule shared with C01 R01-1)
        from . import c01
        from ..main import Ctx as _Ctx
        sub = _Ctx(ctx.pid, ctx.tier)
        c01.check_pipeline(sub, fb, cfg, "rln::public::RLN::generate_rln_proof_with_witness", False, True)
        if cfg != "stateless":
            c01.check_pipeline(sub, fb, cfg, "rln::public::RLN::generate_rln_proof", True, True)
        for r in sub.results:
            (ctx.ok if r.status == "ok" else ctx.fail)("R04-4", r.instance, r.reason, r.loc)
    # R04-5 (shared with C20 R20-4 / C05 R05-2): the circuit's outputs are computed from the witness's own inputs: every named input
    # vector is placed whole at its declared offset (exact length), the dispatch reaches the same-named operators and the outputs
    # are the declared output signals
    from . import c20
    from ..main import Ctx as _Ctx2
    sub = _Ctx2(ctx.pid, ctx.tier)
    c20.check_evaluate(sub, ctx.fb("default"))
    for r in sub.results:
        (ctx.ok if r.status == "ok" else ctx.fail)("R04-5", r.instance, r.reason, r.loc)
    # R04-6 (shared with C05 R05-1): the circuit's outputs are those of THIS instance's graph: the witness calculation reaches no
    # process-wide or thread-local state (a cached decoded graph would make them another circuit's)
    from . import c05
    sub6 = _Ctx2(ctx.pid, ctx.tier)
    c05.check_purity(sub6, ctx.fb("default"))
    for r in sub6.results:
        (ctx.ok if r.status == "ok" else ctx.fail)("R04-6", r.instance, r.reason, r.loc)
    # R04-7 (shared with C11): "published" includes the C surface: the proving wrappers publish exactly the bytes the method
    # produced, in a buffer of their own (R11-3)
    from . import c11
    k7 = 0
    for w in c11.wrappers(ctx.fb("default")):
        if w["name"] in ("prove", "generate_rln_proof", "generate_rln_proof_with_witness"):
            sub7 = _Ctx2(ctx.pid, ctx.tier)
            c11.check_wrapper(sub7, ctx.fb("default"), w, "default")
            k7 += 1
            for r in sub7.results:
                (ctx.ok if r.status == "ok" else ctx.fail)("R04-7", r.instance, r.reason, r.loc)
    ctx.floor("proving-ffi-wrappers", k7, 3)
    # R04-8 (shared with C09 R09-4): the H of the formulas is the Poseidon permutation shape (dense linear layer on every state,
    # no value-dependent branch)
    from . import c09
    sub8 = _Ctx2(ctx.pid, ctx.tier)
    c09.check_shape(sub8, ctx.fb("default"))
    for r in sub8.results:
        (ctx.ok if r.status == "ok" else ctx.fail)("R04-8", r.instance, r.reason, r.loc)
    fx = ctx.fb("fixtures")
    from ..main import Ctx
    for fn, rule, f in [("pvfw_region_branch", "R04-1", check_pvfw), ("pvfw_x_in_nullifier", "R04-1", check_pvfw),
                        ("ctr_swapped_arm", "R04-1b", check_ctr), ("ctr_skip_first", "R04-1b", check_ctr)]:
        sub = Ctx(ctx.pid, ctx.tier)
        if f is check_pvfw:
            f(sub, fx, "fixtures", "zkfix::proto::" + fn, "zkfix::proto::compute_tree_root", H=lambda *xs: call("zkfix::proto::poseidon_hash", ("array", tuple(xs))), opq=r"^zkfix::proto::poseidon_hash$")
        else:
            f(sub, fx, "fixtures", "zkfix::proto::" + fn, H=lambda *xs: call("zkfix::proto::poseidon_hash", ("array", tuple(xs))), opq=r"^zkfix::proto::poseidon_hash$")
        ctx.fixture(rule, any(r.status == "fail" for r in sub.results), "zkfix::proto::" + fn)


def check_pvfw(ctx, fb, cfg, fn, ctr, H=H, opq=r"^rln::hashers::poseidon_hash$"):
    it = fb.need(fn)
    ctx.touch(it)
    inst = "%s[%s]" % (fn, cfg)
    eng = Engine(fb, inline=opaque_rx(opq + "|" + re.escape(ctr) + "$"))
    paths = eng.run(it)
    oks = [p for p in ret_paths(paths) if is_ok_ret(eng, p)]
    if len(oks) != 1:
        ctx.fail("R04-1", inst, "specified as one formula for all inputs: found %d success paths (a data-dependent branch splits the input space): %s" % (
            len(oks), [[(sh(a, 80), v) for a, v in p.conds()] for p in oks][:3]), loc(it))
        return
    p = oks[0]
    # only the message-id range guard may condition the success path
    def shape_guard(a, v):
        # rejecting guards on the shape of the Merkle path (equal vector lengths, binary direction values): they can only
        # turn a request into Err; the formula on the success path is unchanged
        t = a[1]
        if a[0] != "b" or not isinstance(t, tuple):
            return False
        if t[0] == "bin" and t[1] in ("Ne", "Eq") and set(t[2:]) == {("len", F(W, "path_elements")), ("len", F(W, "identity_path_index"))}:
            return (t[1] == "Ne") == (v is False)
        # "every direction value is 0 or 1", whichever way it is spelled (any(> 1) false, all(matches 0 | 1) true, ...)
        return any(seq == F(W, "identity_path_index") and allowed == {0, 1} for seq, allowed, _ in forall_u8(fb, [(a, v)]))
    extra = [(a, v) for a, v in p.conds() if not (a[0] == "b" and a[1][0] == "cmp" and set(a[1][2:]) == {F(W, "message_id"), F(W, "user_message_limit")}) and not shape_guard(a, v)]
    if extra:
        ctx.fail("R04-1", inst, "success path is conditioned on %s besides the message-id range guard" % [(sh(a, 100), v) for a, v in extra], loc(it))
        return
    rv = eng.value_of(p.store, p.ret)[4][0]
    s, e, m, x = F(W, "identity_secret"), F(W, "external_nullifier"), F(W, "message_id"), F(W, "x")
    a1 = H(s, e, m)
    spec = {
        "y": ("fadd", *sorted([s, ("fmul", *sorted([x, a1], key=repr))], key=repr)),
        "nullifier": H(a1),
        "root": call(ctr, s, F(W, "user_message_limit"), F(W, "path_elements"), F(W, "identity_path_index")),
        "x": x,
        "external_nullifier": e,
    }
    if not (rv[0] == "adt" and rv[1].endswith("RLNProofValues")):
        ctx.fail("R04-1", inst, "success value is not an RLNProofValues aggregate: %s" % sh(rv), loc(it))
        return
    got = dict(zip(rv[3], rv[4]))
    bad = [k for k in spec if got.get(k) != spec[k]]
    if bad:
        ctx.fail("R04-1", inst, "; ".join("%s = %s, specification %s" % (k, sh(got.get(k), 160), sh(spec[k], 160)) for k in bad), loc(it))
        return
    # non-interference corollaries
    nul = got["nullifier"]
    if contains(nul, x):
        ctx.fail("R04-1", inst, "nullifier depends on x", loc(it))
        return
    ctx.ok("R04-1", inst, "y, nullifier, root, x, external_nullifier equal the specification DAG on the single success path", loc(it))


def is_ok_ret(eng, p):
    rv = eng.value_of(p.store, p.ret)
    return isinstance(rv, tuple) and rv and rv[0] == "adt" and rv[2] == "Ok"


def check_ctr(ctx, fb, cfg, fn, H=H, opq=r"^rln::hashers::poseidon_hash$"):
    it = fb.need(fn)
    ctx.touch(it)
    inst = "%s[%s]" % (fn, cfg)
    eng = Engine(fb, inline=opaque_rx(opq))
    paths = eng.run(it)
    rets = ret_paths(paths)
    backs = [p for p in paths if p.kind == "backedge"]
    where = loc(it)
    if len(rets) != 1 or len(set(p.loop for p in backs)) != 1:
        ctx.fail("R04-1b", inst, "specified as one fold over the direction bits: found %d return paths, %d loops" % (
            len(rets), len(set(p.loop for p in backs))), where)
        return
    s, limit, pe, bits = P(1), P(2), P(3), P(4)
    rv = eng.value_of(rets[0].store, rets[0].ret)
    if not (rv[0] == "phi" and rv[4] == H(H(s), limit)):
        ctx.fail("R04-1b", inst, "result must be the folded accumulator initialised with H[H[s], limit]; found %s" % sh(rv, 200), where)
        return
    accname = rv[3]
    i = ("i", mk_const("usize", 0), ("len", bits))
    spec = {True: H(rv, ("idx", pe, i)), False: H(("idx", pe, i), rv)}
    seen = {}
    for b in backs:
        cm = [(norm_loopvars(a), v) for a, v in b.conds()]
        acc = norm_loopvars(carried_value(it, b, accname))
        bitc = [(a, v) for a, v in cm if a[0] == "b" and a[1][0] == "bin" and a[1][1] == "Eq"]
        other = [(a, v) for a, v in cm if not (a[0] == "ok") and (a, v) not in bitc]
        if len(bitc) != 1 or other:
            ctx.fail("R04-1b", inst, "loop iteration must branch exactly on (bit_i == 0); found conditions %s" % [(sh(a, 80), v) for a, v in cm], where)
            return
        a, v = bitc[0]
        if a[1][2:] != (("idx", bits, i), mk_const("u8", 0)):
            ctx.fail("R04-1b", inst, "direction test is %s, specification bits[i] == 0 with i over 0..len(bits)" % sh(a, 120), where)
            return
        if acc != spec[v]:
            ctx.fail("R04-1b", inst, "arm bit_i %s 0 computes %s, specification %s" % ("==" if v else "!=", sh(acc, 160), sh(spec[v], 160)), where)
            return
        seen[v] = True
    if set(seen) != {True, False}:
        ctx.fail("R04-1b", inst, "fold lacks one of the two direction arms", where)
        return
    ctx.ok("R04-1b", inst, "fold(bits, H[H[s],limit], bit==0 ? H[acc,pe_i] : H[pe_i,acc]) over i in 0..len(bits)", where)


def check_orders(ctx, fb, cfg):
    """R04-3 (shared with C10/C02): writer order, reader order and public-input order"""
    inst = "proof-value-orders[%s]" % cfg
    ser = fb.need("rln::protocol::serialize_proof_values")
    ctx.touch(ser)
    v = prim(fb, "rln::protocol::serialize_proof_values", None)
    fr = lambda f: prim(fb, "rln::utils::fr_to_bytes_le", F(P(1), f))
    want = ("cat",) + tuple(fr(f) for f in ["root", "external_nullifier", "x", "y", "nullifier"])
    if v != want:
        ctx.fail("R04-3", inst, "serialize_proof_values writes %s, documented order [root|external_nullifier|x|y|nullifier]" % sh(v, 300), loc(ser))
        return
    des = prim(fb, "rln::protocol::deserialize_proof_values", P(1))
    FR = lambda lo: prim(fb, "rln::utils::bytes_le_to_fr", sl(P(1), lo, lo + 32))[1][0]
    got = dict(zip(des[1][0][3], des[1][0][4]))
    wantd = {"root": FR(0), "external_nullifier": FR(32), "x": FR(64), "y": FR(96), "nullifier": FR(128)}
    if got != wantd or des[1][1] != mk_const("usize", 160):
        ctx.fail("R04-3", inst, "deserialize_proof_values decodes %s" % {k: sh(x, 80) for k, x in got.items()}, loc(fb.need("rln::protocol::deserialize_proof_values")))
        return
    ctx.ok("R04-3", inst, "writer, reader agree on [root|external_nullifier|x|y|nullifier] at 32-byte strides (160 bytes)", loc(ser))
