"""C14 Identities satisfy the commitment relations; seeded ones are a deterministic function of the seed bytes alone."""
import re
from ..symex import Engine, show, subterms, subst
from ..lib import *

INFO = {
    "level": "other",
    "explanation": "Decides the relations for ALL seeds and all randomness as expression-DAG equalities: keygen/seeded_keygen return "
                   "(r1, H[r1]); extended_keygen/extended_seeded_keygen return (r1, r2, H[r1,r2], H[H[r1,r2]]) with r1, r2 the first and second "
                   "Fr::rand draw of one generator (R14-1); the seeded and unseeded DAGs are identical up to the generator (sibling rule); the "
                   "seeded generator is ChaCha20Rng::from_seed(keccak256(seed[all bytes])) and the seeded functions reach no other source of "
                   "entropy, time, environment or global state (R14-2, effect inventory over the resolved callees on every path); the four "
                   "RLN::*key_gen entry points write the tuple components in order through fr_to_bytes_le and pass the whole input to the "
                   "generator (R14-3). FFI pass-through is C11. R14-4 (shared with C09): the hash of the commitment relations is pure (no state shared between threads) and has the specified permutation shape.",
    "not_decided": "distinctness of identities for distinct seeds / unseeded calls (probabilistic), the documented reference identities (pinned by tests)",
    "assumptions": ["Fr::rand, ChaCha20Rng::from_seed, Keccak::v256 are deterministic functions of their arguments (library semantics)"],
}

RAND = r"ark_ff::UniformRand>?::rand"


def draws(t):
    return [s for s in subterms(t) if s[0] == "call" and re.search(RAND, s[1])]


def strip_names(t):
    if not isinstance(t, tuple):
        return t
    if t and t[0] in ("call", "upd") and isinstance(t[1], str):
        return (t[0], t[1].split("@")[0]) + tuple(strip_names(x) for x in t[2:])
    return tuple(strip_names(x) for x in t)


def gen_of(fb, fn, H=H, opq=r"^rln::hashers::poseidon_hash$"):
    it = fb.need(fn)
    eng = Engine(fb, inline=opaque_rx(opq))
    paths = eng.run(it)
    return it, eng, paths


def check_keygen(ctx, fb, cfg, fn, extended, seeded, H=H, opq=r"^rln::hashers::poseidon_hash$"):
    it, eng, paths = gen_of(fb, fn, H, opq)
    ctx.touch(it)
    inst = "%s[%s]" % (fn, cfg)
    rets = ret_paths(paths)
    if len(paths) != 1 or len(rets) != 1:
        ctx.fail("R14-1", inst, "specified as straight-line: found %d paths" % len(paths), loc(it))
        return None
    rv = eng.value_of(rets[0].store, rets[0].ret)
    ds = draws(rv)
    rname = ds[0][1] if ds else "?"
    if seeded:
        digest = None
        g0 = None
        for s in subterms(rv):
            if s[0] == "call" and re.search(r"SeedableRng>?::from_seed", s[1]):
                g0 = s
        want_digest = ("upd", "<tiny_keccak::Keccak as tiny_keccak::Hasher>::finalize", 1,
                       (("upd", "<tiny_keccak::Keccak as tiny_keccak::Hasher>::update", 0, (call("tiny_keccak::Keccak::v256"), P(1))),
                        ("repeat", mk_const("u8", 0), "32")))
        if g0 is None or g0[2] != (want_digest,) or "ChaCha20Rng" not in g0[1]:
            # tolerate the i32-typed zero of `[0; 32]`
            alt = None
            if g0 is not None and g0[2] and g0[2][0][0] == "upd":
                d = g0[2][0]
                if d[1].endswith("Hasher>::finalize") and d[3][0] == want_digest[3][0] and d[3][1][0] == "repeat" and cint(d[3][1][1]) == 0 and str(d[3][1][2]).startswith("32"):
                    alt = True
            if not (alt and "ChaCha20Rng" in g0[1]):
                ctx.fail("R14-2", inst, "generator is %s, specification ChaCha20Rng::from_seed(keccak256(seed[all]))" % sh(g0, 200), loc(it))
                return None
    else:
        g0 = call("rand::thread_rng")
        if not any(s == g0 for s in subterms(rv)):
            g0 = None
            for s in subterms(rv):
                if s[0] == "call" and s[1].endswith("thread_rng"):
                    g0 = s
            if g0 is None:
                ctx.fail("R14-2", inst, "unseeded generator is not thread_rng()", loc(it))
                return None
    r1 = ("call", rname, (g0,))
    g1 = ("upd", rname, 0, (g0,))
    r2 = ("call", rname, (g1,))
    spec = ("tuple", (r1, H(r1))) if not extended else ("tuple", (r1, r2, H(r1, r2), H(H(r1, r2))))
    if rv != spec:
        ctx.fail("R14-1", inst, "returns %s, specification %s" % (sh(rv, 400), sh(spec, 300)), loc(it))
        return None
    # effect inventory
    allowed = [RAND, r"^rln::hashers::poseidon_hash$", r"proto::poseidon_hash$"] + (
        [r"Keccak::v256$", r"Hasher>::update$", r"Hasher>::finalize$", r"SeedableRng>?::from_seed"] if seeded else [r"thread_rng$"])
    for c in rets[0].calls():
        if not any(re.search(a, c[1]) for a in allowed):
            ctx.fail("R14-2", inst, "reaches %s, outside the specified effect set (a seeded identity must depend on the seed bytes alone)" % c[1], loc(it, c[3]))
            return None
    ctx.ok("R14-1", inst, "relations hold on the single path; generator %s; %d draws" % ("ChaCha20(keccak(seed))" if seeded else "thread_rng", 2 if extended else 1), loc(it))
    return strip_names(subst(rv, {g0: ("GEN",)}))


def check_export(ctx, fb, cfg, fn, gen, n, seeded):
    it = fb.need(fn)
    ctx.touch(it)
    inst = "%s[%s]" % (fn, cfg)
    eng = Engine(fb, inline=opaque_rx(r"^rln::protocol::\w*keygen$"), max_depth=4)
    paths = eng.run(it)
    outp = 3 if seeded else 2
    good = 0
    for p in ret_paths(paths):
        apps = [e for e in p.trace if e[0] == "append" and e[1][0] == p.frame and e[1][1] in (outp, -outp)]
        rv = eng.value_of(p.store, p.ret)
        if not (rv[0] == "adt" and rv[2] == "Ok"):
            if apps and False:
                pass
            continue
        arg = ()
        if seeded:
            I = find_input(p, 2)
            if I is None:
                ctx.fail("R14-3", inst, "seed is not read from input_data", loc(it))
                return
            arg = (I,)
        t = call(gen, *arg)
        want = [prim(fb, "rln::utils::fr_to_bytes_le", F(t, str(i))) for i in range(n)]
        got = []
        for a in apps:
            # one write of a concatenation is the same output as several writes of its parts
            if isinstance(a[3], tuple) and a[3] and a[3][0] == "cat":
                got.extend(a[3][1:])
            else:
                got.append(a[3])
        if got != want:
            ctx.fail("R14-3", inst, "writes %s, specification fr_to_bytes_le of components 0..%d of %s(%s) in order" % (
                [sh(a[3], 120) for a in apps], n - 1, gen.split("::")[-1], "whole input" if seeded else ""), loc(it))
            return
        extra = [(a, v) for a, v in p.conds() if not (a[0] == "ok" and a[1][0] == "call" and re.search(r"read_to_end$|write_all$", a[1][1]))]
        if extra:
            ctx.fail("R14-3", inst, "export is conditioned on %s" % [(sh(a, 100), v) for a, v in extra], loc(it))
            return
        good += 1
    ctx.check(good == 1, "R14-3", inst, "tuple components exported in order through fr_to_bytes_le", "expected exactly one success path, found %d" % good, loc(it))


def run(ctx):
    cfgs = ["default"] if ctx.tier == "quick" else ["default", "stateless"]
    ctx.prefetch(cfgs + ["fixtures"])
    for cfg in cfgs:
        fb = ctx.fb(cfg)
        a = check_keygen(ctx, fb, cfg, "rln::protocol::keygen", False, False)
        b = check_keygen(ctx, fb, cfg, "rln::protocol::seeded_keygen", False, True)
        c = check_keygen(ctx, fb, cfg, "rln::protocol::extended_keygen", True, False)
        d = check_keygen(ctx, fb, cfg, "rln::protocol::extended_seeded_keygen", True, True)
        if a is not None and b is not None:
            ctx.check(a == b, "R14-1s", "keygen~seeded_keygen[%s]" % cfg, "identical up to the generator", "seeded and unseeded variants differ beyond the generator")
        if c is not None and d is not None:
            ctx.check(c == d, "R14-1s", "extended_keygen~extended_seeded_keygen[%s]" % cfg, "identical up to the generator", "seeded and unseeded variants differ beyond the generator")
        check_export(ctx, fb, cfg, "rln::public::RLN::key_gen", "rln::protocol::keygen", 2, False)
        check_export(ctx, fb, cfg, "rln::public::RLN::extended_key_gen", "rln::protocol::extended_keygen", 4, False)
        check_export(ctx, fb, cfg, "rln::public::RLN::seeded_key_gen", "rln::protocol::seeded_keygen", 2, True)
        check_export(ctx, fb, cfg, "rln::public::RLN::seeded_extended_key_gen", "rln::protocol::extended_seeded_keygen", 4, True)
    # R14-4 (shared with C09 R09-3 / R09-4): the H of the commitment relations is a pure function with the specified permutation shape
    # (no cache or other state shared between threads on the hashing path)
    from . import c09
    from ..main import Ctx as _Ctx4
    sub4 = _Ctx4(ctx.pid, ctx.tier)
    c09.check_entries(sub4, ctx.fb("default"))
    c09.check_shape(sub4, ctx.fb("default"))
    for r in sub4.results:
        (ctx.ok if r.status == "ok" else ctx.fail)("R14-4", r.instance, r.reason, r.loc)
