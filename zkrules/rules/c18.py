"""C18 Results do not depend on thread count or interleaving: Send/Sync witnesses, global and interior-mutability inventory,
read-only entry points reach no shared mutable state, data-parallel closures share nothing mutable, bounded open-with-retry."""
import re
from ..symex import Engine, show, subterms, contains, known_ok
from ..lib import *
from ..facts import MissingAnchor
from .. import witness

INFO = {
    "level": "other",
    "explanation": "Decides absence of unsynchronised or hidden shared mutable state in the repository's own code (hence data-race freedom and "
                   "call-order independence of the read-only calls), independence of the data-parallel loops, and boundedness of the "
                   "open-with-retry. R18-1 compile witnesses: rln::public::RLN and the selected PoseidonTree are Send + Sync in the "
                   "default, optimal and stateless configurations (type-checked against /repo), with a twin holding a Cell that must fail "
                   "with E0277. R18-2 inventory: the only statics of rln and zerokit_utils are the two immutable lazies ZKEY and POSEIDON "
                   "(no static mut), no workspace type has a field of an interior-mutable or lock type (Cell, RefCell, UnsafeCell, Mutex, "
                   "RwLock, Atomic*, OnceCell), and the resolved call graph below the read-only entry points (verify*, hash, poseidon_hash, "
                   "*key_gen seeded, get_root/get_leaf/get_proof/leaves_set/get_empty_leaves_indices/get_metadata) reaches no lock, atomic, "
                   "cell, thread-local or static mut in repository code; every `&self` entry point takes the tree by shared reference. "
                   "R18-3 the closures handed to the cfg_iter*/for_each loops of the witness map capture only shared references "
                   "(no &mut, no lock, no atomic): each iteration writes its own item only, so the result cannot depend on the pool size. "
                   "R18-4 SledDB::new_with_tries (recursive or counted-loop form): at most 10 attempts, another attempt only after the WouldBlock error, "
                   "the wait before attempt k+1 is 10^k ms, and Database::new / Database::load start at attempt 0. R18-4 also: Database::new / load open the location only through the retrying opener, exactly once on every path (no direct sled::Config::open). R18-5 (shared, C20 R20-4): the named inputs of the witness calculation come from a HashMap whose order differs per thread; each is stored whole into its own declared region under an exact length test, so the order cannot matter.",
    "not_decided": "deadlock freedom and timing of sled and pmtree internals (their own locks and rayon pools), bit-identity across pool "
                   "sizes of third-party parallel code, and behaviour under actual contention (dynamic)",
    "assumptions": ["Send/Sync auto-trait checking by rustc; arkworks' parallel iterators are deterministic given independent items"],
}

INTERIOR = re.compile(r"\b(Cell|RefCell|UnsafeCell|OnceCell|Mutex|RwLock|Condvar|Atomic\w+|LazyCell|thread_local)\b")
ALLOWED_STATICS = {
    "rln::circuit::ZKEY": "lazy_static: immutable proving key, initialised once from the embedded bytes",
    "rln::<circuit::ZKEY as std::ops::Deref>::deref::__stability::LAZY": "lazy_static's backing cell for ZKEY (Once-guarded)",
    "rln::hashers::POSEIDON": "once_cell Lazy: immutable Poseidon parameters",
}
READ_ONLY = ["rln::public::RLN::verify", "rln::public::RLN::verify_rln_proof", "rln::public::RLN::verify_with_roots", "rln::public::RLN::recover_id_secret",
             "rln::public::hash", "rln::public::poseidon_hash", "rln::public::RLN::seeded_key_gen", "rln::public::RLN::seeded_extended_key_gen",
             "rln::public::RLN::get_root", "rln::public::RLN::get_leaf", "rln::public::RLN::get_proof", "rln::public::RLN::leaves_set",
             "rln::public::RLN::get_empty_leaves_indices", "rln::public::RLN::get_metadata", "rln::public::RLN::get_subtree_root",
             "rln::public::RLN::get_serialized_rln_witness", "rln::public::RLN::get_rln_witness_json"]
DENY = [r"Mutex", r"RwLock", r"RefCell", r"std::cell::Cell", r"UnsafeCell", r"Atomic", r"thread_local", r"LocalKey", r"std::thread::spawn", r"rayon::spawn"]


def check_witness(ctx):
    cfgs = ["default", "optimal", "stateless"]
    for cfg in cfgs:
        r = witness.run(cfg)
        errs = re.findall(r"error(?:\[E\d+\])?: [^\n]*", r["log"])[:3]
        ctx.check(r["ok"], "R18-1", "RLN: Send + Sync[%s]" % cfg, "type-checks (%ss)" % r["wall_s"],
                  "under `%s` an RLN instance (or its tree) is no longer Send + Sync, so it cannot be shared between threads: %s" % (cfg, errs))
    r = witness.run("default", "neg_sync")
    ctx.fixture("R18-1:neg_sync", (not r["ok"]) and "E0277" in r["codes"], "twin with a Cell field must fail with E0277 (got ok=%s codes=%s)" % (r["ok"], r["codes"]))


def check_inventory(ctx, fb):
    n = 0
    for p, it in sorted(fb.items.items()):
        if it.kind != "Static" or it.crate not in ("rln", "zerokit_utils"):
            continue
        n += 1
        if it.get("static_mut"):
            ctx.fail("R18-2", "static " + p, "`static mut` %s: unsynchronised global mutable state" % p, loc(it))
        elif p.split("@")[0] in ALLOWED_STATICS:
            ctx.ok("R18-2", "static " + p, ALLOWED_STATICS[p.split("@")[0]], loc(it))
        else:
            ctx.fail("R18-2", "static " + p, "new global `%s` of type %s: results may depend on call order or interleaving (the inventory allows only the two "
                     "immutable lazies ZKEY and POSEIDON)" % (p, it.get("ty")), loc(it))
    ctx.floor("statics", n, 2)
    # interior mutability in workspace types
    m = 0
    for p, a in sorted(fb.adts.items()):
        if a.get("derive") or not (p.startswith("rln::") or p.startswith("zerokit_utils::")):
            continue
        if "::_::" in p or "<" in p.split("::")[1 if p.count("::") else 0][:1]:
            continue
        for v in a["variants"]:
            for f in v["fields"]:
                m += 1
                if INTERIOR.search(f["ty"]):
                    ctx.fail("R18-2", "field %s.%s" % (p, f["name"]), "field of type %s: interior-mutable / lock state inside a repository type (hidden shared state for `&self` callers)" % f["ty"],
                             "%s:%s" % (a.get("file"), a.get("line")))
    ctx.ok("R18-2", "interior-mutability inventory", "%d fields of repository types inspected, none interior-mutable" % m)
    ctx.floor("adt-fields", m, 60)


def check_readonly(ctx, fb, cfg):
    k = 0
    for fn in READ_ONLY:
        it = fb.items.get(fn)
        if it is None:
            if cfg == "stateless":
                continue
            raise MissingAnchor(fn)
        k += 1
        ctx.touch(it)
        seen, ext, statics = reach(fb, [fn])
        bad = sorted(n for n in ext if any(re.search(d, n) for d in DENY))
        bad_st = sorted(s for s in statics if s.split("@")[0] not in ALLOWED_STATICS)
        selfty = it.locals[1]["ty"] if it.arg_count >= 1 else ""
        shared = not selfty.startswith("&mut")
        inst = "%s[%s]" % (fn, cfg)
        if bad:
            ctx.fail("R18-2", inst, "reaches %s (via %s): lock/atomic/cell state on a read-only path in repository code" % (bad[:3], ext.get(bad[0])), loc(it))
        elif bad_st:
            ctx.fail("R18-2", inst, "reaches global state %s" % bad_st, loc(it))
        elif fn.startswith("rln::public::RLN::") and not shared and not fn.endswith(("verify_rln_proof", "get_metadata")) and False:
            ctx.fail("R18-2", inst, "takes &mut self", loc(it))
        else:
            ctx.ok("R18-2", inst, "%d repository fns, %d external callees reachable; none on the shared-state deny list; statics: %s; receiver %s" % (
                len(seen), len(ext), sorted(s.split("::")[-1] for s in statics), selfty or "-"), loc(it))
    ctx.floor("read-only-entry-points[%s]" % cfg, k, 7 if cfg == "stateless" else 9)
    # receivers: the read-only API must be callable through a shared reference
    need_shared = ["verify", "verify_rln_proof", "verify_with_roots", "get_root", "get_leaf", "get_proof", "get_empty_leaves_indices", "get_metadata"]
    # (RLN::leaves_set takes &mut self by design: exclusive access is enforced by the borrow checker, which is not a race)
    for nme in need_shared:
        it = fb.items.get("rln::public::RLN::" + nme)
        if it is None:
            continue
        ty = it.locals[1]["ty"]
        ctx.check(ty.startswith("&") and not ty.startswith("&mut"), "R18-2", "receiver %s[%s]" % (nme, cfg), "&self",
                  "RLN::%s takes %s: a read-only query that needs exclusive access cannot be issued concurrently on a shared instance" % (nme, ty), loc(it))


def check_parallel(ctx, fb):
    parent = r"circuit::qap::CircomReduction as ark_groth16::r1cs_to_qap::R1CSToQAP>::"
    cls = [it for p, it in sorted(fb.items.items()) if it.kind == "Closure" and re.search(parent, p)]
    for it in cls:
        ctx.touch(it)
        ups = it.get("upvars") or []
        bad = [u for u in ups if u.startswith("&mut") or INTERIOR.search(u) or u.startswith("*mut")]
        # the closure must not call anything with shared-state effects either
        seen, ext, statics = reach(fb, [it.path])
        eff = sorted(n for n in ext if any(re.search(d, n) for d in DENY))
        ctx.check(not bad and not eff and not statics, "R18-3", it.path.split(">::")[-1], "captures %s: shared references only; no lock/atomic/global reached" % ups,
                  "parallel loop body captures %s / reaches %s %s: a shared accumulator makes the result depend on the schedule" % (bad or ups, eff, sorted(statics)), loc(it))
    ctx.floor("parallel-closures", len(cls), 1)


def strip_widen(t):
    """u64::from(x) / x as u64 -> x"""
    while isinstance(t, tuple) and t:
        if t[0] == "cast":
            t = t[2]
        elif t[0] == "call" and re.search(r"convert::(From|Into)<.*>::(from|into)$|::from$|::into$", t[1]) and len(t[2]) == 1:
            t = t[2][0]
        else:
            break
    return t


def check_retry(ctx, fb):
    """open-with-retry contract, in either of its two shapes (recursion on a counter parameter, or a counted loop):
    at most 10 attempts; another attempt only after the WouldBlock error; the k-th wait is 10^k ms; the first attempt is k = 0"""
    it = fb.need("zerokit_utils::pm_tree::sled_adapter::SledDB::new_with_tries")
    ctx.touch(it)
    eng = Engine(fb, inline=lambda i: False)
    paths = eng.run(it)
    ok = True
    why = ""
    retries = 0
    form = None
    start_param = False
    for p in paths:
        opens = p.calls(r"sled::Config::open$|sled::config::Config::open$")
        selfc = p.calls(r"SledDB::new_with_tries$")
        counter = None
        # recursion form: the counter is the second parameter, guarded by `tries >= N` before every open
        guard = [(a, v) for a, v in p.conds() if a[0] == "b" and a[1][0] == "bin" and a[1][2] == P(2) and a[1][1] in ("Ge", "Gt", "Lt", "Le")]
        # loop form: the counter is the item of `for k in 0..N`
        items = [a[1] for a, v in p.conds() if a[0] == "ok" and v is True and range_var(("unwrap", a[1])) is not None]
        if items:
            lo, hi = range_var(("unwrap", items[0]))
            form = "loop"
            counter = ("unwrap", items[0])
            # the count starts at 0, or at the counter parameter (which the callers must then pass as 0: checked below)
            bounded = (cint(lo) == 0 or lo == P(2)) and cint(hi) is not None and cint(hi) <= 10
            start_param = start_param or lo == P(2)
            if opens and not bounded:
                ok, why = False, "attempts are counted over %s..%s, specification 0..10" % (sh(lo, 30), sh(hi, 30))
        elif opens:
            form = form or "recursion"
            counter = P(2)
            g = guard[0] if guard else None
            ub = const_upper_bound(p.conds(), P(2))
            bounded = ub is not None and ub <= 10
            if not bounded:
                ok, why = False, "the store is opened on a path not dominated by `tries < 10` (guard: %s)" % (sh(g[0], 60) if g else None)
        again = bool(selfc) or (p.kind == "backedge" and bool(opens))
        if len(opens) > 1:
            ok, why = False, "the store is opened twice on one path without passing the attempt counter"
        for c in selfc:
            if len(c[2]) < 2 or c[2][1] != ("bin", "Add", P(2), mk_const("u32", 1)):
                ok, why = False, "recursive call passes %s, specification tries + 1" % sh(c[2][1:], 60)
        if again:
            retries += 1
            wb = [(a, v) for a, v in p.conds() if a[0] == "b" and a[1][0] == "call" and a[1][1].endswith("::contains") and any(x == ("str", "WouldBlock") for x in a[1][2])]
            if not (wb and wb[-1][1] is True):
                ok, why = False, "another attempt is made after an error other than WouldBlock"
            sl_ = p.calls(r"std::thread::sleep$")
            if len(sl_) != 1:
                ok, why = False, "a retry path sleeps %d times, specification once (10^k ms)" % len(sl_)
            else:
                d = sl_[0][2][0]
                arg = d[2][0] if (d[0] == "call" and d[1].endswith("Duration::from_millis") and d[2]) else None
                good = (isinstance(arg, tuple) and arg and arg[0] == "call" and arg[1].endswith("::pow") and len(arg[2]) == 2
                        and cint(strip_widen(arg[2][0])) == 10 and strip_widen(arg[2][1]) == counter)
                if not good:
                    ok, why = False, "the wait before attempt k+1 is %s, specification from_millis(10^k) with k the attempt counter: the total time the opener keeps trying changes" % sh(d, 140)
    ctx.check(ok and retries == 1, "R18-4", "new_with_tries", "%s form: at most 10 attempts, another attempt on WouldBlock only, wait 10^k ms before attempt k+1" % form,
              why or "expected exactly one retry site, found %d" % retries, loc(it))
    for rx, nm in [(r"SledDB as (vacp2p_)?pmtree::Database>::new$", "new"), (r"SledDB as (vacp2p_)?pmtree::Database>::load$", "load")]:
        nw = fb.one(rx)
        ctx.touch(nw)
        e2 = Engine(fb, inline=lambda i: False)
        starts = set()
        direct, counts = [], set()
        for p in e2.run(nw):
            if p.kind == "unreachable":
                continue
            for c in p.calls(r"SledDB::new_with_tries$"):
                starts.add(c[2][1] if len(c[2]) > 1 else None)
            counts.add(len(p.calls(r"SledDB::new_with_tries$")))
            direct += p.calls(r"sled::Config::open$")
        ctx.check(not direct and counts == {1}, "R18-4", "every open retries (Database::%s)" % nm,
                  "Database::%s opens the location only through the retrying opener, once on every path" % nm,
                  "Database::%s %s: a location whose lock is still held by a closing handle is not waited for on that path" % (
                      nm, "calls sled::Config::open directly" if direct else "makes %s calls to new_with_tries on its paths" % sorted(counts)),
                  loc(nw, direct[0][3] if direct else None))
        want = {None} if (form == "loop" and not start_param) else {mk_const("u32", 0)}
        ctx.check(starts == want, "R18-4", "retry starts at 0 (Database::%s)" % nm, "Database::%s opens through new_with_tries starting at attempt 0" % nm,
                  "retry counter starts at %s" % [sh(s, 40) for s in starts], loc(nw))


def run(ctx):
    cfgs = ["default"] if ctx.tier == "quick" else ["default", "optimal", "stateless"]
    ctx.prefetch(cfgs + ["fixtures"])
    check_witness(ctx)
    fb = ctx.fb("default")
    check_inventory(ctx, fb)
    for cfg in cfgs:
        check_readonly(ctx, ctx.fb(cfg), cfg)
    check_parallel(ctx, fb)
    check_retry(ctx, fb)
    # R18-5 (shared with C20 R20-4 / C05 R05-2): the named inputs live in a HashMap whose iteration order differs per thread and per
    # map: the witness is independent of that order only because every input is stored whole into its own declared region under an
    # exact length test (an over-long input spilling into its neighbour makes the result depend on which of the two is visited last)
    from . import c20 as _c20
    _sub = type(ctx)(ctx.pid, ctx.tier)
    _c20.check_evaluate(_sub, fb)
    for r in _sub.results:
        (ctx.ok if r.status == "ok" else ctx.fail)("R18-5", r.instance, r.reason, r.loc)
    # fixtures: a static mut and an interior-mutable field must be seen
    fx = ctx.fb("fixtures")
    sm = [p for p, it in fx.items.items() if it.kind == "Static" and it.get("static_mut")]
    ctx.fixture("R18-2:static-mut", bool(sm), "zkfix::tables::FLAG is a static mut and must be inventoried")
    cell = [p for p, a in fx.adts.items() for v in a["variants"] for f in v["fields"] if INTERIOR.search(f["ty"])]
    ctx.fixture("R18-2:interior", bool(cell), "zkfix::storage::Memo has a RefCell field and must be inventoried")
