"""C20 Any well-formed witness graph evaluates as specified and survives storage: codec tables, node codec, container framing,
evaluator dispatch shape, input placement."""
import re
from ..symex import Engine, show, subterms, contains, known_ok
from ..lib import *
from ..facts import MissingAnchor

INFO = {
    "level": "other",
    "explanation": "Decides the storage round trip as codec agreement and the evaluator's dispatch as a shape, for every graph, not the numeric "
                   "result. R20-1: the operator tables From<proto::{Duo,Uno,Tres}Op> for graph::{Operation,UnoOperation,TresOperation} and "
                   "the reverse From<&..> impls are extracted from the MIR switch tables; both are total, name-preserving, mutually inverse "
                   "(20/2/1 entries) and the proto discriminants equal the upstream messages.proto numbering. R20-2: the node codec "
                   "From<proto::Node> for graph::Node and From<&graph::Node> for proto::node::Node agree per variant on the field positions "
                   "(idx; a_idx,b_idx,c_idx <-> tuple positions 1,2,3), on the operator table used, and constants are little-endian bytes on "
                   "both sides. R20-3: container framing: writer [magic | u64 LE node count | count x length-delimited node | "
                   "length-delimited metadata | u64 LE offset] against reader [14-byte magic compared with the same constant, else Err | u64 LE "
                   "count | count x read_message<proto::Node> -> into graph::Node, pushed in order | read_message<GraphMetadata>], metadata "
                   "fields witness_signals and inputs{offset,len} mapped both ways field-to-field; read_message reads exactly the "
                   "decoded length and read_message_length pushes back exactly the bytes after the varint. R20-4: evaluate has one arm per "
                   "Node variant with operands values[a] (values = results pushed so far, in node order) and returns values[outputs[i]] for "
                   "i in 0..len(outputs), in order; get_inputs_buffer sets slot 0 to 1; populate_inputs stores value[i] at offset+i with "
                   "(offset,len) looked up by the same key and writes nothing else (so the result cannot depend on map iteration order "
                   "when declared ranges are disjoint). R20-6 (shared with C19 R19-2..R19-5): the operators the evaluator dispatches to realise circom's signed comparison table, reduce before every from_bigint, guard division and modulo by zero, bound the whole shift amount before any truncated read, and take integer quotient and remainder on the whole values. R20-7 (shared with C05 R05-1): evaluation reaches no thread-local or process-wide state. R20-6 includes C19 R19-7.",
    "not_decided": "agreement of evaluation with a reference interpretation on arbitrary DAGs (numeric; the operator arithmetic is C19's), "
                   "WriteBackReader's reversed-buffer arithmetic (only its fill-or-EOF contract is decided, R20-5), prost's encoding itself",
    "assumptions": ["prost encode_length_delimited/decode_length_delimiter/Message::decode are mutually inverse", "byteorder read_u64/write_u64 with the same endianness type are inverse"],
}

G = "rln::circuit::iden3calc::graph::"
PR = "rln::circuit::iden3calc::proto::"
ST = "rln::circuit::iden3calc::storage::"
# upstream messages.proto numbering (iden3/circom-witnesscalc @5cb365b, protos/messages.proto)
SPEC = {
    "DuoOp": ["Mul", "Div", "Add", "Sub", "Pow", "Idiv", "Mod", "Eq", "Neq", "Lt", "Gt", "Leq", "Geq", "Land", "Lor", "Shl", "Shr", "Bor", "Band", "Bxor"],
    "UnoOp": ["Neg", "Id"],
    "TresOp": ["TernCond"],
}
FAMILIES = [("DuoOp", "Operation"), ("UnoOp", "UnoOperation"), ("TresOp", "TresOperation")]
# graph::Node variant -> (proto::node::Node variant, proto struct, {tuple position: proto field})
NODE_SPEC = {
    "Input": ("Input", "InputNode", {0: "idx"}),
    "UnoOp": ("UnoOp", "UnoOpNode", {1: "a_idx"}),
    "Op": ("DuoOp", "DuoOpNode", {1: "a_idx", 2: "b_idx"}),
    "TresOp": ("TresOp", "TresOpNode", {1: "a_idx", 2: "b_idx", 3: "c_idx"}),
}
OPFAM = {"UnoOp": ("UnoOp", "UnoOperation"), "Op": ("DuoOp", "Operation"), "TresOp": ("TresOp", "TresOperation")}


def is_conv(name, a, b):
    """`name` is the conversion A -> B of this crate, spelled `x.into()` (the blanket impl, when the engine could not follow it) or
    `B::from(x)` (the workspace's `impl From<A> for B`)"""
    return ("Into" in name and name.endswith("@[%s, %s]" % (a, b))) or name.endswith("<impl std::convert::From<%s> for %s>::from" % (a, b)) \
        or name.endswith("<%s as std::convert::From<%s>>::from" % (b, a))


def variants(fb, path):
    a = fb.adts.get(path)
    if a is None:
        raise MissingAnchor("ADT " + path)
    return [(v["name"], int(v["discr"])) for v in a["variants"]]


def enum_map(fb, item):
    """{source discriminant: returned variant name} of a `match x { A => K::A, .. }` function; None if not of that shape"""
    eng = Engine(fb, inline=lambda i: False)
    paths = eng.run(item)
    out = {}
    for p in paths:
        if p.kind != "return":
            return None
        cs = [(a, v) for a, v in p.conds()]
        if len(cs) != 1 or cs[0][0] != ("d", P(1)) or cs[0][1][0] != "eq":
            if len(paths) == 1 and not cs:
                rv = eng.value_of(p.store, p.ret)
                if rv[0] == "adt":
                    return {0: rv[2]}
            return None
        rv = eng.value_of(p.store, p.ret)
        if rv[0] != "adt" or rv[4]:
            return None
        out[cs[0][1][1]] = rv[2]
    return out


def find_impl(fb, src, dst, by_ref):
    rx = r"<impl std::convert::From<%scircuit::iden3calc::%s> for circuit::iden3calc::%s>::from$" % ("&" if by_ref else "", re.escape(src), re.escape(dst))
    return fb.one(rx)


def check_tables(ctx, fb):
    tables = {}
    n = 0
    for pname, gname in FAMILIES:
        pv = variants(fb, PR + pname)
        gv = variants(fb, G + gname)
        spec = SPEC[pname]
        ctx.check([n_ for n_, _ in sorted(pv, key=lambda x: x[1])] == spec and [d for _, d in sorted(pv, key=lambda x: x[1])] == list(range(len(spec))),
                  "R20-1", "proto::%s numbering" % pname, "%d variants numbered as upstream messages.proto" % len(spec),
                  "proto::%s is %s, upstream messages.proto numbering is %s" % (pname, sorted(pv, key=lambda x: x[1]), list(enumerate(spec))))
        dec_it = find_impl(fb, "proto::" + pname, "graph::" + gname, False)
        enc_it = find_impl(fb, "graph::" + gname, "proto::" + pname, True)
        ctx.touch(dec_it)
        ctx.touch(enc_it)
        dec = enum_map(fb, dec_it)
        enc = enum_map(fb, enc_it)
        if dec is None or enc is None:
            ctx.fail("R20-1", "%s<->%s shape" % (pname, gname), "operator conversion is not a plain variant-to-variant match (found extra conditions or computed results)",
                     loc(dec_it if dec is None else enc_it))
            continue
        pd = dict((d, n_) for n_, d in pv)
        gd = dict((d, n_) for n_, d in gv)
        gname2d = dict(gv)
        pname2d = dict(pv)
        for d, vn in sorted(pd.items()):
            n += 1
            got = dec.get(d)
            back = enc.get(gname2d.get(got, -1))
            ctx.check(got == vn and back == vn, "R20-1", "%s::%s" % (pname, vn), "decodes to %s::%s and encodes back to itself" % (gname, vn),
                      "proto::%s::%s decodes to %s::%s which encodes to proto::%s::%s (tables must be name-preserving and mutually inverse)" % (
                          pname, vn, gname, got, pname, back), loc(dec_it))
        extra = sorted(set(gd.values()) - set(pd.values()))
        ctx.check(not extra and len(enc) == len(gv) and len(dec) == len(pv), "R20-1", "%s<->%s totality" % (pname, gname),
                  "both directions total (%d entries)" % len(pv), "graph-side variants without a proto counterpart or partial table: %s (enc %d/%d, dec %d/%d)" % (
                      extra, len(enc), len(gv), len(dec), len(pv)))
        tables[gname] = (enc, dec, pname2d, gname2d)
    ctx.floor("operator-table-entries", n, 23)
    return tables


def check_node_codec(ctx, fb, tables):
    enc_it = fb.one(r"storage::<impl std::convert::From<&circuit::iden3calc::graph::Node> for circuit::iden3calc::proto::node::Node>::from$")
    dec_it = fb.one(r"storage::<impl std::convert::From<circuit::iden3calc::proto::Node> for circuit::iden3calc::graph::Node>::from$")
    ctx.touch(enc_it)
    ctx.touch(dec_it)
    gnode = dict(variants(fb, G + "Node"))
    pnode = dict(variants(fb, PR + "node::Node"))
    inl = lambda it: bool(re.search(r"From<&circuit::iden3calc::graph::\w+> for circuit::iden3calc::proto::\w+Op>::from$", it.path))
    # ---- encoder
    eng = Engine(fb, inline=inl)
    paths = eng.run(enc_it)
    seen = {}
    for p in paths:
        conds = p.conds()
        top = [v for a, v in conds if a == ("d", P(1))]
        if len(top) != 1 or top[0][0] != "eq":
            ctx.fail("R20-2", "encode shape", "encoder path is not selected by the node variant alone: %s" % [(sh(a, 80), v) for a, v in conds], loc(enc_it))
            return
        gvn = [k for k, d in gnode.items() if d == top[0][1]][0]
        seen.setdefault(gvn, []).append(p)
    n = 0
    for gvn, (pvn, pstruct, fields) in sorted(NODE_SPEC.items()):
        ps = seen.get(gvn, [])
        if not ps:
            ctx.fail("R20-2", "encode %s" % gvn, "no encoder arm for graph::Node::%s" % gvn, loc(enc_it))
            continue
        fam = OPFAM.get(gvn)
        for p in ps:
            n += 1
            if p.kind != "return":
                ctx.fail("R20-2", "encode %s" % gvn, "encoder arm diverges", loc(enc_it, p.site))
                break
            rv = eng.value_of(p.store, p.ret)
            src = ("as", P(1), gvn)
            want_fields = {}
            for pos, fname in fields.items():
                want_fields[fname] = ("cast", "u32", F(src, str(pos)))
            ok = rv[0] == "adt" and rv[1] == PR + "node::Node" and rv[2] == pvn and len(rv[4]) == 1 and rv[4][0][0] == "adt" and rv[4][0][1] == PR + pstruct
            why = ""
            if ok:
                inner = dict(zip(rv[4][0][3], rv[4][0][4]))
                for fname, w in want_fields.items():
                    if inner.get(fname) != w:
                        ok = False
                        why = "field %s receives %s, specification %s" % (fname, sh(inner.get(fname), 120), sh(w, 120))
                if ok and fam:
                    enc, dec, pd, gd = tables[fam[1]]
                    sel = [v for a, v in p.conds() if a == ("d", F(src, "0"))]
                    opv = inner.get("op")
                    if len(gd) == 1 and not sel:
                        sel = [("eq", 0)]
                    if len(sel) != 1 or sel[0][0] != "eq" or cint(opv) is None:
                        ok = False
                        why = "operator code is %s under %s: not a constant per operator" % (sh(opv, 80), sel)
                    else:
                        gname_ = [k for k, d in gd.items() if d == sel[0][1]][0]
                        if pd.get(gname_) != cint(opv):
                            ok = False
                            why = "%s::%s is written as operator code %s, the same-named proto variant has code %s" % (fam[1], gname_, cint(opv), pd.get(gname_))
                extra = set(inner) - set(want_fields) - ({"op"} if fam else set())
                if ok and extra:
                    ok = False
                    why = "unexpected fields %s" % sorted(extra)
            else:
                why = "produces %s" % sh(rv, 200)
            if not ok:
                ctx.fail("R20-2", "encode %s" % gvn, "graph::Node::%s -> proto: %s" % (gvn, why), loc(enc_it, p.site))
                break
        else:
            ctx.ok("R20-2", "encode %s" % gvn, "%d arm(s): variant %s, fields %s" % (len(ps), pvn, fields), loc(enc_it))
    # MontConstant: LE bytes
    ps = seen.get("MontConstant", [])
    ok = False
    got = None
    if len(ps) == 1 and ps[0].kind == "return":
        rv = eng.value_of(ps[0].store, ps[0].ret)
        got = rv
        try:
            big = rv[4][0][4][0][4][0][4][0]
            ok = rv[2] == "Constant" and rv[4][0][1] == PR + "ConstantNode" and rv[4][0][4][0][2] == "Some" and big[0] == "call" and big[1] == "num_bigint::BigUint::to_bytes_le" \
                and big[2][0][0] == "call" and "Into" in big[2][0][1] and "num_bigint::BigUint" in big[2][0][1] and big[2][0][2] == (F(("as", P(1), "MontConstant"), "0"),)
        except Exception:
            ok = False
    ctx.check(ok, "R20-2", "encode MontConstant", "Constant{value: Some(BigUInt{value_le: BigUint::from(c).to_bytes_le()})}",
              "MontConstant is written as %s; specification: little-endian bytes of the canonical integer" % sh(got, 300), loc(enc_it))
    cs = seen.get("Constant", [])
    ctx.check(all(p.kind == "diverge" for p in cs) and cs, "R20-2", "encode Constant", "refused (panics by design: only Montgomery constants are stored)",
              "graph::Node::Constant is written to storage as something", loc(enc_it))
    # ---- decoder
    eng2 = Engine(fb, inline=lambda i: False)
    paths = eng2.run(dec_it)
    body = ("unwrap", F(P(1), "node"))
    seen2 = {}
    for p in paths:
        if p.kind != "return":
            continue
        top = [v for a, v in p.conds() if a == ("d", body)]
        other = [(a, v) for a, v in p.conds() if a != ("d", body)]
        if len(top) != 1 or top[0][0] != "eq" or other:
            ctx.fail("R20-2", "decode shape", "decoder path is not selected by the proto variant alone: %s" % [(sh(a, 80), v) for a, v in p.conds()], loc(dec_it, p.site))
            return
        pvn = [k for k, d in pnode.items() if d == top[0][1]][0]
        seen2[pvn] = (p, eng2.value_of(p.store, p.ret))
    for gvn, (pvn, pstruct, fields) in sorted(NODE_SPEC.items()):
        n += 1
        if pvn not in seen2:
            ctx.fail("R20-2", "decode %s" % pvn, "no decoder arm for proto variant %s" % pvn, loc(dec_it))
            continue
        p, rv = seen2[pvn]
        msg = F(("as", body, pvn), "0")
        want = {}
        for pos, fname in fields.items():
            want[str(pos)] = ("cast", "usize", F(msg, fname))
        ok = rv[0] == "adt" and rv[1] == G + "Node" and rv[2] == gvn
        why = "produces %s" % sh(rv, 200)
        if ok:
            got = dict(zip(rv[3], rv[4]))
            for k, w in want.items():
                if got.get(k) != w:
                    ok = False
                    why = "tuple position %s receives %s, specification %s" % (k, sh(got.get(k), 120), sh(w, 120))
            fam = OPFAM.get(gvn)
            if ok and fam:
                o = got.get("0")
                good = o[0] == "call" and is_conv(o[1], "circuit::iden3calc::proto::%s" % fam[0], "circuit::iden3calc::graph::%s" % fam[1]) and \
                    o[2][0][0] == "unwrap" and o[2][0][1][0] == "call" and ("proto::%s as std::convert::TryFrom<i32>>::try_from" % fam[0]) in o[2][0][1][1] and \
                    o[2][0][1][2] == (F(msg, "op"),)
                if not good:
                    ok = False
                    why = "operator is %s, specification %s::from(proto::%s::try_from(msg.op))" % (sh(o, 200), fam[1], fam[0])
        ctx.check(ok, "R20-2", "decode %s" % pvn, "graph::Node::%s with positions %s" % (gvn, fields), "proto %s -> graph: %s" % (pvn, why), loc(dec_it, p.site))
    ok = False
    if "Constant" in seen2:
        p, rv = seen2["Constant"]
        msg = F(("as", body, "Constant"), "0")
        ok = rv[0] == "adt" and rv[2] == "MontConstant" and rv[4][0][0] == "call" and rv[4][0][1].endswith("PrimeField::from_le_bytes_mod_order") and \
            rv[4][0][2] == (F(("unwrap", F(msg, "value")), "value_le"),)
    ctx.check(ok, "R20-2", "decode Constant", "MontConstant(from_le_bytes_mod_order(value.value_le))",
              "Constant is decoded as %s" % (sh(seen2.get("Constant", (None, None))[1], 200)), loc(dec_it))
    ctx.check(set(seen2) == set(pnode), "R20-2", "decode totality", "one arm per proto node variant (%d)" % len(pnode),
              "decoder arms %s, proto variants %s" % (sorted(seen2), sorted(pnode)), loc(dec_it))
    ctx.floor("node-codec-arms", n, 8)


MAGIC = ("item", ST + "WITNESSCALC_GRAPH_MAGIC")


def magic_value(fb):
    it = fb.items.get(ST + "WITNESSCALC_GRAPH_MAGIC")
    if it is None:
        raise MissingAnchor("WITNESSCALC_GRAPH_MAGIC")
    eng = Engine(fb)
    ps = ret_paths(eng.run(it))
    v = eng.value_of(ps[0].store, ps[0].ret) if len(ps) == 1 else None
    return it, v


def closure_value(fb, path, args=None):
    it = fb.need(path)
    eng = Engine(fb, inline=lambda i: False)
    ps = eng.run(it, args=args)
    rets = ret_paths(ps)
    if len(ps) != 1 or len(rets) != 1:
        return it, None
    return it, eng.value_of(rets[0].store, rets[0].ret)


def check_framing(ctx, fb):
    mit, mv = magic_value(fb)
    mlen = len(mv[1]) if mv and mv[0] in ("bytes", "str") else None
    ctx.check(mv is not None and mv[0] == "bytes" and bytes(mv[1]) == b"wtns.graph.001", "R20-3", "magic", "b\"wtns.graph.001\" (%s bytes)" % mlen,
              "magic constant is %s" % sh(mv, 80), loc(mit))
    # ---------------- writer
    wit = fb.need(ST + "serialize_witnesscalc_graph")
    ctx.touch(wit)
    enc_node = r"From<&circuit::iden3calc::graph::Node> for circuit::iden3calc::proto::node::Node>::from$"
    eng = Engine(fb, inline=lambda i: False)
    paths = eng.run(wit)
    oks = [p for p in paths if p.kind == "return" and eng.value_of(p.store, p.ret)[0] == "adt" and eng.value_of(p.store, p.ret)[2] == "Ok"]
    backs = [p for p in paths if p.kind == "backedge"]
    inst = "serialize_witnesscalc_graph"
    if len(oks) != 1 or len(backs) != 1:
        ctx.fail("R20-3", inst, "expected one success path and one loop-body path, found %d and %d" % (len(oks), len(backs)), loc(wit))
        return
    p = oks[0]
    ev = [e for e in p.trace if e[0] == "append" and e[1][1] in (1, -1) or (e[0] == "call" and "write_u" in e[1]) or (e[0] == "call" and "encode" in e[1] and "encoded_len" not in e[1])]
    seq = []
    for e in ev:
        if e[0] == "append":
            seq.append(("bytes", e[3]))
        elif "write_u" in e[1]:
            seq.append((e[1].split("@")[0].split("::")[-1] + "@" + e[1].split("@")[1], e[2][1]))
        else:
            seq.append((e[1].split("@")[0].split("::")[-1], e[2][0]))
    md = None
    for kind, v in seq:
        if kind == "encode_length_delimited":
            md = v
    ptr_phi = [s for s in subterms(seq[-1][1]) if s[0] == "phi"] if seq else []
    want_kinds = ["bytes", "write_u64@[T/#0, byteorder::LittleEndian]", "encode_length_delimited", "bytes", "write_u64@[T/#0, byteorder::LittleEndian]"]
    ok = [k for k, _ in seq] == want_kinds
    why = "writes %s" % [(k, sh(v, 60)) for k, v in seq]
    if ok:
        c0 = eng.value_of(p.store, None)
        if seq[0][1] != MAGIC:
            ok, why = False, "first bytes written are %s, not the magic" % sh(seq[0][1], 80)
        elif seq[1][1] != ("cast", "u64", ("len", P(2))):
            ok, why = False, "count field is %s, specification nodes.len() as u64" % sh(seq[1][1], 80)
        elif not (seq[3][1][0] == "upd" and "encode_length_delimited" in seq[3][1][1] and seq[3][1][3][0] == md):
            ok, why = False, "bytes written after the nodes are %s, not the encoded metadata" % sh(seq[3][1], 120)
        elif not (seq[4][1][0] == "cast" and seq[4][1][2] in ptr_phi):
            ok, why = False, "trailer is %s, specification the running offset" % sh(seq[4][1], 80)
    ctx.check(ok, "R20-3", inst + " frame", "magic | u64 LE count | nodes... | length-delimited metadata | u64 LE offset", why, loc(wit))
    # metadata fields
    ok = False
    why = "metadata value is %s" % sh(md, 200)
    if md is not None and md[0] == "adt" and md[1] == PR + "GraphMetadata":
        f = dict(zip(md[3], md[4]))
        ws, inp = f.get("witness_signals"), f.get("inputs")
        ok = ws[0] == "call" and ws[1].endswith("Iterator::map") and ws[2][0] == P(3) and ws[2][1][0] == "closure" and \
            inp[0] == "call" and inp[1].endswith("Iterator::map") and inp[2][0][0] == "call" and inp[2][0][1].endswith("::iter") and inp[2][0][2] == (P(4),) and inp[2][1][0] == "closure"
        if ok:
            c0, v0 = closure_value(fb, ws[2][1][1])
            c1, v1 = closure_value(fb, inp[2][1][1])
            ctx.touch(c0)
            ctx.touch(c1)
            if v0 != ("cast", "u32", P(2)):
                ok, why = False, "witness signal written as %s, specification *x as u32" % sh(v0, 100)
            else:
                kv = P(2)
                want1 = ("tuple", (F(kv, "0"), ("adt", PR + "SignalDescription", "SignalDescription", ("offset", "len"),
                                               (("cast", "u32", F(F(kv, "1"), "0")), ("cast", "u32", F(F(kv, "1"), "1"))))))
                if v1 != want1:
                    ok, why = False, "input map entry written as %s, specification (k, {offset: v.0, len: v.1})" % sh(v1, 200)
    ctx.check(ok, "R20-3", inst + " metadata", "witness_signals <- signals as u32; inputs <- (name, {offset: v.0, len: v.1})", why, loc(wit))
    # loop body
    b = backs[0]
    encs = [e for e in b.trace if e[0] == "call" and "encode_length_delimited" in e[1]]
    apps = [e for e in b.trace if e[0] == "append" and e[1][1] in (1, -1)]
    ok = False
    why = "loop body encodes %s and writes %s" % ([sh(e[2][0], 100) for e in encs], [sh(a[3], 80) for a in apps])
    if len(encs) == 1 and len(apps) >= 1:
        v = encs[0][2][0]
        elem = None
        try:
            frm = v[4][0][4][0]
            ok = v[0] == "adt" and v[1] == PR + "Node" and v[4][0][2] == "Some" and frm[0] == "call" and re.search(enc_node, frm[1]) and \
                frm[2][0][0] == "unwrap" and frm[2][0][1][0] == "call" and frm[2][0][1][1].endswith("Iterator>::next") and frm[2][0][1][2] == (P(2),)
        except Exception:
            ok = False
        last = apps[-1][3]
        if ok and not (last[0] == "upd" and "encode_length_delimited" in last[1] and last[3][0] == v):
            ok, why = False, "bytes written in the loop are %s, not this node's encoding" % sh(last, 120)
        # the running offset, by role: the loop-carried integer that grows by the length of what was just written
        ptrs = [(ph, v) for ph, v in loop_phis(b) if isinstance(v, tuple) and any(s[0] == "len" and s[1] == last for s in subterms(v)) and ph in list(subterms(v))]
        ptr = ptrs[0][1] if len(ptrs) == 1 else None
        PTRPHI = ptrs[0][0] if len(ptrs) == 1 else None
        if ok and not (ptr is not None):
            ok, why = False, "running offset becomes %s, specification ptr + encoded length" % sh(ptr, 120)
    ctx.check(ok, "R20-3", inst + " node loop", "each node of `nodes`, in order: proto::Node{Some(from(node))} length-delimited, offset advanced", why, loc(wit))
    ptr0 = None
    for e in b.trace:
        if e[0] == "loop":
            break
    if PTRPHI is not None:
        ptr0 = PTRPHI[4]
    if ptr0 is not None and mlen is not None:
        from ..symex import subst, fold_bin
        ptr0 = subst(ptr0, {("len", MAGIC): mk_const("usize", mlen)})
        if ptr0[0] == "bin" and cint(ptr0[2]) is not None and cint(ptr0[3]) is not None:
            ptr0 = fold_bin(ptr0[1], ptr0[2], ptr0[3])
    ctx.check(cint(ptr0) == (mlen or 0) + 8, "R20-3", inst + " offset base", "offset starts at len(magic) + 8 = %s" % cint(ptr0),
              "offset starts at %s, the header is %s + 8 bytes" % (sh(ptr0, 60), mlen), loc(wit))
    # ---------------- reader
    rit = fb.need(ST + "deserialize_witnesscalc_graph")
    ctx.touch(rit)
    eng = Engine(fb, inline=lambda i: False)
    paths = eng.run(rit)
    oks = [p for p in paths if p.kind == "return" and eng.value_of(p.store, p.ret)[0] == "adt" and eng.value_of(p.store, p.ret)[2] == "Ok"]
    backs = [p for p in paths if p.kind == "backedge"]
    inst = "deserialize_witnesscalc_graph"
    if len(oks) != 1 or len(backs) != 1:
        ctx.fail("R20-3", inst, "expected one success path and one loop-body path, found %d and %d" % (len(oks), len(backs)), loc(rit))
        return
    p = oks[0]
    calls = [e for e in p.trace if e[0] == "call"]
    names = [c[1] for c in calls]
    ok = True
    why = ""
    rex = [c for c in calls if c[1].endswith("Read::read_exact")]
    cm = cond_map(p)
    if not (len(rex) == 1 and rex[0][2][1][0] == "repeat" and str(rex[0][2][1][2]).startswith(str(mlen))):
        ok, why = False, "magic is not read with read_exact into a %s-byte buffer" % mlen
    else:
        eqs = [a for a, v in cm.items() if a[0] == "b" and a[1][0] == "eq" and MAGIC in a[1][1:] and v is True]
        if not eqs or not any(t[0] == "upd" and "read_exact" in t[1] for t in eqs[0][1][1:]):
            ok, why = False, "success path does not require the bytes read to equal the magic constant"
    ru = [c for c in calls if "read_u" in c[1]]
    if ok and not (len(ru) == 1 and ru[0][1].endswith("read_u64@[circuit::iden3calc::storage::WriteBackReader<impl Read/#0>, byteorder::LittleEndian]")):
        ok, why = False, "node count is read with %s, the writer uses write_u64::<LittleEndian>" % [c[1] for c in ru]
    rms = [c for c in calls if "::read_message@" in c[1]]
    if ok and not (len(rms) == 1 and rms[0][1].endswith("proto::GraphMetadata]")):
        ok, why = False, "after the node loop the reader decodes %s, specification one GraphMetadata message" % [c[1] for c in rms]
    rv = eng.value_of(p.store, p.ret)
    if ok:
        tup = rv[4][0]
        mdv = ("unwrap", rms[0] and ("call", rms[0][1], rms[0][2]))
        nodes, ws, inp = tup[1]
        if not (nodes[0] == "phi" and isinstance(nodes[4], tuple) and nodes[4] and (nodes[4][0] == "vecnew" or (nodes[4][0] == "call" and re.search(r"Vec::<T>::(new|with_capacity)$", nodes[4][1])))):
            ok, why = False, "first component is %s, not the decoded node vector" % sh(nodes, 80)
        elif not (ws[0] == "call" and ws[1].endswith("Iterator::map") and ws[2][0] == F(mdv, "witness_signals") and ws[2][1][0] == "closure"):
            ok, why = False, "second component is %s, specification metadata.witness_signals mapped to usize" % sh(ws, 160)
        elif not (inp[0] == "call" and inp[1].endswith("Iterator::map") and inp[2][0][0] == "call" and inp[2][0][1].endswith("::iter") and inp[2][0][2] == (F(mdv, "inputs"),)):
            ok, why = False, "third component is %s, specification metadata.inputs mapped to (offset, len)" % sh(inp, 160)
        else:
            c0, v0 = closure_value(fb, ws[2][1][1])
            c1, v1 = closure_value(fb, inp[2][1][1])
            ctx.touch(c0)
            ctx.touch(c1)
            kv = P(2)
            want1 = ("tuple", (F(kv, "0"), ("tuple", (("cast", "usize", F(F(kv, "1"), "offset")), ("cast", "usize", F(F(kv, "1"), "len"))))))
            if v0 != ("cast", "usize", P(2)):
                ok, why = False, "witness signal read as %s" % sh(v0, 100)
            elif v1 != want1:
                ok, why = False, "input map entry read as %s, specification (k, (v.offset, v.len))" % sh(v1, 200)
    ctx.check(ok, "R20-3", inst + " frame", "magic check | u64 LE count | nodes | metadata -> (nodes, witness_signals, inputs{offset,len})", why, loc(rit))
    b = backs[0]
    ok = False
    rms = [c for c in b.trace if c[0] == "call" and "::read_message@" in c[1]]
    pushes = [e for e in b.trace if e[0] == "push"]
    rng = None
    for e in b.trace:
        if e[0] == "call" and e[1].endswith("Range<A>>::next"):
            it = e[2][0]
            if it[0] == "phi" and it[4][0] == "adt":
                rng = it[4][4]
    why = "loop body: %s" % [sh(("call", c[1], c[2]), 100) for c in rms]
    if len(rms) == 1 and rms[0][1].endswith("proto::Node]") and len(pushes) == 1:
        x = pushes[0][3]
        ok = x[0] == "call" and is_conv(x[1], "circuit::iden3calc::proto::Node", "circuit::iden3calc::graph::Node") and x[2] == (("unwrap", ("call", rms[0][1], rms[0][2])),)
        if ok and not (rng and cint(rng[0]) == 0 and rng[1][0] == "unwrap" and "read_u64" in rng[1][1][1]):
            ok, why = False, "loop runs over %s, specification 0..count" % sh(rng, 100)
    ctx.check(ok, "R20-3", inst + " node loop", "count x (read_message<proto::Node> -> graph::Node, pushed in order)", why, loc(rit))
    # ---------------- message framing helpers
    rm = fb.need(ST + "read_message")
    ctx.touch(rm)
    eng = Engine(fb, inline=lambda i: False)
    paths = eng.run(rm)
    # a success path returns Ok(decoded message) or hands on the decoder's own Result (`decode(..).map_err(..)`)
    oks = [p for p in paths if p.kind == "return" and known_ok(eng.value_of(p.store, p.ret)) is not False and p.calls(r"prost::Message::decode")]
    ok = False
    why = "expected one success path, found %d" % len(oks)
    if len(oks) == 1:
        p = oks[0]
        ln = ("unwrap", call(ST + "read_message_length", P(1)))
        cm = cond_map(p)
        eqc = [(a, v) for a, v in cm.items() if a[0] == "b" and a[1][0] == "bin" and a[1][1] in ("Ne", "Eq")]
        rd = [c for c in p.calls(r"Read>::read$|Read::read$")]
        dec = [c for c in p.calls(r"prost::Message::decode")]
        ok = len(rd) == 1 and len(dec) == 1 and len(eqc) == 1
        if ok:
            a, v = eqc[0]
            n_read = ("unwrap", ("call", rd[0][1], rd[0][2]))
            same = set(a[1][2:]) == {n_read, ln} and ((a[1][1] == "Ne" and v is False) or (a[1][1] == "Eq" and v is True))
            buf = rd[0][2][1]
            whole = dec[0][2][0]
            ok = same and any(s == ln for s in subterms(buf)) and whole[0] == "upd" and whole[2] == 1 and whole[3] == rd[0][2]
            why = "bytes_read compared: %s; decode argument %s" % (sh(a, 120), sh(whole, 120))
    ctx.check(ok, "R20-3", "read_message", "reads exactly the declared length (else Err) and decodes the whole buffer", why, loc(rm))
    rl = fb.need(ST + "read_message_length")
    ctx.touch(rl)
    eng = Engine(fb, inline=lambda i: False)
    paths = eng.run(rl)
    oks = [p for p in paths if p.kind == "return" and eng.value_of(p.store, p.ret)[0] == "adt" and eng.value_of(p.store, p.ret)[2] == "Ok"]
    good = 0
    why = ""
    for p in oks:
        rv = eng.value_of(p.store, p.ret)
        rd = p.calls(r"Read>::read$|Read::read$")
        dl = p.calls(r"prost::decode_length_delimiter$")
        ll = p.calls(r"prost::length_delimiter_len$")
        wr = [e for e in p.trace if e[0] == "append" and e[1][1] in (1, -1)]
        if not (len(rd) == 1 and len(dl) == 1 and len(ll) == 1):
            why = "shape"
            continue
        n_read = ("unwrap", ("call", rd[0][1], rd[0][2]))
        d = ("unwrap", ("call", dl[0][1], dl[0][2]))
        lnln = ("call", ll[0][1], ll[0][2])
        if rv[4][0] != d or ll[0][2] != (d,):
            why = "returns %s" % sh(rv, 100)
            continue
        cm = cond_map(p)
        lt = [(a, v) for a, v in cm.items() if a[0] == "b" and a[1][0] == "bin" and a[1][1] == "Lt" and a[1][2] == lnln and a[1][3] == n_read]
        if len(lt) != 1:
            why = "push-back is not conditioned on lnln < bytes_read"
            continue
        if lt[0][1] is True:
            if len(wr) == 1 and wr[0][3][0] == "slice" and wr[0][3][2] == lnln and wr[0][3][3] == n_read and wr[0][3][1] == dl[0][2][0]:
                good += 1
            else:
                why = "pushes back %s, specification buf[lnln..bytes_read]" % [sh(w[3], 100) for w in wr]
        else:
            if not wr:
                good += 1
    ctx.check(good == 2 and len(oks) == 2, "R20-3", "read_message_length", "returns the decoded delimiter and pushes back exactly buf[lnln..bytes_read]",
              "success paths %d, conforming %d: %s" % (len(oks), good, why), loc(rl))


def check_reader_contract(ctx, fb):
    """R20-5: read_message / read_message_length take the count returned by ONE call of WriteBackReader::read as 'all there
    is' (a short count is reported as EOF, a varint cut short is mis-decoded). That is only right if that read fills the
    buffer unless the underlying reader is at EOF - whatever reader the caller supplies (files and pipes return short reads)."""
    it = fb.one(r"WriteBackReader<R> as (ark_serialize|std::io)::Read>::read$")
    ctx.touch(it)
    eng = Engine(fb, inline=lambda i: False)
    bad = None
    n = 0
    for p in eng.run(it):
        if p.kind != "return":
            continue
        rv = eng.value_of(p.store, p.ret)
        if not (rv[0] == "adt" and rv[2] == "Ok"):
            continue
        n += 1
        cnt = rv[4][0]
        okp = False
        for a, v in p.conds():
            if a[0] != "b":
                continue
            t = a[1]
            if t[0] == "is_empty" and v is True and cint(cnt) == 0:
                okp = True          # empty destination
            if t[0] == "bin" and t[1] == "Lt" and t[2] == cnt and v is False and any(s[0] == "len" for s in subterms(t[3])):
                okp = True          # count reached the buffer length
            if t[0] == "bin" and t[1] == "Ge" and t[2] == cnt and v is True and any(s[0] == "len" for s in subterms(t[3])):
                okp = True
            if t[0] == "bin" and t[1] == "Eq" and cnt in t[2:] and v is True and any(s[0] == "len" for x in t[2:] if x != cnt for s in subterms(x)):
                okp = True          # count == buffer length
            if t[0] == "bin" and t[1] == "Eq" and cint(t[3]) == 0 and v is True and t[2][0] == "unwrap" and t[2][1][0] == "call" and t[2][1][1].endswith("Read::read"):
                okp = True          # the underlying reader reported end of input
        if not okp:
            bad = (p, cnt)
    ctx.check(bad is None and n >= 3, "R20-5", "WriteBackReader::read fills or reaches EOF", "%d success paths: each returns with the buffer full, the destination empty, or after the inner reader returned 0" % n,
              "a success path returns %s without having filled the buffer or seen end of input: with a reader that returns short reads (file, pipe) "
              "read_message reports a valid container as truncated" % (sh(bad[1], 100) if bad else "?"), loc(it, bad[0].site) if bad else loc(it))


def check_evaluate(ctx, fb):
    it = fb.need(G + "evaluate")
    ctx.touch(it)
    eng = Engine(fb, inline=opaque_rx(r"graph::(u256_to_fr|Operation::eval_fr|UnoOperation::eval_fr|TresOperation::eval_fr)$"))
    paths = eng.run(it)
    gnode = dict(variants(fb, G + "Node"))
    first = {}
    second = []
    rets = ret_paths(paths)
    for p in paths:
        if p.kind == "diverge":
            ctx.fail("R20-4", "evaluate", "evaluate itself can diverge at %s" % (p.site,), loc(it, p.site))
        if p.kind != "backedge":
            continue
        pushes = [e for e in p.trace if e[0] == "push"]
        if pushes:
            first.setdefault(tuple(sorted((sh(a, 200), str(v)) for a, v in p.conds())), (p, pushes))
        else:
            second.append(p)
    node = ("unwrap", call("<std::slice::Iter<'a, T> as std::iter::Iterator>::next", P(1)))
    vals = None
    arms = {}
    for key, (p, pushes) in first.items():
        sel = [v for a, v in p.conds() if a == ("d", node)]
        if len(sel) != 1 or sel[0][0] != "eq" or len(pushes) != 1:
            ctx.fail("R20-4", "evaluate shape", "an evaluation step is not selected by the node variant alone or pushes %d values" % len(pushes), loc(it, p.site))
            return
        vn = [k for k, d in gnode.items() if d == sel[0][1]][0]
        arms.setdefault(vn, []).append((p, pushes[0][3]))
        for s in subterms(pushes[0][3]):
            if s[0] == "phi" and isinstance(s[4], tuple) and s[4] and (s[4][0] == "vecnew" or (s[4][0] == "call" and re.search(r"Vec::<T>::(new|with_capacity)$", s[4][1]))):
                vals = s
    if vals is None:
        vals = ("phi", it.path, 0, "values", None)
    U = G + "u256_to_fr"
    def V(vn, pos):
        return ("idx", vals, F(("as", node, vn), str(pos)))
    spec = {
        "Input": call(U, ("idx", P(2), F(("as", node, "Input"), "0"))),
        "Constant": call(U, F(("as", node, "Constant"), "0")),
        "MontConstant": F(("as", node, "MontConstant"), "0"),
        "Op": call(G + "Operation::eval_fr", F(("as", node, "Op"), "0"), V("Op", 1), V("Op", 2)),
        "UnoOp": call(G + "UnoOperation::eval_fr", F(("as", node, "UnoOp"), "0"), V("UnoOp", 1)),
        "TresOp": call(G + "TresOperation::eval_fr", F(("as", node, "TresOp"), "0"), V("TresOp", 1), V("TresOp", 2), V("TresOp", 3)),
    }
    n = 0
    for vn, want in sorted(spec.items()):
        got = arms.get(vn, [])
        n += 1
        other = [(sh(a, 80), v) for p, _ in got for a, v in p.conds() if a != ("d", node) and not (a[0] == "ok" and a[1] == node[1])]
        ctx.check(len(got) == 1 and got[0][1] == want and not other, "R20-4", "evaluate %s" % vn, "pushes %s" % sh(want, 140),
                  "Node::%s is evaluated as %s under %s, specification %s" % (vn, [sh(g[1], 200) for g in got], other, sh(want, 200)), loc(it))
    ctx.check(set(arms) == set(gnode), "R20-4", "evaluate totality", "one arm per Node variant (%d)" % len(gnode), "arms %s, variants %s" % (sorted(arms), sorted(gnode)), loc(it))
    # output loop
    ok = False
    why = "expected one output-loop body, found %d" % len(second)
    if len(second) == 1 and len(rets) == 1:
        b = second[0]
        rv = eng.value_of(rets[0].store, rets[0].ret)
        out = carried_of(b, rv) if rv[0] == "phi" else None
        if out is None:
            out = ("?",)
        o = norm_loopvars(out)
        why = "out becomes %s" % sh(o, 300)
        if o[0] == "with" and o[2][0] == "idx":
            i = o[2][1]
            val = o[3]
            ok = i[0] == "i" and cint(i[1]) == 0 and i[2] == ("len", P(3)) and val[0] == "idx" and val[2] == ("idx", P(3), i) and val[1][0] == "phi" and val[1] == vals \
                and rv[0] == "phi"
            init = rv[4] if rv[0] == "phi" else None
            if ok and not (init and init[0] == "call" and init[1] == "std::vec::from_elem" and init[2][1] == ("len", P(3))):
                ok, why = False, "output vector is initialised as %s, specification len(outputs) elements" % sh(init, 100)
    if not ok and len(rets) == 1:
        # the same selection written as `for (slot, &signal) in out.iter_mut().zip(outputs.iter()) { *slot = values[signal] }`
        rv = eng.value_of(rets[0].store, rets[0].ret)
        for b in [q for q in paths if q.kind == "backedge"]:
            sts = [e for e in b.trace if e[0] == "store_through_value"]
            if len(sts) != 1:
                continue
            tgt, val = norm_loopvars(sts[0][1]), norm_loopvars(sts[0][2])
            others = [q for q in paths if q.kind == "backedge" and q.loop == b.loop and not any(e[0] == "store_through_value" for e in q.trace)]
            if tgt[0] == "idx" and tgt[1] == rv and tgt[2][0] == "i" and not others:
                i = tgt[2]
                ok = cint(i[1]) == 0 and i[2] == ("min", ("len", rv), ("len", P(3))) and val == ("idx", vals, ("idx", P(3), i)) \
                    and rv[0] == "call" and rv[1] == "std::vec::from_elem" and rv[2][1] == ("len", P(3))
                why = "out becomes: %s := %s for every zipped pair; out initialised as %s" % (sh(tgt, 80), sh(val, 100), sh(rv, 80))
    if not ok and len(rets) == 1:
        # the same selection written as outputs.iter().map(|&o| values[o]).collect()
        rv = eng.value_of(rets[0].store, rets[0].ret)
        t = rv
        while isinstance(t, tuple) and t and t[0] == "call" and re.search(r"::(collect|into_iter|iter|copied|cloned)$", t[1]) and t[2]:
            t = t[2][0]
        if isinstance(t, tuple) and t and t[0] == "call" and t[1].endswith("Iterator::map") and len(t[2]) == 2 and isinstance(t[2][1], tuple) and t[2][1][0] == "closure":
            seq = t[2][0]
            while isinstance(seq, tuple) and seq and seq[0] == "call" and re.search(r"::(iter|into_iter|copied|cloned)$", seq[1]) and seq[2]:
                seq = seq[2][0]
            cl = t[2][1]
            cit = fb.items.get(cl[1])
            if seq == P(3) and cit is not None and len(cl[2]) == 1 and cl[2][0] == vals:
                ctx.touch(cit)
                e8 = Engine(fb, inline=lambda i: False)
                crets = [e8.value_of(q.store, q.ret) for q in e8.run(cit) if q.kind == "return"]
                ok = len(crets) == 1 and crets[0] == ("idx", F(P(1), "0"), P(2))
                why = "map closure returns %s, specification values[output]" % [sh(x, 80) for x in crets]
    ctx.check(ok, "R20-4", "evaluate outputs", "out[i] = values[outputs[i]] for i in 0..len(outputs)", why, loc(it))
    ctx.floor("evaluate-arms", n, 6)
    # get_inputs_buffer
    gb = fb.need("rln::circuit::iden3calc::get_inputs_buffer")
    ctx.touch(gb)
    e2 = Engine(fb, inline=lambda i: False)
    ps = ret_paths(e2.run(gb))
    ok = False
    got = None
    if len(ps) == 1:
        got = e2.value_of(ps[0].store, ps[0].ret)
        ok = got[0] == "with" and got[2] == ("idx", mk_const("usize", 0)) and got[3][0] == "call" and got[3][1].endswith("::from") and "ruint" in got[3][1] and cint(got[3][2][0]) == 1 \
            and got[1][0] == "call" and got[1][1] == "std::vec::from_elem" and got[1][2][1] == P(1) and "ZERO" in sh(got[1][2][0], 200)
    ctx.check(ok, "R20-4", "get_inputs_buffer", "vec![ZERO; size] with slot 0 = 1", "buffer is %s" % sh(got, 200), loc(gb))
    # populate_inputs: writes only input_buffer[offset + i] = value[i]
    pi = fb.need("rln::circuit::iden3calc::populate_inputs")
    ctx.touch(pi)
    e3 = Engine(fb, inline=lambda i: False)
    paths = e3.run(pi)
    ws = []
    for p in paths:
        for e in p.trace:
            if e[0] == "write" and e[1][1] == -3:
                ws.append((p, e))
    ok = len(ws) == 1
    why = "expected exactly one store into the input buffer, found %d" % len(ws)
    kv = ("unwrap", call("<std::collections::hash_map::Iter<'a, K, V> as std::iter::Iterator>::next", P(1)))
    info = call("<std::collections::HashMap<K, V, S, A> as std::ops::Index<&Q>>::index", P(2), F(kv, "0"))
    if ok:
        p, e = ws[0]
        key, val = e[2], e[3]
        # two equivalent idioms: `for (i, v) in value.iter().enumerate()` storing *v, or `for i in 0..value.len()` storing value[i]
        ivar = None
        for s_ in subterms(val):
            if s_[0] == "unwrap" and s_[1][0] == "call" and s_[1][1].endswith("Enumerate<I> as std::iter::Iterator>::next"):
                src = s_[1][2][0]
                if src[0] == "phi" and src[4] == call("std::iter::Iterator::enumerate", F(kv, "1")) and val == F(s_, "1"):
                    ivar = F(s_, "0")
        if ivar is None and val[0] == "idx" and val[1] == F(kv, "1"):
            rv_ = range_var(val[2])
            if rv_ is not None and cint(rv_[0]) == 0 and rv_[1] == ("len", F(kv, "1")):
                ivar = val[2]
        if ivar is None:
            ok, why = False, "stored value %s is not element i of the same map entry's vector (value.iter().enumerate() or value[i] for i in 0..value.len())" % sh(val, 160)
        elif key != (("idx", ("bin", "Add", F(info, "0"), ivar)),) and key != (("idx", ("bin", "Add", ivar, F(info, "0"))),):
            ok, why = False, "store index is %s, specification inputs_info[key].0 + i" % sh(key, 300)
        else:
            g = [(a, v) for a, v in p.conds() if a[0] == "b" and a[1][0] == "bin" and a[1][1] in ("Ne", "Eq")]
            want = {F(info, "1"), ("len", F(kv, "1"))}
            if not any(set(a[1][2:]) == want and ((a[1][1] == "Ne") == (v is False)) for a, v in g):
                ok, why = False, "store is not guarded by inputs_info[key].1 == value.len()"
    ctx.check(ok, "R20-4", "populate_inputs placement", "input_buffer[inputs_info[key].0 + i] = value[i]; no other store into the buffer", why, loc(pi))
    lens = []
    for p in paths:
        if p.kind == "diverge":
            cm = p.conds()
            lens.append(p)
    ctx.notes.append("populate_inputs: %d diverging path(s) (length mismatch / missing key are C12's)" % len(lens))


def run(ctx):
    ctx.prefetch(["default", "fixtures"])
    fb = ctx.fb("default")
    # R20-7 (shared with C05 R05-1): evaluation is a function of the graph and the inputs: no thread-local or process-wide buffer
    # (slots an evaluation does not write must read as zero, not as what an earlier evaluation left there)
    from . import c05
    from ..main import Ctx as _Ctx7
    sub7 = _Ctx7(ctx.pid, ctx.tier)
    c05.check_purity(sub7, fb)
    for r in sub7.results:
        (ctx.ok if r.status == "ok" else ctx.fail)("R20-7", r.instance, r.reason, r.loc)
    tables = check_tables(ctx, fb)
    if len(tables) == 3:
        check_node_codec(ctx, fb, tables)
    check_framing(ctx, fb)
    check_reader_contract(ctx, fb)
    check_evaluate(ctx, fb)
    # R20-6 (shared with C19 R19-4/R19-5): evaluation "as specified" includes the operators' guards: division / modulo by zero, the
    # whole-value bound in front of every truncated read of a shift amount, whole-value integer quotient and remainder
    from . import c19
    from ..main import Ctx as _Ctx
    sub = _Ctx(ctx.pid, ctx.tier)
    c19.check_guards(sub, fb)
    c19.check_intdiv(sub, fb)
    c19.check_ring_ops(sub, fb)
    c19.check_compare(sub, fb)
    c19.check_sinks(sub, fb)
    c19.check_conversions(sub, fb)
    for r in sub.results:
        (ctx.ok if r.status == "ok" else ctx.fail)("R20-6", r.instance, r.reason, r.loc)
    # fixtures: a swapped operator table and a swapped field must be caught
    fx = ctx.fb("fixtures")
    try:
        it = fx.need("zkfix::tables::swapped_dec")
        m = enum_map(fx, it)
        ctx.fixture("R20-1", m is not None and m.get(0) == "B" and m.get(1) == "A", "zkfix::tables::swapped_dec (table extraction sees the swap)")
        it2 = fx.need("zkfix::tables::guarded_dec")
        ctx.fixture("R20-1-shape", enum_map(fx, it2) is None, "zkfix::tables::guarded_dec (extra condition rejected)")
    except MissingAnchor as e:
        ctx.fixture("R20-1", False, "fixture missing: %s" % e)
