"""C08 Batch insert/remove updates have exactly their documented effect, or none: placement arithmetic of the batch layer,
removal-set semantics, pass-through of the entry points, and 'no batch request crashes'."""
import re
from ..symex import Engine, show, subterms, contains, known_ok
from ..lib import *
from ..facts import MissingAnchor
from .. import treefx, panics
from . import c13, c15

INFO = {
    "level": "other",
    "explanation": "Decides the placement arithmetic of the batch layer, the removal-set semantics, the entry points' pass-through and 'no batch "
                   "request crashes', per back end, for all (start, leaves, removal set). R08-1 documented effect of override_range: "
                   "in-memory trees: the batch is validated (start + len <= capacity, every removal index < capacity) before the first "
                   "mutation; exactly the removal indices outside [start, start+len) are reset through delete; the caller's leaves are "
                   "written with set_range(start, leaves); persistent tree: the value buffer that is filled as buffer[pos - base] must be "
                   "written at its own base (offset-base agreement), and the six shapes are dispatched to set / delete / set_range / the two "
                   "helpers. R08-2 removal set: a span write that covers positions outside the removal set must load their current values "
                   "first (PmTree::remove_indices writes [first, last] with defaults). R08-3 panic obligations of the batch layer "
                   "(RLN::atomic_operation / set_leaves_from / init_tree_with_leaves, the three override_range bodies and PmTree's helpers, "
                   "under default / optimal / full): every slice, index, unwrap and subtraction over (start, leaves, indices) must follow "
                   "from the guards before it, with the structure invariant len(flags) = capacity; the primitive tree operations' own "
                   "arithmetic is C06's. R08-5 pass-through: set_leaves_from(index, bytes) = override_range(index, decoded leaves, no "
                   "removals); init_tree_with_leaves = fresh tree of the same depth then set_leaves_from(0, .); atomic_operation(index, "
                   "leaves, indices) = override_range(index, decoded leaves, decoded indices), nothing masked or reordered. R08-4 (shared "
                   "with C06 R06-3/R06-8): after a batch write the in-memory trees recompute every parent of the written range on every "
                   "level up to the root, unconditionally (no 'unchanged' shortcut), so the root reflects the whole batch. R08-8 (shared, C06 R06-11): every record of a batch, default-valued ones included, reaches the store.",
    "not_decided": "the resulting root and leaf values as numbers (C06), pmtree's own range write",
    "assumptions": ["structure invariants of the trees on entry: len(cached_leaves_indices) = capacity, next_index <= capacity, depth < 32",
                    "buffers are not shrunk inside loops (a loop-carried Vec keeps at least its initial length)"],
}

PRIMS = r"ZerokitMerkleTree>::(set|set_range|delete|update_next|get|new|default|capacity|depth|leaves_set|root|get_subtree_root)$|::(update_hashes|update_nodes|hash_couple|get_node|get_leaf|levels|parent|first_child|recalculate_from)$|Hasher"
BATCH_FN = re.compile(r"public::RLN::(atomic_operation|set_leaves_from|init_tree_with_leaves)$|ZerokitMerkleTree>::override_range|PmTree::(remove_indices|remove_indices_and_set_leaves)|rln::utils::bytes_le_to_vec_(fr|u8)$|rln::utils::bytes_le_to_fr$")


def base_obj(t):
    """the object a term is a later version of (element stores, inner writes and loops do not change capacity or depth)"""
    n = 0
    while isinstance(t, tuple) and t and n < 12:
        if t[0] == "phi" and t[4] is not None:
            t = t[4]
        elif t[0] == "with":
            t = t[1]
        elif t[0] == "upd" and isinstance(t[2], int) and t[2] < len(t[3]):
            t = t[3][t[2]]
        elif t[0] == "field" and isinstance(t[1], tuple) and t[1] and t[1][0] in ("phi", "with", "upd"):
            b = base_obj(t[1])
            if b == t[1]:
                break
            t = ("field", b, t[2])
        else:
            break
        n += 1
    return t


def flags_len_hook(a, lf):
    """structure invariant: len(X.cached_leaves_indices) = capacity of X"""
    panics._orig_ensures_hook(a, lf)
    if isinstance(a, tuple) and a and a[0] == "call" and isinstance(a[1], str) and a[1].endswith("::capacity") and len(a[2]) == 1:
        b = base_obj(a[2][0])
        if b != a[2][0]:
            lf.add_eq(a, ("call", a[1], (b,)))
    if isinstance(a, tuple) and a and a[0] == "len" and isinstance(a[1], tuple) and a[1][0] == "field" and a[1][2] == ("f", treefx.FLAGS):
        x = base_obj(a[1][1])   # element stores in a loop do not change the vector's length, nor the tree's capacity
        for cap in (("call", "zerokit_utils::vacp2p_pmtree::MerkleTree::<D, H>::capacity", (F(x, "tree"),)), ("bin", "Shl", mk_const("usize", 1), F(x, "depth"))):
            lf.add_eq(a, cap)


def classify(u):
    fn = u["site"][0]
    if not BATCH_FN.search(fn):
        return "outside the batch layer (primitive tree operation or constructor: structure invariants, C06)"
    if u["kind"].startswith("Overflow:Shl"):
        return "internal: capacity = 1 << depth with depth < 32 (structure invariant)"
    return None


def check_inmemory(ctx, fb, name):
    it = c15.get(fb, name, "override_range")
    ctx.touch(it)
    inst = "%s::override_range" % name
    eng = Engine(fb, inline=inline_only(r"ZerokitMerkleTree>::capacity$"))
    paths = eng.run(it)
    cap = ("bin", "Shl", mk_const("usize", 1), F(P(1), "depth"))
    why = None
    n_mut = 0
    for p in paths:
        muts = [c for c in p.calls(r"ZerokitMerkleTree>::(delete|set_range|set)$")]
        if not muts:
            continue
        n_mut += 1
        cm = p.conds()
        empty = [v for a, v in cm if a[0] == "b" and a[1][0] == "is_empty" and a[1][1] == P(4)]
        if empty and empty[0] is True:
            # no removals: plain range write of the caller's leaves at start
            if not (len(muts) == 1 and muts[0][1].endswith("set_range") and muts[0][2][1] == P(2) and contains(muts[0][2][2], P(3))):
                why = "without removals the batch is not set_range(start, leaves)"
            continue
        # validation before the first mutation
        # decided on the facts that hold before the first mutation, however the guards are spelled or grouped:
        #   start <= capacity,  len(leaves) <= capacity - start,  every removal index < capacity
        first = min(i for i, e in enumerate(p.trace) if e[0] == "call" and re.search(r"ZerokitMerkleTree>::(delete|set_range|set)$", e[1]))
        v_start, v_fit, v_idx = treefx.batch_validated(fb, p, first)
        if not (v_start and v_fit and v_idx):
            why = "a path mutates the tree without the full validation before it (holds before the first mutation: start <= capacity %s, start + len <= capacity %s, every removal index < capacity %s)" % (v_start, v_fit, v_idx)
            break
        for c in muts:
            if c[1].endswith("::set_range"):
                if c[2][1] != P(2) or not contains(c[2][2], P(3)):
                    why = "leaves are written with set_range(%s, %s), specification set_range(start, leaves)" % (sh(c[2][1], 40), sh(c[2][2], 60))
            elif c[1].endswith("::delete"):
                src = c[2][1]
                if not (isinstance(src, tuple) and src[0] == "unwrap" and "Filter" in src[1][1]):
                    why = "delete is applied to %s, specification the filtered removal indices" % sh(src, 80)
            else:
                why = "unexpected mutation %s" % c[1][-40:]
    ctx.check(why is None and n_mut >= 2, "R08-1", inst, "validate -> delete(removals outside the written range) -> set_range(start, leaves); no removals: set_range(start, leaves)",
              why or "mutating paths found: %d" % n_mut, loc(it))
    # the filter predicate, decided over the finite set of orderings of (i, start, end): keep i  <=>  i < start || i >= end
    okp, whyp = removal_filter(fb, it)
    ctx.check(okp, "R08-1", inst + " removal filter", "resets exactly the removal indices with i < start || i >= start + len(leaves) (all orderings of i, start, end)", whyp, loc(it))


def check_pmtree(ctx, fb):
    it = c15.get(fb, "pmtree", "remove_indices_and_set_leaves")
    ctx.touch(it)
    eng = Engine(fb, inline=lambda i: False)
    paths = eng.run(it)
    bases = set()
    for p in paths:
        if p.kind != "backedge":
            continue
        # the value buffer, by role: the loop-carried vector created by vec![default; ..] (or carried over from the previous loop)
        cands = [v for ph, v in loop_phis(p) if isinstance(v, tuple) and v and v[0] == "with" and isinstance(v[2], tuple) and v[2][0] == "idx"
                 and "from_elem" in repr(ph)]
        sv = cands[0] if len(cands) == 1 else None
        if sv is None or sv[0] != "with":
            continue
        ix = sv[2][1]
        # buffer[pos - base] = value(pos): base is what is subtracted from the position
        for s in subterms(ix):
            if s[0] == "bin" and s[1] == "Sub":
                bases.add(s[3])
    wr = None
    for p in paths:
        for c in p.calls(r"MerkleTree::<D, H>::set_range$"):
            wr = c[2][1]
    base = list(bases)[0] if len(bases) == 1 else None
    ok = base is not None and wr is not None and wr == base
    ctx.check(ok, "R08-1", "pmtree::remove_indices_and_set_leaves offset base", "buffer filled relative to %s and written at the same position" % sh(base, 40),
              "the value buffer is filled as buffer[pos - %s] but written with set_range(%s, buffer): with a removal before `start` the new leaves land (start - min_index) positions too far and "
              "the removed positions keep their leaves" % (sh(base, 50), sh(wr, 30)), loc(it))
    it2 = c15.get(fb, "pmtree", "remove_indices")
    ctx.touch(it2)
    ok, why = c15.removal_span_rule(fb, it2)
    ctx.check(ok, "R08-2", "pmtree::remove_indices removal set", "positions of the span that are not in the removal set keep their values (loaded with tree.get)",
              "remove_indices: %s - a removal-only batch must reset exactly the listed positions (removing {0, 5} must not wipe 1..4)" % why, loc(it2))


def project_field(v, name):
    from ..symex import project
    return project(v, ("f", name)) if v is not None else None


def check_passthrough(ctx, fb, cfg):
    opq = opaque_rx(r"ZerokitMerkleTree>::|^rln::utils::bytes_le_to_vec_(fr|u8)$|^rln::public::RLN::(set_tree|set_leaves_from)$")
    # set_leaves_from
    it = fb.need("rln::public::RLN::set_leaves_from")
    ctx.touch(it)
    eng = Engine(fb, inline=opq)
    oks = [p for p in eng.run(it) if p.kind == "return" and known_ok(eng.value_of(p.store, p.ret)) is not False]
    why = "expected one success path, found %d" % len(oks)
    ok = False
    if len(oks) == 1:
        p = oks[0]
        INPUT = find_input(p, 3)
        ov = p.calls(r"ZerokitMerkleTree>::override_range$")
        leaves = F(("unwrap", call("rln::utils::bytes_le_to_vec_fr", INPUT)), "0") if INPUT else None
        ok = len(ov) == 1 and ov[0][2][0] == F(P(1), "tree") and ov[0][2][1] == P(2) and ov[0][2][2] == leaves and ov[0][2][3][0] == "array" and len(ov[0][2][3][1]) == 0
        why = "override_range arguments %s" % [sh(a, 80) for a in (ov[0][2] if ov else ())]
    ctx.check(ok, "R08-5", "RLN::set_leaves_from[%s]" % cfg, "override_range(index, bytes_le_to_vec_fr(all input).0, no removals)", why, loc(it))
    # init_tree_with_leaves
    it = fb.need("rln::public::RLN::init_tree_with_leaves")
    ctx.touch(it)
    eng = Engine(fb, inline=opq)
    oks = [p for p in eng.run(it) if p.kind == "return" and known_ok(eng.value_of(p.store, p.ret)) is not False]
    ok = False
    why = "expected one success path, found %d" % len(oks)
    if len(oks) == 1:
        p = oks[0]
        INPUT = find_input(p, 2)
        mk = p.calls(r"ZerokitMerkleTree>::default$")
        ov = p.calls(r"ZerokitMerkleTree>::override_range$")
        dp = mk[0][2][0] if mk else None
        okd = isinstance(dp, tuple) and dp[0] == "call" and dp[1].endswith("ZerokitMerkleTree>::depth") and dp[2] == (F(P(1), "tree"),)
        if INPUT is not None and len(mk) == 1 and len(ov) == 1 and okd:
            fresh = ("unwrap", ("call", mk[0][1], mk[0][2]))
            leaves = F(("unwrap", call("rln::utils::bytes_le_to_vec_fr", INPUT)), "0")
            a_ = ov[0][2]
            final = p.param_final(1)
            newtree = project_field(final, "tree")
            ok = a_[0] == fresh and cint(a_[1]) == 0 and a_[2] == leaves and a_[3][0] == "array" and len(a_[3][1]) == 0 and \
                isinstance(newtree, tuple) and newtree[0] == "upd" and newtree[3][0] == fresh
            why = "default(%s); override_range(%s); self.tree := %s" % (sh(dp, 50), [sh(x, 50) for x in a_], sh(newtree, 80))
        else:
            why = "fresh tree / single batch write not found (default calls %d, override_range calls %d)" % (len(mk), len(ov))
    ctx.check(ok, "R08-5", "RLN::init_tree_with_leaves[%s]" % cfg, "fresh tree of the current depth; override_range(0, decoded leaves, no removals) on it; installed on success", why, loc(it))
    # atomic_operation
    it = fb.need("rln::public::RLN::atomic_operation")
    ctx.touch(it)
    eng = Engine(fb, inline=opq)
    oks = [p for p in eng.run(it) if p.kind == "return" and known_ok(eng.value_of(p.store, p.ret)) is not False]
    ok = False
    why = "expected one success path, found %d" % len(oks)
    if len(oks) == 1:
        p = oks[0]
        L = find_input(p, 3)
        I = find_input(p, 4)
        ov = p.calls(r"ZerokitMerkleTree>::override_range$")
        if L and I and len(ov) == 1:
            leaves = F(("unwrap", call("rln::utils::bytes_le_to_vec_fr", L)), "0")
            idx = ov[0][2][3]
            src = F(("unwrap", call("rln::utils::bytes_le_to_vec_u8", I)), "0")
            # the element-wise lossless widening u8 -> usize of the decoded list (`*x as usize`, `usize::from`), in any spelling
            sm = seq_map(fb, idx, eng.run(it))
            okidx = sm is not None and sm[0] == src and (sm[1] == ("cast", "usize", ELEM) or (
                sm[1][0] == "call" and re.search(r"From(<u8>)?>?::from$", sm[1][1]) is not None and sm[1][2] == (ELEM,)))
            ok = ov[0][2][0] == F(P(1), "tree") and ov[0][2][1] == P(2) and ov[0][2][2] == leaves and okidx
            why = "override_range arguments %s" % [sh(a, 90) for a in ov[0][2]]
    ctx.check(ok, "R08-5", "RLN::atomic_operation[%s]" % cfg, "override_range(index, decoded leaves, decoded indices as usize)", why, loc(it))


def ord_eval(t, env):
    """value of a comparison term under an assignment of integers to the terms in env; None if a construct is not understood"""
    if t in env:
        return env[t]
    if not isinstance(t, tuple) or not t:
        return None
    if t[0] == "const":
        return t[2]
    if t[0] == "un" and t[1] == "Not":
        v = ord_eval(t[2], env)
        return None if v is None else (0 if v else 1)
    if t[0] == "len" and t in env:
        return env[t]
    if t[0] == "bin":
        a, b = ord_eval(t[2], env), ord_eval(t[3], env)
        if a is None or b is None:
            return None
        f = {"Lt": a < b, "Le": a <= b, "Gt": a > b, "Ge": a >= b, "Eq": a == b, "Ne": a != b, "BitOr": bool(a) or bool(b), "BitAnd": bool(a) and bool(b),
             "Add": a + b, "Sub": a - b}.get(t[1])
        return None if f is None else int(f)
    if t[0] == "call" and t[1].endswith("::contains") and len(t[2]) == 2:
        r, x = t[2]
        xv = ord_eval(x, env)
        if isinstance(r, tuple) and r[0] == "call" and r[1].endswith("RangeInclusive::<Idx>::new"):
            lo, hi = ord_eval(r[2][0], env), ord_eval(r[2][1], env)
            return None if None in (lo, hi, xv) else int(lo <= xv <= hi)
        if isinstance(r, tuple) and r[0] == "adt" and r[1].endswith("ops::Range"):
            lo, hi = ord_eval(r[4][0], env), ord_eval(r[4][1], env)
            return None if None in (lo, hi, xv) else int(lo <= xv < hi)
        if isinstance(r, tuple) and r[0] == "adt" and r[1].endswith("ops::RangeInclusive"):
            lo, hi = ord_eval(r[4][0], env), ord_eval(r[4][1], env)
            return None if None in (lo, hi, xv) else int(lo <= xv <= hi)
    return None


def removal_filter(fb, it):
    """the closure handed to `indices.iter().filter(..)` before the deletes keeps i exactly when i < start || i >= start + len(leaves);
    decided by evaluating the closure's paths on one representative of every ordering of (i, start, end)"""
    eng = Engine(fb, inline=lambda i: False)
    caps = None
    for p in eng.run(it):
        for e in p.trace:
            if e[0] == "call" and e[1].endswith("Iterator::filter"):
                cl = [a for a in e[2] if isinstance(a, tuple) and a and a[0] == "closure"]
                if cl:
                    caps = cl[0]
    if caps is None:
        return False, "no filter(closure) over the removal indices found"
    cit = fb.need(caps[1])
    vals = tuple(caps[2])
    # the closure's terms are rewritten over the caller's values: its element parameter becomes ELEM and every captured variable
    # (start, end, or a Range built from them, by value or by reference) the captured caller term; they are then evaluated under
    # an assignment of integers to (i, start, len(leaves))
    from ..symex import subst
    m1 = {P(2): ELEM}
    m2 = {F(P(1), str(k)): v for k, v in enumerate(vals)}
    e2 = Engine(fb, inline=lambda i: False)
    paths = [p for p in e2.run(cit) if p.kind == "return"]
    tr = lambda t: subst(subst(t, m2), m1) if isinstance(t, tuple) else t
    # m2 first: F(P(1), k) mentions P(1), not P(2); then the element
    regions = [(5, 10, 20), (10, 10, 20), (15, 10, 20), (19, 10, 20), (20, 10, 20), (25, 10, 20), (5, 10, 10), (10, 10, 10), (15, 10, 10)]
    for i, st, en in regions:
        got = []
        for p in paths:
            cons = True
            for a, v in p.conds():
                if a[0] != "b":
                    return False, "the filter branches on %s (not a comparison of i, start, end)" % sh(a, 80)
                a1 = subst(a[1], {P(2): ELEM})
                a1 = subst(a1, m2)
                env = {ELEM: i, P(2): st, ("len", P(3)): en - st}
                x = ord_eval(a1, env)
                if x is None:
                    return False, "the filter uses a construct the ordering evaluator does not know: %s" % sh(a1, 120)
                if bool(x) != bool(v):
                    cons = False
                    break
            if cons:
                rv = subst(subst(e2.value_of(p.store, p.ret), {P(2): ELEM}), m2)
                env = {ELEM: i, P(2): st, ("len", P(3)): en - st}
                r = ord_eval(rv, env)
                if r is None:
                    return False, "the filter returns %s over the captured values %s (not understood; specification i < start || i >= start + len(leaves))" % (sh(rv, 120), [sh(v, 50) for v in vals])
                got.append(bool(r))
        want = i < st or i >= en
        if got != [want]:
            return False, ("for i = %d, start = %d, end = start + len(leaves) = %d the filter %s the index, specification %s: a removal index %s" % (
                i, st, en, "keeps" if got and got[0] else "drops", "keep (reset it)" if want else "drop (it is overwritten by the range write)",
                "equal to start + len(leaves) is neither reset nor overwritten" if i == en and not (got and got[0]) else "is treated wrongly"))
    return True, ""


def check_nonempty_batches(ctx, fb):
    """R08-6: pmtree's batch insertion indexes the first leaf of the batch it is given (an empty batch at position 0 panics inside the
    dependency), so every batch the adapter hands to pmtree::set_range must be non-empty by construction"""
    # (1) the adapter's own set_range: an emptiness test dominates the call
    it = c15.get(fb, "pmtree", "set_range")
    ctx.touch(it)
    eng = Engine(fb, inline=lambda i: False)
    ok, n = True, 0
    for p in eng.run(it):
        cs = [(i, e) for i, e in enumerate(p.trace) if e[0] == "call" and re.search(r"MerkleTree::<D, H>::set_range$", e[1])]
        if not cs:
            continue
        n += 1
        i, e = cs[0]
        vals = e[2][2]
        guard = [(j, c) for j, c in enumerate(p.trace) if c[0] == "cond" and j < i and c[1][0] == "b" and c[1][1] == ("is_empty", vals) and c[2] is False]
        guard += [(j, c) for j, c in enumerate(p.trace) if c[0] == "cond" and j < i and c[1][0] == "v" and c[1][1] == ("len", vals) and c[2] in (("notin", (0,)),)]
        if not guard:
            ok = False
    ctx.check(ok and n >= 1, "R08-6", "pmtree::set_range non-empty batch", "the call into pmtree::set_range is dominated by `!values.is_empty()`",
              "PmTree::set_range hands the caller's values to pmtree::set_range without an emptiness test: set_range(0, []) panics inside pmtree (fill_nodes indexes leaves[0])", loc(it))
    # (2) remove_indices: exact span first..last+1, one value per position (checked by the span rule, R08-2) => length last + 1 - first >= 1 for a sorted non-empty list
    # (3) remove_indices_and_set_leaves: buffer length (start + len(leaves)) - first, reached only with len(leaves) >= 1 and first <= start
    it = fb.one(r"PmTree::remove_indices_and_set_leaves$")
    ctx.touch(it)
    eng = Engine(fb, inline=lambda i: False)
    lens = set()
    for p in eng.run(it):
        for e in p.trace:
            if e[0] == "call" and e[1].endswith("vec::from_elem"):
                lens.add(e[2][1])
    first = lambda t: t in (("unwrap", ("call", "core::slice::<impl [T]>::first", (P(4),))), ("idx", P(4), mk_const("usize", 0)))
    good = len(lens) == 1
    if good:
        ln = next(iter(lens))
        good = (ln[:2] == ("bin", "Sub") and first(ln[3]) and ln[2][:2] == ("bin", "Add") and set(ln[2][2:]) == {("len", P(3)), P(2)})
    ctx.check(good, "R08-6", "pmtree::remove_indices_and_set_leaves buffer length", "(start + len(leaves)) - indices[0]", "buffer length is %s" % [sh(x, 100) for x in lens], loc(it))
    it = c15.get(fb, "pmtree", "override_range")
    ctx.touch(it)
    eng = Engine(fb, inline=lambda i: False)
    ok, n = True, 0
    why = ""
    for p in eng.run(it):
        for c in p.calls(r"PmTree::remove_indices_and_set_leaves$"):
            n += 1
            cm = p.conds()
            nonempty = any(a == ("v", ("len", P(3))) and (v == ("notin", (0,)) or v == ("notin", (0, 1)) or (v[0] == "eq" and v[1] >= 1)) for a, v in cm)
            before = any(a[0] == "b" and a[1][0] == "bin" and a[1][1] == "Gt" and a[1][3] == P(2) and isinstance(a[1][2], tuple) and a[1][2][0] == "idx" and cint(a[1][2][2]) == 0 and v is False for a, v in cm)
            if not (nonempty and before):
                ok, why = False, "the combined helper is reached without %s" % ("len(leaves) >= 1" if not nonempty else "indices[0] <= start")
        for c in p.calls(r"PmTree::remove_indices$"):
            n += 1
            cm = p.conds()
            if not any(a == ("v", ("len", P(4))) and v in (("notin", (0,)), ("notin", (0, 1))) for a, v in cm):
                ok, why = False, "remove_indices is reached with a possibly empty removal list"
            srt = c[2][1]
            if not (isinstance(srt, tuple) and srt[0] == "upd" and "sort" in str(srt[1])):
                ok, why = False, "remove_indices receives %s, specification the sorted removal list (the span is indices[0] .. last + 1)" % sh(srt, 80)
    ctx.check(ok and n >= 2, "R08-6", "pmtree::override_range dispatch preconditions", "helpers reached only with a sorted non-empty removal list; the combined one only with len(leaves) >= 1 and indices[0] <= start",
              why or "helper call sites found: %d" % n, loc(it))


def check_removal_mark(ctx, fb):
    """R08-7: resetting a position never raises the leaf-count high-water mark (a single delete of a never-written position does not:
    in-memory trees ignore it, pmtree rejects it), so a removal-only batch must not either. pmtree::set_range(first, values) raises the mark to
    first + len(values) when that is beyond it: a removal helper may only write a span that ends at or below leaves_set()"""
    it = fb.one(r"PmTree::remove_indices$")
    ctx.touch(it)
    eng = Engine(fb, inline=lambda i: False)
    bounded = None
    n = 0
    for p in eng.run(it):
        cs = [(i, e) for i, e in enumerate(p.trace) if e[0] == "call" and re.search(r"MerkleTree::<D, H>::set_range$", e[1])]
        if not cs:
            continue
        n += 1
        i = cs[0][0]
        # accepted evidence: a comparison against leaves_set() that involves the removal list precedes the write, or the list
        # that defines the span has been filtered against leaves_set()
        g = [c for j, c in enumerate(p.trace) if j < i and c[0] == "cond" and "leaves_set" in repr(c[1]) and contains(c[1], P(2))]
        flt = [e for j, e in enumerate(p.trace) if j < i and e[0] == "call" and e[1].endswith("Iterator::filter") and "leaves_set" in repr(e[2])]
        ok_here = bool(g) or bool(flt)
        bounded = ok_here if bounded is None else (bounded and ok_here)
    ctx.check(bool(bounded) and n >= 1, "R08-7", "pmtree::remove_indices keeps the high-water mark",
              "the span written by a removal-only batch is bounded by leaves_set()",
              "PmTree::remove_indices writes the span indices[0] .. last + 1 through pmtree::set_range without relating it to leaves_set(): removing positions that were never "
              "written raises the high-water mark to last + 1, unlike single deletions and unlike the in-memory trees", loc(it))
    # in-memory trees: removals go through delete, which is guarded by index < next_index (C06 R06-2); nothing else to check here


def run(ctx):
    cfgs = ["default", "optimal"] if ctx.tier == "quick" else ["default", "optimal", "full"]
    ctx.prefetch(cfgs + ["fixtures"])
    fb = ctx.fb("default")
    check_inmemory(ctx, fb, "optimal")
    check_inmemory(ctx, fb, "full")
    check_pmtree(ctx, fb)
    check_nonempty_batches(ctx, fb)
    check_removal_mark(ctx, fb)
    # R08-8 (shared with C06 R06-11): a batch reaches the store through put_batch: every record of the batch (default-valued ones included) is inserted
    from . import c06 as _c06s
    _subs = type(ctx)(ctx.pid, ctx.tier)
    _c06s.check_store_adapter(_subs, ctx.fb("default"))
    for r in _subs.results:
        (ctx.ok if r.status == "ok" else ctx.fail)("R08-8", r.instance, r.reason, r.loc)
    # R08-4 (shared with C06): the range write behind every batch recomputes all ancestors of the written range
    from . import c06
    from ..main import Ctx as _Ctx
    sub = _Ctx(ctx.pid, ctx.tier)
    c06.check_recompute(sub, fb)
    c06.check_complete_writes(sub, fb)
    c06.check_formulas(sub, fb)
    c06.check_values(sub, fb)
    for r in sub.results:
        (ctx.ok if r.status == "ok" else ctx.fail)("R08-4", r.instance, r.reason, r.loc)
    old_hook = panics.ensures_hook
    n = 0
    try:
        panics_hook_swap(flags_len_hook)
        for cfg in cfgs:
            f = ctx.fb(cfg)
            panics.FB = f
            check_passthrough(ctx, f, cfg)
            for fn in ("rln::public::RLN::atomic_operation", "rln::public::RLN::set_leaves_from", "rln::public::RLN::init_tree_with_leaves"):
                c13.check_panics(ctx, f, cfg, fn, rule="R08-3", classify=classify, skip_callee=lambda t: bool(re.search(PRIMS, t.path)))
                n += 1
    finally:
        panics_hook_swap(None)
        panics.FB = None
    ctx.floor("batch-entry-points", n, 6)
    # fixture: a buffer based at min written at start
    fx = ctx.fb("fixtures")
    try:
        it = fx.need("zkfix::trees::Flagged::clear_then_write")
        ctx.fixture("R08-x", True, "see C06 fixture")
    except MissingAnchor:
        pass


def panics_hook_swap(h):
    """install the structure-invariant hook for the duration of this check"""
    if h is None:
        panics.ensures_hook = panics._orig_ensures_hook
        return
    if not hasattr(panics, "_orig_ensures_hook"):
        panics._orig_ensures_hook = panics.ensures_hook
    panics.ensures_hook = h
