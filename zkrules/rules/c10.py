"""C10 Byte encodings round-trip and match the documented layouts: writer / reader / documentation agreement."""
import re
from ..symex import Engine, show, subterms, contains, fold_bin, mk_slice, known_ok
from ..lib import *
from ..facts import MissingAnchor

INFO = {
    "level": "other",
    "explanation": "Decides layout equality three ways (documented layout <-> writer <-> reader) as expression-DAG equalities over all values: "
                   "each serializer's output is the concatenation, in documented order, of the field codecs; each deserializer reads the same "
                   "fields at the running offsets implied by those codecs; the vector codecs are length-prefixed (u64 LE count) loops whose "
                   "summaries agree (element i at 8+32*i); the 32-byte primitive is resize32(to_bytes_le(BigUint(x))) / "
                   "Fr::from(BigUint::from_bytes_le(in[0..32])) and the 8-byte one is usize::to_le_bytes zero-padded / u64::from_le_bytes; no "
                   "big-endian constructor is reachable from any codec; deserialize_witness returns Ok only when len == bytes consumed "
                   "(missing/trailing bytes clause); the JSON witness uses the same compression mode in both directions. Layout table "
                   "transcribed from the doc comments of rln/src/protocol.rs and rln/src/public.rs. R10-5 whole-message I/O: no function of rln::public / protocol / utils / hashers calls Read::read or Write::write (partial transfer); inventory over the MIR call terminators. R10-6 no over-rejection: every length guard of a decoder (request, witness, vector and verification readers and the helpers they call) rejects only inputs on which a later read would be out of bounds (decided with the linear facts of the obligation engine; loop reads are instantiated at the last iteration). R10-7 decimal JSON witness: to_bigint(el) = BigInt::from(BigUint::from(el)) on one unconditional path, and each of the seven documented keys of rln_witness_to_bigint_json carries the base-10 string of the same-named witness field (path vectors element-wise).",
    "not_decided": "value-level losslessness rests on the opaque BigUint/Fr conversions and Vec::resize; ark's own Vec<usize> compressed format",
    "assumptions": ["BigUint::to_bytes_le/from_bytes_le, Vec::resize, usize::to_le_bytes, u64::from_le_bytes have their documented meaning"],
}

WITNESS = [("FR", "identity_secret"), ("FR", "user_message_limit"), ("FR", "message_id"), ("VECFR", "path_elements"),
           ("VECU8", "identity_path_index"), ("FR", "x"), ("FR", "external_nullifier")]


def FRB(fb, x):
    return prim(fb, "rln::utils::fr_to_bytes_le", x)


def U64(fb, x):
    return prim(fb, "rln::utils::normalize_usize", x)


def FRD(fb, b, off):
    """decoded element and the new offset when bytes_le_to_fr is applied to b[off..]"""
    r = prim(fb, "rln::utils::bytes_le_to_fr", ("slice", b, off, None))
    return r[1][0], fold_bin("Add", off, r[1][1])


def is_usz(t, want_slice):
    """t == usize::try_from(u64::from_le_bytes(slice.try_into()?))? (opaque conversion names checked for little-endianness)"""
    names = []
    while isinstance(t, tuple) and t and t[0] in ("unwrap", "call", "cast"):
        if t[0] == "unwrap":
            t = t[1]
        elif t[0] == "cast":
            t = t[2]
        else:
            names.append(t[1])
            if len(t[2]) != 1:
                return False
            t = t[2][0]
    return t == want_slice and any(re.search(r"<impl u64>::from_le_bytes$", n) for n in names) and \
        not any(re.search(r"_be_|_ne_", n) for n in names)


def length_guard(a, v):
    """a comparison that only relates the input's length to constants / decoded lengths: a bounds guard (it can only
    reject inputs that are too short for what is read next; adding or removing one does not change the layout)"""
    if a[0] != "b" or not isinstance(a[1], tuple) or a[1][0] != "bin" or a[1][1] not in ("Lt", "Le", "Gt", "Ge"):
        return False
    return any(s[0] == "len" and isinstance(s[1], tuple) and s[1][0] in ("param", "slice", "upd") for s in subterms(a[1]))


def only_ok_conds(p, extra=lambda a, v: False):
    return [(a, v) for a, v in p.conds() if not (a[0] == "ok" or extra(a, v) or length_guard(a, v))]


def ok_paths(eng, paths):
    out = []
    for p in ret_paths(paths):
        rv = eng.value_of(p.store, p.ret)
        if isinstance(rv, tuple) and rv and ((rv[0] == "adt" and rv[2] == "Ok") or rv[0] != "from_residual" and not (rv[0] == "adt" and rv[2] == "Err")):
            out.append((p, rv))
    return out


def range_guard(a, v):
    # the message-id range gate in any spelling (message_id >= limit -> Err, or message_id < limit -> Ok); that it is exactly
    # `message_id < limit` is C12 R12-2 / C01 R01-6
    return a[0] == "b" and a[1][0] == "cmp" and a[1][1] in ("gt", "ge", "lt", "le")


PARTIAL_IO_RX = r"(std::io|ark_serialize|ark_std::io)::(Write::(write|write_vectored)|Read::(read|read_vectored))$"
IO_FILES = ("rln/src/public.rs", "rln/src/protocol.rs", "rln/src/utils.rs", "rln/src/hashers.rs")


def whole_io(ctx, fb, cfg):
    """R10-5: the byte interfaces read and write whole messages: no function of the public API layer calls Read::read or Write::write
    (which may transfer only part of the buffer); only read_to_end / read_exact / write_all and the arkworks (de)serialisers are used"""
    n = 0
    bad = []
    for path, it in sorted(fb.items.items()):
        if it.kind not in ("Fn", "AssocFn", "Closure") or it.file not in IO_FILES or it.get("test"):
            continue
        for b in it.blocks:
            t = b["term"]
            if t["k"] != "call":
                continue
            nm = t.get("resolved") or t.get("callee") or ""
            cal = t.get("callee") or ""
            if re.search(r"(Read|Write)::\w+$", cal) or re.search(r"(Read|Write)::\w+$", nm):
                n += 1
            if re.search(PARTIAL_IO_RX, cal) or re.search(PARTIAL_IO_RX, nm):
                bad.append((path, cal.split("::")[-1], t["sp"][0]))
    ctx.check(not bad, "R10-5", "whole-message I/O[%s]" % cfg, "%d Read/Write calls in the API layer, all read_to_end / read_exact / write_all" % n,
              "partial transfers: %s - a reader/writer that moves fewer bytes than asked makes the call proceed with a truncated message" % bad[:4])
    ctx.floor("io-calls[%s]" % cfg, n, 20 if cfg != "stateless" else 10)   # call-site counts move with harmless refactors (a loop over an array instead of four calls): the floor only guards against an empty inventory


DECODERS = ["rln::protocol::proof_inputs_to_rln_witness", "rln::protocol::deserialize_witness", "rln::utils::bytes_le_to_vec_fr", "rln::utils::bytes_le_to_vec_u8",
            "rln::utils::bytes_le_to_vec_usize", "rln::public::RLN::verify", "rln::public::RLN::verify_rln_proof", "rln::public::RLN::verify_with_roots",
            "rln::public::RLN::recover_id_secret"]


def no_over_rejection(ctx, fb, cfg):
    """R10-6: a length guard of a decoder may reject only inputs that are too short for what is read next. For every path that returns
    Err right after a comparison on the input's length, some read on the accepting continuation (a slice or index obligation) must be
    out of bounds under that comparison; otherwise the guard also rejects a well-formed encoding (e.g. the one with an empty signal)"""
    from .. import panics
    from ..symex import TooComplex
    old_fb = panics.FB
    panics.FB = fb
    n = 0
    try:
        todo = [fb.items[d] for d in DECODERS if d in fb.items]
        seen = set()
        while todo:
            it = todo.pop()
            if it.path in seen:
                continue
            seen.add(it.path)
            eng = Engine(fb, inline=opaque_rx(r"ZerokitMerkleTree>::|ZerokitMerkleProof>::"), max_depth=6)
            try:
                paths = eng.run(it)
            except TooComplex:
                continue
            # repository callees that were not inlined are decoders in their own right
            for p in paths:
                for e in p.trace:
                    if e[0] == "call":
                        t = fb.lookup(e[1].split("@")[0])
                        if t is not None and t.kind in ("Fn", "AssocFn") and t.file in IO_FILES and t.path not in seen:
                            todo.append(t)
            ind = panics.induction_vars(paths)
            for p in paths:
                if p.kind != "return" or known_ok(eng.value_of(p.store, p.ret)) is not False:
                    continue
                conds = [(j, e) for j, e in enumerate(p.trace) if e[0] == "cond"]
                if not conds:
                    continue
                j, ce = conds[-1]
                a, v = ce[1], ce[2]
                if not length_guard(a, v):
                    continue
                # anything between the guard and the return other than building the error?
                if any(e[0] in ("oblig", "write") for e in p.trace[j + 1:]):
                    continue
                n += 1
                f = panics.facts_with_induction(p.trace, j, ind)
                f.add_cond(a, v)
                # unsigned arithmetic: quotients and lengths in the guard are non-negative
                for t in subterms(a[1]):
                    if isinstance(t, tuple) and t and ((t[0] == "bin" and t[1] in ("Div", "Rem")) or t[0] == "len"):
                        f._add("<=", mk_const("usize", 0), t)
                justified = False
                later = 0
                for q in paths:
                    if q is p or len(q.trace) <= j or q.trace[:j] != p.trace[:j]:
                        continue
                    qe = q.trace[j]
                    if not (qe[0] == "cond" and qe[1] == a and qe[2] != v):
                        continue
                    for e in q.trace[j + 1:]:
                        if e[0] == "oblig" and e[1] in ("SliceIndex", "ElemIndex", "BoundsCheck", "Overflow:Sub"):
                            later += 1
                            if panics.violated(e[1], e[2], f):
                                justified = True
                                break
                            # a read inside `for i in lo..hi`: the last iteration (i = hi - 1) is the one a too-large count pushes out of bounds
                            from ..symex import subst
                            m = {}
                            for t in set(x for o in e[2] if isinstance(o, tuple) for x in subterms(o)):
                                rv_ = range_var(t)
                                if rv_ is not None and f.lt(rv_[0], rv_[1]):
                                    m[t] = fold_bin("Sub", rv_[1], mk_const("usize", 1))
                            if m:
                                ops2 = tuple(subst(o, m) if isinstance(o, tuple) else o for o in e[2])
                                if panics.violated(e[1], ops2, f):
                                    justified = True
                                    break
                    if justified:
                        break
                if later == 0:
                    ctx.notes.append("%s: guard %s is followed only by opaque reads (not decided)" % (it.path, sh(a, 80)))
                    continue
                key = "%s|%s[%s]" % (it.path.split("::")[-1], sh(a[1], 70), cfg)
                ctx.check(justified, "R10-6", "length guard " + key, "rejects only inputs on which a later read would be out of bounds",
                          "%s returns Err under %s = %s although none of the %d reads on the accepting continuation would be out of bounds under that condition: "
                          "a well-formed encoding of exactly that length (for instance one with an empty variable part) is rejected" % (it.path, sh(a[1], 100), v, later), loc(it, p.site))
    finally:
        panics.FB = old_fb
    ctx.floor("length-guards[%s]" % cfg, n, 6)


def run(ctx):
    cfgs = ["default"] if ctx.tier == "quick" else ["default", "stateless", "optimal"]
    ctx.prefetch(cfgs + ["fixtures"])
    for cfg in cfgs:
        fb = ctx.fb(cfg)
        primitives(ctx, fb, cfg)
        vec_codecs(ctx, fb, cfg)
        witness(ctx, fb, cfg)
        requests(ctx, fb, cfg)
        identities(ctx, fb, cfg)
        json_codec(ctx, fb, cfg)
        bigint_json(ctx, fb, cfg)
        whole_io(ctx, fb, cfg)
        if cfg != "stateless":
            no_over_rejection(ctx, fb, cfg)
        if cfg != "stateless":
            tree_exports(ctx, fb, cfg)
        from . import c04
        sub = type(ctx)(ctx.pid, ctx.tier)
        c04.check_orders(sub, fb, cfg)
        for r in sub.results:
            r.rule = "R10-1"
            ctx.results.append(r)


def primitives(ctx, fb, cfg):
    it = fb.need("rln::utils::fr_to_bytes_le")
    ctx.touch(it)
    v = prim(fb, it.path, P(1))
    good = v[0] == "upd" and v[1] == "std::vec::Vec::<T, A>::resize" and v[2] == 0 and cint(v[3][1]) == 32 and cint(v[3][2]) == 0 \
        and v[3][0][0] == "call" and v[3][0][1] == "num_bigint::BigUint::to_bytes_le" and v[3][0][2][0][0] == "call" \
        and re.search(r"(Into|From)", v[3][0][2][0][1]) and "BigUint" in v[3][0][2][0][1] and v[3][0][2][0][2] == (P(1),)
    ctx.check(good, "R10-2", "rln::utils::fr_to_bytes_le[%s]" % cfg, "resize32(to_bytes_le(BigUint(x)), 0)",
              "fr_to_bytes_le computes %s, specification 32-byte zero-padded little-endian BigUint(x)" % sh(v, 200), loc(it))
    it = fb.need("rln::utils::bytes_le_to_fr")
    ctx.touch(it)
    v = prim(fb, it.path, P(1))
    want = ("tuple", (call("<ark_ff::Fp<P, N> as std::convert::From<num_bigint::BigUint>>::from",
                           call("num_bigint::BigUint::from_bytes_le", sl(P(1), 0, 32))), mk_const("usize", 32)))
    ctx.check(v == want, "R10-2", "rln::utils::bytes_le_to_fr[%s]" % cfg, "(Fr::from(BigUint::from_bytes_le(in[0..32])), 32)",
              "bytes_le_to_fr computes %s" % sh(v, 200), loc(it))
    it = fb.need("rln::utils::normalize_usize")
    ctx.touch(it)
    v = prim(fb, it.path, P(1))
    le = call("core::num::<impl usize>::to_le_bytes", P(1))
    want = ("with", ("repeat", mk_const("u8", 0), "8_usize"), ("slice", mk_const("usize", 0), ("len", le)), le)
    alt = v[0] == "with" and v[1][0] == "repeat" and cint(v[1][1]) == 0 and str(v[1][2]).startswith("8") and v[2] == want[2] and v[3] == le
    ctx.check(v == want or alt, "R10-2", "rln::utils::normalize_usize[%s]" % cfg, "usize::to_le_bytes zero-padded to 8 bytes",
              "normalize_usize computes %s" % sh(v, 200), loc(it))
    # no big-endian constructor reachable from any codec
    roots = [p for p in fb.items if re.match(r"^rln::(utils::(\w*bytes\w*|normalize_usize)|protocol::(\w*serialize\w*|prepare_\w+|proof_inputs_to_rln_witness))$", p)]
    seen, ext, _ = reach(fb, roots, stop=lambda n: n.startswith("rln::public") or "pm_tree" in n or "merkle_tree" in n)
    be = sorted(n for n in ext if re.search(r"(from|to)_be_bytes|bytes_be\b|_be\b", n))
    ctx.floor("codec-functions[%s]" % cfg, len(roots), 15)
    ctx.check(not be, "R10-2", "endianness[%s]" % cfg, "%d codec functions reach no big-endian constructor" % len(roots),
              "big-endian conversion reachable from a codec: %s via %s" % (be[:3], ext.get(be[0]) if be else ""))


def vec_codecs(ctx, fb, cfg):
    # ---- writer of Vec<Fr>
    it = fb.need("rln::utils::vec_fr_to_bytes_le")
    ctx.touch(it)
    eng = Engine(fb)
    paths = eng.run(it)
    oks = ok_paths(eng, paths)
    backs = [p for p in paths if p.kind == "backedge"]
    good, why = False, "shape not recognised"
    if len(oks) == 1 and len(backs) == 1 and not only_ok_conds(oks[0][0]):
        rv = oks[0][1][4][0]
        if rv[0] == "phi" and rv[4] == ("cat", U64(fb, ("len", P(1)))):
            nv = carried_value(it, backs[0], rv[3])
            el = [s for s in subterms(nv) if s[0] == "unwrap" and s[1][0] == "call" and s[1][1].endswith("Iterator>::next")]
            if len(set(el)) == 1 and nv == ("cat", rv, FRB(fb, el[0])) and el[0][1][2] == (P(1),):
                good = True
            else:
                why = "loop body appends %s" % sh(nv, 200)
        else:
            why = "prefix is %s" % sh(rv, 200)
    if not good and len(oks) == 1 and not backs and not only_ok_conds(oks[0][0]):
        # the same writer spelled with iterator adaptors: `input.iter().map(fr_to_bytes_le).for_each(|b| bytes.extend_from_slice(&b))`
        # (or the codec applied inside the closure) on a buffer that holds the 8-byte count
        rv = oks[0][1][4][0]
        p0 = oks[0][0]
        if rv[0] == "upd" and str(rv[1]).endswith("Iterator::for_each") and len(rv[3]) == 2:
            seq, cl = rv[3]
            pre = [e for e in p0.trace if e[0] in ("append", "push")]
            mapped = seq[0] == "call" and seq[1].endswith("Iterator::map") and seq[2][0] == P(1) and seq[2][1] == ("fn", "rln::utils::fr_to_bytes_le")
            cit = fb.items.get(cl[1]) if (isinstance(cl, tuple) and cl and cl[0] == "closure") else None
            body_ok = False
            if cit is not None:
                cps = [q for q in Engine(fb, inline=lambda i: False).run(cit) if q.kind != "unreachable"]
                if len(cps) == 1 and cps[0].kind == "return" and not cps[0].conds():
                    ext = cps[0].calls(r"Vec::<T, A>::extend_from_slice$|Extend<.*>::extend$")
                    others = [c for c in cps[0].calls() if c not in ext and not re.search(r"fr_to_bytes_le$|deref$|as_slice$|as_ref$", c[1])]
                    if len(ext) == 1 and not others and contains(ext[0][2][0], F(P(1), "0")):
                        src = ext[0][2][1]
                        body_ok = (mapped and src == P(2)) or (seq == P(1) and src == call("rln::utils::fr_to_bytes_le", P(2)))
            if len(pre) == 1 and pre[0][3] == U64(fb, ("len", P(1))) and cit is not None and body_ok:
                good = True
            else:
                why = "iterator form: buffer prefix %s, sequence %s, closure appends its element: %s" % ([sh(e[3], 60) for e in pre], sh(seq, 80), body_ok)
    ctx.check(good, "R10-1", "rln::utils::vec_fr_to_bytes_le[%s]" % cfg, "u64 LE count, then fr_to_bytes_le of every element in order",
              "vector writer deviates from [len<8> | el<32>...]: " + why, loc(it))
    # ---- reader of Vec<Fr>
    it = fb.need("rln::utils::bytes_le_to_vec_fr")
    ctx.touch(it)
    eng = Engine(fb)
    paths = eng.run(it)
    oks = ok_paths(eng, paths)
    backs = [p for p in paths if p.kind == "backedge"]
    good, why = False, "shape not recognised (%d ok paths, %d loop bodies)" % (len(oks), len(backs))
    if len(oks) == 1 and len(backs) == 1 and not only_ok_conds(oks[0][0]):
        rv = oks[0][1][4][0]
        if rv[0] == "tuple" and rv[1][0][0] == "phi" and rv[1][1][0] == "phi":
            res, read = rv[1]
            b = backs[0]
            rng = [a[1][2][0] for a, v in b.conds() if a[0] == "ok" and a[1][0] == "call" and a[1][1].endswith("Range<A>>::next")]
            if rng and rng[0][0] == "phi" and rng[0][4][0] == "adt" and cint(rng[0][4][4][0]) == 0 and is_usz(rng[0][4][4][1], sl(P(1), 0, 8)):
                i = ("unwrap", call(rngname(b), rng[0]))
                off = fold_bin("Add", fold_bin("Mul", i, mk_const("usize", 32)), mk_const("usize", 8))
                el = prim(fb, "rln::utils::bytes_le_to_fr", ("slice", P(1), off, fold_bin("Add", off, mk_const("usize", 32))))[1][0]
                nres = carried_value(it, b, res[3])
                nread = carried_value(it, b, read[3])
                if res[4] == ("vecnew",) and cint(read[4]) == 8 and nres == ("push", res, el) and nread == fold_bin("Add", read, mk_const("usize", 32)):
                    good = True
                else:
                    why = "element i read as %s, read advances to %s (init %s)" % (sh(nres, 200), sh(nread, 80), sh(read[4]))
            else:
                why = "count is not the u64 LE at [0..8]"
            if not good:
                # the same reader spelled `for chunk in input[8..8 + 32 * count].chunks_exact(32) { push(bytes_le_to_fr(chunk)); read += 32 }`
                ch = [c for c in b.calls(r"slice::ChunksExact<'a, T> as std::iter::Iterator>::next$")]
                if len(ch) == 1 and ch[0][2] and ch[0][2][0][0] == "phi":
                    src = ch[0][2][0][4]
                    item = ("unwrap", ("call", ch[0][1], ch[0][2]))
                    if isinstance(src, tuple) and src[0] == "call" and src[1].endswith("::chunks_exact") and cint(src[2][1]) == 32 and isinstance(src[2][0], tuple) and src[2][0][0] == "slice" \
                            and src[2][0][1] == P(1) and cint(src[2][0][2]) == 8:
                        hi = src[2][0][3]
                        cnt = None
                        if isinstance(hi, tuple) and hi[:2] == ("bin", "Add") and cint(hi[3]) == 8 and isinstance(hi[2], tuple) and hi[2][:2] == ("bin", "Mul"):
                            cnt = [x for x in hi[2][2:] if cint(x) != 32]
                        el2 = prim(fb, "rln::utils::bytes_le_to_fr", item)[1][0]
                        nres = carried_value(it, b, res[3])
                        nread = carried_value(it, b, read[3])
                        if cnt and len(cnt) == 1 and is_usz(cnt[0], sl(P(1), 0, 8)) and res[4] == ("vecnew",) and cint(read[4]) == 8 \
                                and nres == ("push", res, el2) and nread == fold_bin("Add", read, mk_const("usize", 32)):
                            good = True
                        else:
                            why = "chunked reader: chunks of %s, element %s, read advances to %s" % (sh(src, 120), sh(nres, 120), sh(nread, 60))
    ctx.check(good, "R10-1", "rln::utils::bytes_le_to_vec_fr[%s]" % cfg, "count = u64 LE at 0; element i = bytes_le_to_fr(in[8+32i..8+32(i+1)]); read = 8+32*count",
              "vector reader deviates from [len<8> | el<32>...]: " + why, loc(it))
    # ---- Vec<u8>
    it = fb.need("rln::utils::vec_u8_to_bytes_le")
    ctx.touch(it)
    eng = Engine(fb)
    oks = ok_paths(eng, eng.run(it))
    good = len(oks) == 1 and oks[0][1][4][0] == ("cat", U64(fb, ("len", P(1))), P(1)) and not only_ok_conds(oks[0][0])
    ctx.check(good, "R10-1", "rln::utils::vec_u8_to_bytes_le[%s]" % cfg, "[len<8> | bytes]", "byte-vector writer deviates from [len<8> | bytes]: %s" % (
        sh(oks[0][1], 200) if oks else "no success path"), loc(it))
    it = fb.need("rln::utils::bytes_le_to_vec_u8")
    ctx.touch(it)
    eng = Engine(fb)
    oks = ok_paths(eng, eng.run(it))
    good = False
    if len(oks) == 1 and not only_ok_conds(oks[0][0]):
        rv = oks[0][1][4][0]
        if rv[0] == "tuple" and rv[1][0][0] == "slice" and rv[1][0][1] == P(1) and cint(rv[1][0][2]) == 8:
            hi = rv[1][0][3]
            if hi[0] == "bin" and hi[1] == "Add" and cint(hi[3]) == 8 and is_usz(hi[2], sl(P(1), 0, 8)) and rv[1][1] == hi:
                good = True
    ctx.check(good, "R10-1", "rln::utils::bytes_le_to_vec_u8[%s]" % cfg, "(in[8..8+len], 8+len) with len the u64 LE at 0",
              "byte-vector reader deviates: %s" % (sh(oks[0][1], 300) if oks else "no success path"), loc(it))


def rngname(b):
    for a, v in b.conds():
        if a[0] == "ok" and a[1][0] == "call" and a[1][1].endswith("Range<A>>::next"):
            return a[1][1]
    return "?"


def witness(ctx, fb, cfg):
    # ---- writer
    it = fb.need("rln::protocol::serialize_witness")
    ctx.touch(it)
    eng = Engine(fb, inline=opaque_rx(r"^rln::utils::vec_(fr|u8)_to_bytes_le$"))
    oks = ok_paths(eng, eng.run(it))
    W = P(1)
    enc = {"FR": lambda f: FRB(fb, F(W, f)), "VECFR": lambda f: ("unwrap", call("rln::utils::vec_fr_to_bytes_le", F(W, f))),
           "VECU8": lambda f: ("unwrap", call("rln::utils::vec_u8_to_bytes_le", F(W, f)))}
    want = ("cat",) + tuple(enc[k](f) for k, f in WITNESS)
    good = len(oks) == 1 and oks[0][1][4][0] == want and not only_ok_conds(oks[0][0], range_guard)
    ctx.check(good, "R10-1", "rln::protocol::serialize_witness[%s]" % cfg, "fields written in documented order with their codecs",
              "witness writer deviates from [identity_secret|user_message_limit|message_id|path_elements|identity_path_index|x|external_nullifier]: %s" % (
                  sh(oks[0][1], 500) if oks else "no single success path"), loc(it))
    # ---- reader
    it = fb.need("rln::protocol::deserialize_witness")
    ctx.touch(it)
    eng = Engine(fb, inline=opaque_rx(r"^rln::utils::bytes_le_to_vec_(fr|u8)$"))
    oks = ok_paths(eng, eng.run(it))
    b = P(1)
    off = mk_const("usize", 0)
    exp = {}
    for k, f in WITNESS:
        if k == "FR":
            exp[f], off = FRD(fb, b, off)
        else:
            fn = "rln::utils::bytes_le_to_vec_fr" if k == "VECFR" else "rln::utils::bytes_le_to_vec_u8"
            V = ("unwrap", call(fn, ("slice", b, off, None)))
            exp[f] = F(V, "0")
            off = fold_bin("Add", off, F(V, "1"))
    good, why = False, "no single success path"
    if len(oks) == 1:
        p, rv = oks[0]
        t = rv[4][0]
        if t[0] == "tuple" and t[1][0][0] == "adt":
            got = dict(zip(t[1][0][3], t[1][0][4]))
            bad = [f for f in exp if got.get(f) != exp[f]]
            if bad:
                why = "field %s decoded as %s, layout says %s" % (bad[0], sh(got.get(bad[0]), 200), sh(exp[bad[0]], 200))
            elif t[1][1] != off:
                why = "bytes consumed reported as %s, layout says %s" % (sh(t[1][1], 200), sh(off, 200))
            else:
                good = True
        # R10-3 exact-length clause
        cm = cond_map(p)
        ne = ("b", ("bin", "Ne", ("len", b), off))
        eq = ("b", ("bin", "Eq", ("len", b), off))
        exact = cm.get(ne) is False or cm.get(eq) is True
        ctx.check(exact, "R10-3", "rln::protocol::deserialize_witness[%s]" % cfg, "Ok only when len(input) == bytes consumed",
                  "witness decoding can succeed on an encoding with missing or trailing bytes: no len == consumed test dominates Ok", loc(it))
        extra = only_ok_conds(p, lambda a, v: range_guard(a, v) or a in (ne, eq))
        if extra and good:
            good, why = False, "decoding is additionally conditioned on %s" % [(sh(a, 100), v) for a, v in extra]
    ctx.check(good, "R10-1", "rln::protocol::deserialize_witness[%s]" % cfg, "fields read at the running offsets of the documented layout",
              "witness reader deviates: " + why, loc(it))


def requests(ctx, fb, cfg):
    # prove input writer
    it = fb.need("rln::protocol::prepare_prove_input")
    ctx.touch(it)
    v = prim(fb, it.path, *[P(i) for i in range(1, 7)])
    want = ("cat", FRB(fb, P(1)), U64(fb, P(2)), FRB(fb, P(3)), FRB(fb, P(4)), FRB(fb, P(5)), U64(fb, ("len", P(6))), P(6))
    ctx.check(v == want, "R10-1", "rln::protocol::prepare_prove_input[%s]" % cfg,
              "[identity_secret<32>|id_index<8>|user_message_limit<32>|message_id<32>|external_nullifier<32>|signal_len<8>|signal]",
              "prove-request writer deviates from the documented layout: %s" % sh(v, 400), loc(it))
    it = fb.need("rln::protocol::prepare_verify_input")
    ctx.touch(it)
    v = prim(fb, it.path, P(1), P(2))
    want = ("cat", P(1), U64(fb, ("len", P(2))), P(2))
    ctx.check(v == want, "R10-1", "rln::protocol::prepare_verify_input[%s]" % cfg, "[proof_data|signal_len<8>|signal]",
              "verify-request writer deviates: %s" % sh(v, 300), loc(it))
    if cfg == "stateless":
        return
    # prove input reader
    r = prove_request_reader(fb)
    if isinstance(r, str):
        ctx.fail("R10-1", "rln::protocol::proof_inputs_to_rln_witness[%s]" % cfg, r, loc(fb.need("rln::protocol::proof_inputs_to_rln_witness")))
    else:
        ctx.touch(fb.need("rln::protocol::proof_inputs_to_rln_witness"))
        ctx.ok("R10-1", "rln::protocol::proof_inputs_to_rln_witness[%s]" % cfg,
               "fields read at 0,32(u64),40,72,104,136(u64),144.. as documented; x = hash_to_field(signal); path from tree.proof(id_index)")


def prove_request_reader(fb):
    """returns the success path facts of proof_inputs_to_rln_witness or an error string (shared with C01 R01-3)"""
    it = fb.need("rln::protocol::proof_inputs_to_rln_witness")
    eng = Engine(fb, inline=opaque_rx(r"ZerokitMerkle(Tree|Proof)>::|^rln::hashers::hash_to_field$"))
    oks = ok_paths(eng, eng.run(it))
    if len(oks) != 1:
        return "specified as one decoding for all requests: found %d success paths" % len(oks)
    p, rv = oks[0]
    t = rv[4][0]
    if not (t[0] == "tuple" and t[1][0][0] == "adt"):
        return "success value is not (RLNWitnessInput, usize)"
    got = dict(zip(t[1][0][3], t[1][0][4]))
    b = P(2)
    exp = {}
    exp["identity_secret"], off = FRD(fb, b, mk_const("usize", 0))
    idx_slice = ("slice", b, off, fold_bin("Add", off, mk_const("usize", 8)))
    off = fold_bin("Add", off, mk_const("usize", 8))
    exp["user_message_limit"], off = FRD(fb, b, off)
    exp["message_id"], off = FRD(fb, b, off)
    exp["external_nullifier"], off = FRD(fb, b, off)
    len_slice = ("slice", b, off, fold_bin("Add", off, mk_const("usize", 8)))
    off = fold_bin("Add", off, mk_const("usize", 8))
    for f in ["identity_secret", "user_message_limit", "message_id", "external_nullifier"]:
        if got.get(f) != exp[f]:
            return "field %s decoded as %s, documented layout says %s" % (f, sh(got.get(f), 160), sh(exp[f], 160))
    # x = hash_to_field(signal)
    x = got.get("x")
    if not (x[0] == "call" and x[1] == "rln::hashers::hash_to_field" and x[2][0][0] == "slice" and x[2][0][1] == b and x[2][0][2] == off):
        return "x is %s, specification hash_to_field(input[%s..%s+signal_len])" % (sh(x, 200), sh(off), sh(off))
    hi = x[2][0][3]
    if not (hi is not None and hi[0] == "bin" and hi[1] == "Add" and hi[3] == off and is_usz(hi[2], len_slice)):
        return "signal slice ends at %s, specification offset+signal_len with signal_len the u64 LE at %s" % (sh(hi, 200), sh(len_slice))
    # merkle path
    pe, pi = got.get("path_elements"), got.get("identity_path_index")
    proofs = [c for c in p.calls(r"ZerokitMerkleTree>::proof$")]
    if len(proofs) != 1 or proofs[0][2][0] != P(1) or not is_usz(proofs[0][2][1], idx_slice):
        return "Merkle path is not taken from tree.proof(id_index) with id_index the u64 LE at %s: %s" % (sh(idx_slice), [sh(c[2], 200) for c in proofs])
    pr = call(proofs[0][1], *proofs[0][2])
    okp = None
    for s in subterms(pe):
        if s[0] in ("unwrap",) and s[1] == pr:
            okp = s
    if okp is None or not (pe[0] == "call" and pe[1].endswith("ZerokitMerkleProof>::get_path_elements") and pe[2] == (okp,)) \
            or not (pi[0] == "call" and pi[1].endswith("ZerokitMerkleProof>::get_path_index") and pi[2] == (okp,)):
        return "path_elements / identity_path_index are not get_path_elements()/get_path_index() of that proof: %s / %s" % (sh(pe, 160), sh(pi, 160))
    extra = only_ok_conds(p)
    if extra:
        return "request decoding is additionally conditioned on %s" % [(sh(a, 100), v) for a, v in extra]
    return {"path": p, "fields": got, "consumed": t[1][1]}


def identities(ctx, fb, cfg):
    for fn, n in [("rln::protocol::deserialize_identity_pair", 2), ("rln::protocol::deserialize_identity_tuple", 4)]:
        it = fb.need(fn)
        ctx.touch(it)
        v = prim(fb, fn, P(1))
        off = mk_const("usize", 0)
        exp = []
        for i in range(n):
            e, off = FRD(fb, P(1), off)
            exp.append(e)
        ctx.check(v == ("tuple", tuple(exp)), "R10-1", "%s[%s]" % (fn, cfg), "%d field elements at 32-byte strides" % n,
                  "identity reader deviates: %s" % sh(v, 300), loc(it))
    # the writers of the same layouts (rule shared with C14 R14-3): the key generation entry points write the tuple's components
    # in the documented order, each through fr_to_bytes_le
    from . import c14
    sub = type(ctx)(ctx.pid, ctx.tier)
    c14.check_export(sub, fb, cfg, "rln::public::RLN::key_gen", "rln::protocol::keygen", 2, False)
    c14.check_export(sub, fb, cfg, "rln::public::RLN::extended_key_gen", "rln::protocol::extended_keygen", 4, False)
    c14.check_export(sub, fb, cfg, "rln::public::RLN::seeded_key_gen", "rln::protocol::seeded_keygen", 2, True)
    c14.check_export(sub, fb, cfg, "rln::public::RLN::seeded_extended_key_gen", "rln::protocol::extended_seeded_keygen", 4, True)
    for r in sub.results:
        (ctx.ok if r.status == "ok" else ctx.fail)("R10-1", r.instance, r.reason, r.loc)


def json_codec(ctx, fb, cfg):
    se = fb.need("rln::protocol::ark_se")
    de = fb.need("rln::protocol::ark_de")
    ctx.touch(se)
    ctx.touch(de)
    sn = [t.get("resolved") or t.get("callee") for b in se.blocks for t in [b["term"]] if t["k"] == "call"]
    dn = [t.get("resolved") or t.get("callee") for b in de.blocks for t in [b["term"]] if t["k"] == "call"]
    s_c = any(re.search(r"serialize_compressed$", n or "") for n in sn)
    d_c = any(re.search(r"deserialize_compressed(_unchecked)?$", n or "") for n in dn)
    s_u = any(re.search(r"serialize_uncompressed$", n or "") for n in sn)
    d_u = any(re.search(r"deserialize_uncompressed(_unchecked)?$", n or "") for n in dn)
    ctx.check((s_c and d_c and not s_u and not d_u) or (s_u and d_u and not s_c and not d_c), "R10-4", "json-witness-codec[%s]" % cfg,
              "ark_se and ark_de use the same compression mode", "JSON witness writer and reader use different compression modes", loc(se))
    adt = fb.adts.get("rln::protocol::RLNWitnessInput")
    names = [f["name"] for f in adt["variants"][0]["fields"]] if adt else []
    ctx.check(names == ["identity_secret", "user_message_limit", "message_id", "path_elements", "identity_path_index", "x", "external_nullifier"],
              "R10-4", "RLNWitnessInput-fields[%s]" % cfg, "7 fields as documented", "RLNWitnessInput field set changed: %s" % names)


def is_unsigned_bigint_of(t, x):
    """t is the non-negative BigInt of the whole field element x: BigInt <- BigUint <- Fr, through From / Into (or
    BigInt::from_biguint(Plus, ..)); any byte-level reinterpretation (signed bytes, truncation) is something else"""
    for _ in range(4):
        if not (isinstance(t, tuple) and t and t[0] == "call" and t[2]):
            return False
        n = t[1]
        if re.search(r"Into<U>>::into@\[num_bigint::BigUint, num_bigint::BigInt\]$|From<num_bigint::BigUint> for num_bigint::BigInt>::from$", n):
            t = t[2][0]
            continue
        if re.search(r"BigInt::from_biguint$", n) and len(t[2]) == 2 and "Plus" in str(t[2][0]):
            t = t[2][1]
            continue
        if re.search(r"From<ark_ff::Fp<P, N>> for num_bigint::BigUint>::from$|Into<U>>::into@\[ark_ff::Fp<.*>, num_bigint::BigUint\]$", n):
            return t[2][0] == x
        return False
    return False


JSON_SCALARS = {"identitySecret": "identity_secret", "userMessageLimit": "user_message_limit", "messageId": "message_id",
                "x": "x", "externalNullifier": "external_nullifier"}


def reduce_maps(fb, t, depth=0):
    """`Ok(v).map(|b| g(b))` / `Some(v).map(..)` with a known single-path closure is `Ok(g(v))`; unwrap(Ok(v)) is v"""
    if not isinstance(t, tuple) or not t or depth > 12:
        return t
    t = tuple(reduce_maps(fb, x, depth + 1) if isinstance(x, tuple) else x for x in t)
    if t[0] == "call" and re.search(r"(Result::<T, E>|Option::<T>)::map$", t[1]) and len(t[2]) == 2:
        src, cl = t[2]
        if src[0] == "adt" and src[2] in ("Ok", "Some") and len(src[4]) == 1 and isinstance(cl, tuple) and cl and cl[0] == "closure":
            cps = closure_paths(fb, cl, elem=src[4][0])
            if cps and len(cps) == 1 and not cps[0][0]:
                return (src[0], src[1], src[2], src[3], (reduce_maps(fb, cps[0][1], depth + 1),))
    if t[0] == "unwrap" and isinstance(t[1], tuple) and t[1] and t[1][0] == "adt" and t[1][2] in ("Ok", "Some") and len(t[1][4]) == 1:
        return t[1][4][0]
    return t


def bigint_json(ctx, fb, cfg):
    """R10-7: the decimal JSON witness (input of an external witness calculator): to_bigint(el) is the non-negative integer of the
    whole element, and each documented key carries the base-10 string of the same-named witness field (path vectors element-wise)"""
    tb = fb.need("rln::utils::to_bigint")
    ctx.touch(tb)
    eng = Engine(fb, inline=lambda i: False)
    ps = [p for p in eng.run(tb) if p.kind != "unreachable"]
    why = ""
    if len(ps) != 1 or ps[0].conds():
        why = "to_bigint is specified as one unconditional path, found %d path(s)%s" % (len(ps), " with conditions" if any(p.conds() for p in ps) else "")
    else:
        rv = eng.value_of(ps[0].store, ps[0].ret)
        inner = rv[4][0] if (rv[0] == "adt" and rv[2] == "Ok" and rv[4]) else None
        if inner is None or not is_unsigned_bigint_of(inner, P(1)):
            why = "to_bigint returns %s, specification Ok(BigInt::from(BigUint::from(el))) - the non-negative integer of the whole element" % sh(rv, 140)
    ctx.check(not why, "R10-7", "to_bigint[%s]" % cfg, "Ok(BigInt::from(BigUint::from(el)))", why, loc(tb))
    it = fb.need("rln::protocol::rln_witness_to_bigint_json")
    ctx.touch(it)
    eng = Engine(fb, inline=opaque_rx(r"^rln::protocol::message_id_range_check$"))
    paths = [p for p in eng.run(it) if p.kind != "unreachable"]
    oks = [p for p, rv in ok_paths(eng, paths) if any(re.search(r"Map::<.*>::insert$", c[1]) for c in p.calls())]
    why = ""
    if len(oks) != 1:
        why = "expected one success path that builds the object, found %d" % len(oks)
    else:
        got = {}
        for c in oks[0].calls(r"serde_json::Map::<.*>::insert$"):
            k = [x[1] for x in subterms(c[2][1]) if isinstance(x, tuple) and len(x) == 2 and x[0] == "str"]
            got[k[-1] if k else sh(c[2][1], 30)] = c[2][2]
        want = set(JSON_SCALARS) | {"pathElements", "identityPathIndex"}
        if set(got) != want:
            why = "keys written are %s, documented %s" % (sorted(got), sorted(want))
        for k, fld in sorted(JSON_SCALARS.items()):
            if why:
                break
            v = reduce_maps(fb, got[k])
            strs = [t for t in subterms(v) if isinstance(t, tuple) and t and t[0] == "call" and t[1].endswith("BigInt::to_str_radix")]
            if not (len(strs) == 1 and cint(strs[0][2][1]) == 10 and is_unsigned_bigint_of(strs[0][2][0], F(P(1), fld))):
                why = "key %s carries %s, specification the base-10 string of to_bigint(witness.%s)" % (k, sh(v, 120), fld)
        if not why:
            if not contains(got["identityPathIndex"], F(P(1), "identity_path_index")):
                why = "identityPathIndex is not built from witness.identity_path_index"
            pe = [p for p in paths if p.kind == "backedge"]
            pushed = [e for p in pe for e in p.trace if e[0] in ("push", "append")]
            good = [e for e in pushed if isinstance(e[3], tuple) and e[3][0] == "call" and e[3][1].endswith("BigInt::to_str_radix") and cint(e[3][2][1]) == 10
                    and contains(e[3][2][0], F(P(1), "path_elements"))
                    and is_unsigned_bigint_of(e[3][2][0], [t for t in subterms(e[3][2][0]) if isinstance(t, tuple) and t and t[0] == "unwrap"][0] if [t for t in subterms(e[3][2][0]) if isinstance(t, tuple) and t and t[0] == "unwrap"] else None)]
            mapped_ok = False
            if not pushed:
                # iterator form: path_elements.iter().map(f).collect(): f (a function or a closure) is the decimal string of its element
                for t in subterms(got["pathElements"]):
                    if isinstance(t, tuple) and t and t[0] == "call" and t[1].endswith("Iterator::map") and len(t[2]) == 2 and contains(t[2][0], F(P(1), "path_elements")):
                        fterm = t[2][1]
                        vals = []
                        if fterm[0] == "fn" and fb.lookup(fterm[1]) is not None:
                            e2 = Engine(fb)
                            vals = [rv2 for _, rv2 in ok_paths(e2, e2.run(fb.lookup(fterm[1])))]
                            elem = P(1)
                        elif fterm[0] == "closure":
                            vals = [v for _, v in (closure_paths(fb, fterm) or [])]
                            elem = ELEM
                        for v in vals:
                            v = reduce_maps(fb, v)
                            ss = [x for x in subterms(v) if isinstance(x, tuple) and x and x[0] == "call" and x[1].endswith("BigInt::to_str_radix")]
                            if len(ss) == 1 and cint(ss[0][2][1]) == 10 and is_unsigned_bigint_of(ss[0][2][0], elem):
                                mapped_ok = True
            if not why and not mapped_ok and (not pushed or len(good) != len(pushed)):
                why = "pathElements entries are %s, specification the base-10 string of to_bigint(element) for every element" % [sh(e[3], 80) for e in pushed][:2]
    ctx.check(not why, "R10-7", "rln_witness_to_bigint_json[%s]" % cfg, "seven documented keys, each the decimal string of the same-named witness field", why, loc(it))


def tree_exports(ctx, fb, cfg):
    it = fb.need("rln::public::RLN::get_proof")
    ctx.touch(it)
    eng = Engine(fb, inline=opaque_rx(r"ZerokitMerkle(Tree|Proof)>::|^rln::utils::vec_(fr|u8)_to_bytes_le$"))
    oks = ok_paths(eng, eng.run(it))
    good, why = False, "expected one success path, found %d" % len(oks)
    if len(oks) == 1:
        p = oks[0][0]
        apps = [e[3] for e in p.trace if e[0] == "append" and e[1][0] == p.frame and e[1][1] in (3, -3)]
        proofs = p.calls(r"ZerokitMerkleTree>::proof$")
        if len(proofs) == 1 and proofs[0][2] == (F(P(1), "tree"), P(2)):
            pr = ("unwrap", call(proofs[0][1], *proofs[0][2]))
            pe = [c for c in p.calls(r"ZerokitMerkleProof>::get_path_elements$")]
            pi = [c for c in p.calls(r"ZerokitMerkleProof>::get_path_index$")]
            if len(pe) == 1 and len(pi) == 1 and pe[0][2] == (pr,) and pi[0][2] == (pr,):
                want = [("unwrap", call("rln::utils::vec_fr_to_bytes_le", call(pe[0][1], pr))),
                        ("unwrap", call("rln::utils::vec_u8_to_bytes_le", call(pi[0][1], pr)))]
                good = apps == want
                why = "writes %s" % [sh(a, 160) for a in apps]
    ctx.check(good, "R10-1", "rln::public::RLN::get_proof[%s]" % cfg, "[vec_fr(path_elements) | vec_u8(path_index)] of tree.proof(index)",
              "Merkle proof export deviates from [path_elements | path_index]: " + why, loc(it))
    it = fb.need("rln::public::RLN::get_empty_leaves_indices")
    ctx.touch(it)
    eng = Engine(fb, inline=opaque_rx(r"ZerokitMerkle(Tree|Proof)>::"))
    oks = ok_paths(eng, eng.run(it))
    good = False
    if len(oks) == 1:
        p = oks[0][0]
        sc = p.calls(r"CanonicalSerialize::serialize_compressed$")
        good = len(sc) == 1 and sc[0][2][0][0] == "call" and sc[0][2][0][1].endswith("ZerokitMerkleTree>::get_empty_leaves_indices") \
            and sc[0][2][0][2] == (F(P(1), "tree"),)
    ctx.check(good, "R10-1", "rln::public::RLN::get_empty_leaves_indices[%s]" % cfg, "serialize_compressed(tree.get_empty_leaves_indices()) to the output",
              "empty-index export is not the compressed serialisation of tree.get_empty_leaves_indices()", loc(it))
    # its reader
    it = fb.need("rln::utils::bytes_le_to_vec_usize")
    ctx.touch(it)
    eng = Engine(fb)
    oks = ok_paths(eng, eng.run(it))
    good = False
    for p, rv in oks:
        t = rv[4][0]
        if t[0] == "call" and t[1].endswith("::map") and t[2][0] == call("core::slice::<impl [T]>::chunks", sl(P(1), 8, None), mk_const("usize", 8)):
            cl = fb.items.get(t[2][1][1]) if t[2][1][0] == "closure" else None
            if cl is not None:
                ctx.touch(cl)
                e2 = Engine(fb)
                cps = ret_paths(e2.run(cl))
                if len(cps) == 1:
                    r = e2.value_of(cps[0].store, cps[0].ret)
                    good = r[0] == "call" and r[1] == "core::num::<impl usize>::from_le_bytes" and contains(r, sl(P(2), 0, 8))
    ctx.check(good, "R10-1", "rln::utils::bytes_le_to_vec_usize[%s]" % cfg, "count<8> then usize LE per 8-byte chunk",
              "index-list reader deviates from [count<8> | idx<8>...] little-endian", loc(it))
