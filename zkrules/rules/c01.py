"""C01 Every proof generated for a valid membership and message verifies: the structural half - one proving pipeline on one
witness with the instance's own key and graph, request pass-through, key coherence, name/field table."""
import re
from ..symex import Engine, show, subterms, contains, known_ok
from ..lib import *
from ..facts import MissingAnchor

INFO = {
    "level": "other",
    "explanation": "Decides the structural half of completeness: that all native proving entry points run one pipeline on one witness with "
                   "the instance's own key and graph, that the request reaches the witness unmodified, and that prover and verifier keys "
                   "cannot diverge. R01-1 pipeline (every success path of RLN::prove, generate_rln_proof, "
                   "generate_rln_proof_with_witness, as expression DAGs): the witness W is the first component of "
                   "deserialize_witness(input) resp. proof_inputs_to_rln_witness(&mut self.tree, input) with input = all bytes read; the "
                   "proof is generate_proof(&self.proving_key, &W, &self.graph_data); the output receives the compressed proof first "
                   "and then serialize_proof_values(proof_values_from_witness(&W)?) of the same W. R01-2 key coherence (every RLN "
                   "constructor, every configuration): verification_key is the .0.vk of the very value stored in proving_key, "
                   "proving_key comes from zkey_from_folder()/zkey_from_raw(caller bytes), graph_data from graph_from_folder()/the "
                   "caller. R01-3 request pass-through in proof_inputs_to_rln_witness: the leaf index decoded at [32..40] reaches "
                   "tree.proof(.) through the u64->usize conversion only; path_elements/identity_path_index are exactly "
                   "get_path_elements()/get_path_index() of that proof; x = hash_to_field(input[144..144+signal_len]) with signal_len the u64 "
                   "at [136..144]; the four field elements reach their witness fields unmodified. R01-4 generate_proof: the circuit "
                   "inputs are the seven (name, vector) pairs name->field (identitySecret->identity_secret, ... ) of that witness, the "
                   "witness vector is calculate_rln_witness(inputs, graph), and Groth16 is called with (pk.0, r, s, pk.1, "
                   "pk.1.num_instance_variables, pk.1.num_constraints, witness vector) where r and s are two successive draws of one "
                   "thread_rng. The name table against the bundled graph is C05 R05-3; the verifier's public-input order is C02 R02-3. R01-7 instance state: the proving key, verifying key and graph of an instance have no writer after construction (who-may-write inventory over the MIR), and generate_rln_proof / get_serialized_rln_witness / get_proof / get_root / get_leaf reach no tree mutator in their resolved call graph. R01-8 (shared with C06 R06-3): the in-memory back ends recompute every ancestor of a written range up to the root, unconditionally, so the root a proof is checked against reflects every write. R01-9: generate_proof_with_witness maps each signed element w of an externally computed witness to p - |w| when negative and to w otherwise (or a floored remainder by p), for every element. R01-10 (shared with C07): the Merkle path a proof is made for is the stored sibling at every level in the three back ends. R01-11 (shared with C02): the verification entry points accept under exactly the specified conditions. R01-12 (shared, C06 R06-11 / C17 R17-3): the member's path is read back from the store: the key-value adapter persists every record and the node codec is the 32-byte field codec.",
    "not_decided": "that a proof produced from a satisfying witness verifies (Groth16, QAP reduction, zkey and graph contents - numeric); "
                   "the wasm32-only entry point that takes an externally computed witness vector (no wasm32 std here: cannot be type-checked)",
    "assumptions": ["arkworks Groth16 completeness for a satisfying assignment", "the bundled zkey and graph belong to the same circuit"],
}

OPQ = r"^rln::protocol::(deserialize_witness|proof_inputs_to_rln_witness|proof_values_from_witness|generate_proof|serialize_proof_values)$"
NAMES = [("identitySecret", "identity_secret", 1), ("userMessageLimit", "user_message_limit", 1), ("messageId", "message_id", 1), ("pathElements", "path_elements", None),
         ("identityPathIndex", "identity_path_index", None), ("x", "x", 1), ("externalNullifier", "external_nullifier", 1)]


def check_pipeline(ctx, fb, cfg, fn, from_tree, with_values):
    it = fb.items.get(fn)
    if it is None:
        return 0
    ctx.touch(it)
    inst = "%s[%s]" % (fn, cfg)
    eng = Engine(fb, inline=opaque_rx(OPQ))
    oks = [p for p in eng.run(it) if p.kind == "return" and known_ok(eng.value_of(p.store, p.ret)) is not False]
    if len(oks) != 1:
        ctx.fail("R01-1", inst, "expected exactly one success path, found %d" % len(oks), loc(it))
        return 1
    p = oks[0]
    INPUT = find_input(p, 2)
    if INPUT is None:
        ctx.fail("R01-1", inst, "the request is not read completely from input_data", loc(it))
        return 1
    if from_tree:
        wcall = call("rln::protocol::proof_inputs_to_rln_witness", F(P(1), "tree"), INPUT)
    else:
        wcall = call("rln::protocol::deserialize_witness", INPUT)
    W = F(("unwrap", wcall), "0")
    proof = ("unwrap", call("rln::protocol::generate_proof", F(P(1), "proving_key"), W, F(P(1), "graph_data")))
    gp = p.calls(r"protocol::generate_proof$")
    if len(gp) != 1 or ("call", gp[0][1], gp[0][2]) != proof[1]:
        ctx.fail("R01-1", inst, "proof is %s, specification generate_proof(&self.proving_key, &W, &self.graph_data) with W = %s" % (
            [sh(("call", g[1], g[2]), 300) for g in gp], sh(W, 160)), loc(it, gp[0][3]) if gp else loc(it))
        return 1
    # outputs, in order
    outs = []
    for e in p.trace:
        if e[0] == "call" and e[1].endswith("CanonicalSerialize::serialize_compressed"):
            outs.append(("proof", e[2][0], e[2][1]))
        if e[0] == "append" and e[1][1] in (3, -3):
            outs.append(("bytes", e[3]))
    want_vals = call("rln::protocol::serialize_proof_values", ("unwrap", call("rln::protocol::proof_values_from_witness", W)))
    ok = len(outs) >= 1 and outs[0][0] == "proof" and outs[0][1] == proof
    why = "first output is %s" % (sh(outs[0][1], 200) if outs else None)
    if ok and with_values:
        ok = len(outs) == 2 and outs[1] == ("bytes", want_vals)
        why = "after the proof the output receives %s, specification serialize_proof_values(proof_values_from_witness(&W)?) of the same witness" % (
            [sh(o[1], 300) for o in outs[1:]])
    if ok and not with_values and len(outs) != 1:
        ok, why = False, "unexpected additional output %s" % [sh(o[1], 100) for o in outs[1:]]
    ctx.check(ok, "R01-1", inst, "one witness -> generate_proof(self.proving_key, W, self.graph_data) -> compressed proof%s" % (" | proof values of W" if with_values else ""), why, loc(it))
    return 1


def check_constructors(ctx, fb, cfg):
    n = 0
    for fn in ("rln::public::RLN::new", "rln::public::RLN::new_with_params"):
        it = fb.items.get(fn)
        if it is None:
            raise MissingAnchor("%s (config %s)" % (fn, cfg))
        ctx.touch(it)
        inst = "%s[%s]" % (fn, cfg)
        eng = Engine(fb, inline=opaque_rx(r"^rln::circuit::(zkey_from_raw|zkey_from_folder|graph_from_folder)$|ZerokitMerkleTree>::(new|default)$|FromStr>::from_str$"))
        oks = []
        for p in eng.run(it):
            if p.kind == "return":
                rv = eng.value_of(p.store, p.ret)
                if known_ok(rv) is True:
                    oks.append(rv[4][0])
        if not oks:
            ctx.fail("R01-2", inst, "no success path", loc(it))
            continue
        bad = None
        for r in oks:
            f = dict(zip(r[3], r[4]))
            pk, vk, gd = f.get("proving_key"), f.get("verification_key"), f.get("graph_data")
            if vk != F(F(pk, "0"), "vk") and not (pk[0] == "tuple" and vk == F(pk[1][0], "vk")):
                bad = "verification_key is %s, not the .0.vk of the stored proving_key %s" % (sh(vk, 160), sh(pk, 160))
            if fn.endswith("::new"):
                if pk != call("rln::circuit::zkey_from_folder") or gd != call("rln::circuit::graph_from_folder"):
                    bad = bad or "bundled constructor takes key/graph from %s / %s" % (sh(pk, 100), sh(gd, 100))
            else:
                zk = P(1) if cfg == "stateless" else P(2)
                gdp = P(2) if cfg == "stateless" else P(3)
                if pk != ("unwrap", call("rln::circuit::zkey_from_raw", zk)) or gd != gdp:
                    bad = bad or "custom-resources constructor takes key/graph from %s / %s, specification the caller's bytes" % (sh(pk, 100), sh(gd, 100))
        n += 1
        ctx.check(bad is None, "R01-2", inst, "%d success path(s): verifying key is the stored proving key's vk; key and graph from the documented source" % len(oks), bad or "", loc(it))
    return n


def check_request(ctx, fb, cfg):
    fn = "rln::protocol::proof_inputs_to_rln_witness"
    it = fb.need(fn)
    ctx.touch(it)
    inst = "%s[%s]" % (fn, cfg)
    eng = Engine(fb, inline=opaque_rx(r"^rln::hashers::hash_to_field$|ZerokitMerkle(Tree|Proof)>::"))
    oks = [(p, eng.value_of(p.store, p.ret)) for p in eng.run(it) if p.kind == "return" and known_ok(eng.value_of(p.store, p.ret)) is not False]
    if len(oks) != 1:
        ctx.fail("R01-3", inst, "expected one success path, found %d" % len(oks), loc(it))
        return
    p, rv = oks[0]
    w = rv[4][0][1][0]
    f = dict(zip(w[3], w[4]))
    B = P(2)

    def fr(lo):
        from ..symex import project
        return project(prim(fb, "rln::utils::bytes_le_to_fr", ("slice", B, mk_const("usize", lo), None)), ("f", "0"))

    def u64at(lo):
        for s in subterms(("x",) + tuple(c[2] for c in p.calls())):
            pass
        return None
    prf = p.calls(r"ZerokitMerkleTree>::proof$")
    why = None
    if len(prf) != 1:
        why = "expected one Merkle proof lookup, found %d" % len(prf)
    else:
        idx = prf[0][2][1]
        proof = ("unwrap", ("call", prf[0][1], prf[0][2]))
        src = [s for s in subterms(idx) if s[0] == "slice" and s[1] == B]
        conv = sh(idx, 400)
        if prf[0][2][0] != P(1):
            why = "lookup is made on %s, not on the instance's tree" % sh(prf[0][2][0], 60)
        elif not (len(src) == 1 and cint(src[0][2]) == 32 and cint(src[0][3]) == 40 and "from_le_bytes" in conv and "try_from" in conv and not re.search(r"\b(BitAnd|Rem|Shr|Shl|Sub|Div|Mul|min)\b", conv)):
            why = "leaf position passed to tree.proof is %s, specification usize::try_from(u64::from_le_bytes(input[32..40]))" % conv[:200]
        else:
            pe, pi = f.get("path_elements"), f.get("identity_path_index")
            if not (pe[0] == "call" and pe[1].endswith("ZerokitMerkleProof>::get_path_elements") and pe[2] == (proof,)):
                why = "path_elements is %s, specification get_path_elements() of the looked-up proof" % sh(pe, 160)
            elif not (pi[0] == "call" and pi[1].endswith("ZerokitMerkleProof>::get_path_index") and pi[2] == (proof,)):
                why = "identity_path_index is %s, specification get_path_index() of the looked-up proof" % sh(pi, 160)
    if why is None:
        for name, lo in (("identity_secret", 0), ("user_message_limit", 40), ("message_id", 72), ("external_nullifier", 104)):
            if f.get(name) != fr(lo):
                # offsets are sums of decoded widths when bytes_le_to_fr is opaque: accept the symbolic form by checking the slice start folds to lo
                why = "field %s is %s, specification the field element at offset %d" % (name, sh(f.get(name), 160), lo)
                break
    if why is None:
        x = f.get("x")
        ok = x[0] == "call" and x[1] == "rln::hashers::hash_to_field" and x[2][0][0] == "slice" and x[2][0][1] == B and cint(x[2][0][2]) == 144
        if ok:
            hi = x[2][0][3]
            s_ = sh(hi, 400)
            srcs = [s for s in subterms(hi) if s[0] == "slice" and s[1] == B]
            ok = len(srcs) == 1 and cint(srcs[0][2]) == 136 and cint(srcs[0][3]) == 144 and hi[0] == "bin" and hi[1] == "Add" and cint(hi[3]) == 144
            # nothing but the u64 -> usize conversion between the length bytes and the slice bound
            calls_ = [t[1] for t in subterms(hi) if t[0] == "call"]
            bins_ = [t for t in subterms(hi) if t[0] == "bin"]
            ok = ok and len(bins_) == 1 and all(re.search(r"try_from|from_le_bytes|try_into", c) for c in calls_)
        if not ok:
            why = "x is %s, specification hash_to_field(input[144..144+signal_len]) with signal_len the u64 at [136..144]" % sh(x, 300)
    ctx.check(why is None, "R01-3", inst, "leaf position, path vectors, four field elements and the signal reach the witness unmodified", why or "", loc(it))


def check_generate(ctx, fb, cfg):
    it = fb.need("rln::protocol::inputs_for_witness_calculation")
    ctx.touch(it)
    eng = Engine(fb, inline=lambda i: False)
    run = eng.run(it)
    oks = [eng.value_of(p.store, p.ret) for p in run if p.kind == "return" and known_ok(eng.value_of(p.store, p.ret)) is not False]
    why = None
    if len(oks) != 1 or oks[0][4][0][0] != "array":
        why = "expected one success path returning an array, found %d" % len(oks)
    else:
        arr = oks[0][4][0][1]
        if len(arr) != len(NAMES):
            why = "%d inputs, specification %d" % (len(arr), len(NAMES))
        for el, (name, field, n) in zip(arr, NAMES):
            if why:
                break
            if el[0] != "tuple" or el[1][0] != ("str", name):
                why = "input name %s, specification %s (order as declared)" % (sh(el[1][0], 40), name)
                break
            v = el[1][1]
            sm = seq_map(fb, v, run)
            fields = [s for s in subterms(v if sm is None else ("t", v, sm[0])) if s[0] == "field" and s[1] == P(1)]
            if [s[2][1] for s in fields] != [field]:
                why = "input `%s` is built from witness field(s) %s, specification %s" % (name, [s[2][1] for s in fields], field)
                break
            if n == 1 and not any(s[0] == "array" and s[1] == (F(P(1), field),) for s in subterms(v)):
                why = "input `%s` is %s, specification vec![witness.%s]" % (name, sh(v, 120), field)
    ctx.check(why is None, "R01-4", "inputs_for_witness_calculation[%s]" % cfg, "seven (name, vector) pairs, each from the same-named witness field", why or "", loc(it))
    okc = False
    for p in run:
        if p.kind != "return":
            continue
        r = eng.value_of(p.store, p.ret)
        if known_ok(r) is False or r[0] != "adt" or r[4][0][0] != "array":
            continue
        for el in r[4][0][1]:
            if el[0] == "tuple" and el[1][0] == ("str", "identityPathIndex"):
                sm = seq_map(fb, el[1][1], run)
                # the element-wise image of witness.identity_path_index under Fr::from(u8), in any spelling
                okc = sm is not None and sm[0] == F(P(1), "identity_path_index") and sm[1][0] == "call" \
                    and re.search(r"From(<u8>)?>?::from$", sm[1][1]) is not None and sm[1][2] == (ELEM,)
    ctx.check(okc, "R01-4", "direction bits as field elements[%s]" % cfg, "identityPathIndex[i] = Fr::from(bit_i)", "direction values are not converted one-to-one with Fr::from(u8)", loc(it))
    g = fb.need("rln::protocol::generate_proof")
    ctx.touch(g)
    e3 = Engine(fb, inline=opaque_rx(r"^rln::protocol::inputs_for_witness_calculation$|^rln::circuit::calculate_rln_witness$"))
    oks = [(p, e3.value_of(p.store, p.ret)) for p in e3.run(g) if p.kind == "return" and known_ok(e3.value_of(p.store, p.ret)) is not False]
    why = None
    if len(oks) != 1:
        why = "expected one success path, found %d" % len(oks)
    else:
        p, rv = oks[0]
        c = rv[4][0]
        c = c[1] if c[0] == "unwrap" else c
        if not (c[0] == "call" and c[1].endswith("create_proof_with_reduction_and_matrices") and "CircomReduction" in (c[1] + sh(c, 3000)) or c[1].endswith("create_proof_with_reduction_and_matrices")):
            why = "proof is %s" % sh(c, 200)
        else:
            a = c[2]
            pk = P(1)
            rng = call("rand::thread_rng")
            draws = [s for s in a[1:3]]
            wit = a[6]
            winputs = [s for s in subterms(wit) if s[0] == "call" and s[1] == "rln::protocol::inputs_for_witness_calculation"]
            if a[0] != F(pk, "0") or a[3] != F(pk, "1") or a[4] != F(F(pk, "1"), "num_instance_variables") or a[5] != F(F(pk, "1"), "num_constraints"):
                why = "Groth16 is called with key/matrix arguments %s" % [sh(x, 60) for x in (a[0], a[3], a[4], a[5])]
            elif not (draws[0][0] == "call" and draws[0][2] == (rng,) and draws[1][0] == "call" and draws[1][2][0][0] == "upd" and draws[1][2][0][3] == (rng,) and draws[0] != draws[1]):
                why = "blinding values are %s: specification two successive draws of one thread_rng" % [sh(d, 100) for d in draws]
            elif not (wit[0] == "call" and wit[1].endswith("as_slice") or wit[0] == "call" and wit[1] == "rln::circuit::calculate_rln_witness" or winputs):
                why = "assignment is %s" % sh(wit, 160)
            elif not (len(winputs) == 1 and winputs[0][2] == (P(2),)):
                why = "circuit inputs are computed from %s, specification the rln_witness parameter" % [sh(w, 80) for w in winputs]
            else:
                cw = [s for s in subterms(wit) if s[0] == "call" and s[1] == "rln::circuit::calculate_rln_witness"]
                if not (len(cw) == 1 and cw[0][2][1] == P(3)):
                    why = "witness vector is computed with graph %s, specification the graph_data parameter" % [sh(x[2][1], 60) for x in cw]
    ctx.check(why is None, "R01-4", "generate_proof[%s]" % cfg, "Groth16(pk.0, r, s, pk.1, pk.1.num_instance_variables, pk.1.num_constraints, calculate_rln_witness(inputs(W), graph))", why or "", loc(g))
    # the sibling for an externally computed witness vector hands Groth16 the same key, matrices and the two sizes in the same order
    # (both are usize: a swap type-checks, returns Ok and yields a proof that does not verify)
    g2 = fb.items.get("rln::protocol::generate_proof_with_witness")
    if g2 is None:
        raise MissingAnchor("rln::protocol::generate_proof_with_witness")
    ctx.touch(g2)
    e4 = Engine(fb, inline=lambda i: False)
    why2 = "no call of create_proof_with_reduction_and_matrices found"
    for p in e4.run(g2):
        for c in p.calls(r"create_proof_with_reduction_and_matrices$"):
            a = c[2]
            pk = [P(k) for k in range(1, g2.arg_count + 1) if "ProvingKey" in g2.locals[k]["ty"]]
            pk = pk[0] if len(pk) == 1 else P(2)
            if a[0] != F(pk, "0") or a[3] != F(pk, "1") or a[4] != F(F(pk, "1"), "num_instance_variables") or a[5] != F(F(pk, "1"), "num_constraints"):
                why2 = "Groth16 is called with key/matrix arguments %s, specification (pk.0, .., pk.1, pk.1.num_instance_variables, pk.1.num_constraints, ..)" % [sh(x, 60) for x in (a[0], a[3], a[4], a[5])]
            elif not any(s_[0] == "call" and s_[1].endswith("calculate_witness_element") for s_ in subterms(a[6])):
                why2 = "assignment is %s, specification the converted witness vector" % sh(a[6], 120)
            else:
                why2 = None
    ctx.check(why2 is None, "R01-4", "generate_proof_with_witness[%s]" % cfg, "Groth16(pk.0, r, s, pk.1, pk.1.num_instance_variables, pk.1.num_constraints, field elements of the given witness)", why2 or "", loc(g2))


MUTATOR_RX = r"ZerokitMerkleTree>::(set|set_range|update_next|delete|override_range|set_metadata|close_db_connection)$|MerkleTree::<D, H>::(set|set_range|update_next|delete|batch_insert)$|Database>?::(put|put_batch)$"


def check_instance_state(ctx, fb, cfg):
    """R01-7: what a proof is made from cannot change under the prover: the proving key, the verifying key and the graph of an instance are
    stored only when it is constructed, and the proving entry points (which borrow the tree mutably to read a path) reach no tree mutator"""
    from .. import treefx
    for field in ("proving_key", "verification_key", "graph_data"):
        ws = treefx.field_writers(fb, field, ("rln/src/public.rs", "rln/src/ffi.rs", "rln/src/protocol.rs"))
        ctx.check(not ws, "R01-7", "writers of RLN.%s[%s]" % (field, cfg), "none outside the constructors' struct literal",
                  "%s store(s) into RLN.%s after construction: a proof can be made with a key/graph other than the one the verifier key was derived from" % (sorted(ws), field))
    if cfg == "stateless":
        return
    for fn in ("rln::public::RLN::generate_rln_proof", "rln::public::RLN::get_serialized_rln_witness", "rln::public::RLN::get_proof", "rln::public::RLN::get_root", "rln::public::RLN::get_leaf"):
        it = fb.need(fn)
        ctx.touch(it)
        seen, ext, _ = reach(fb, [it.path])
        bad = sorted(n for n in list(seen) + list(ext) if re.search(MUTATOR_RX, n))
        ctx.check(not bad, "R01-7", "%s[%s] does not mutate the tree" % (fn.split("::")[-1], cfg), "no tree mutator in its resolved call graph (%d functions)" % len(seen),
                  "%s reaches %s: producing a proof (or reading the tree) changes the membership tree" % (fn, bad[:3]), loc(it))
    # positive control: a mutating entry point must reach a mutator, or the regex matches nothing
    it = fb.need("rln::public::RLN::set_leaf")
    seen, ext, _ = reach(fb, [it.path])
    ctx.fixture("R01-7:control[%s]" % cfg, any(re.search(MUTATOR_RX, n) for n in list(seen) + list(ext)), "RLN::set_leaf must reach a tree mutator")


def check_external_witness(ctx, fb, cfg):
    """R01-9: `generate_proof_with_witness` (the entry point for an externally computed witness vector, used by the wasm binding)
    maps every signed element w to the field element it denotes: p - |w| for a negative w, w otherwise (or, equivalently, a floored /
    Euclidean remainder by p). A truncated remainder (`%`) keeps negative values negative and the conversion fails or wraps."""
    it = fb.items.get("rln::protocol::calculate_witness_element")
    if it is None:
        raise MissingAnchor("rln::protocol::calculate_witness_element")
    ctx.touch(it)
    eng = Engine(fb, inline=lambda i: False)
    arms = {}
    single = []
    for p in eng.run(it):
        if p.kind != "backedge":
            continue
        pushes = [e[3] for e in p.trace if e[0] == "push"]
        sign = [v for a, v in p.conds() if a[0] == "b" and isinstance(a[1], tuple) and a[1][0] == "eq" and "Sign::Minus" in sh(a[1], 200)]
        if len(pushes) != 1:
            continue
        (arms.__setitem__(sign[0], pushes[0]) if sign else single.append(pushes[0]))
    ok, why = False, "no per-element conversion found"
    if set(arms) == {True, False}:
        neg, pos = sh(arms[True], 600), sh(arms[False], 600)
        ok = "sub(" in neg and "MODULUS" in neg and "abs(" in neg and "abs(" not in pos and "sub(" not in pos and "to_biguint(" in pos
        why = "negative elements become %s, the others %s" % (neg[:160], pos[:120])
    elif len(single) == 1:
        t = sh(single[0], 600)
        ok = re.search(r"mod_floor\(|rem_euclid\(", t) is not None and "MODULUS" in t
        why = "every element becomes %s (a truncated remainder keeps a negative element negative)" % t[:200]
    ctx.check(ok, "R01-9", "calculate_witness_element[%s]" % cfg, "w < 0 -> p - |w|, else w (or a floored remainder by p), for every element",
              why, loc(it))


def run(ctx):
    cfgs = ["default", "stateless"] if ctx.tier == "quick" else ["default", "stateless", "optimal", "arkzkey"]
    ctx.prefetch(cfgs + ["fixtures"])
    n = 0
    k = 0
    for cfg in cfgs:
        fb = ctx.fb(cfg)
        n += check_pipeline(ctx, fb, cfg, "rln::public::RLN::prove", False, False)
        n += check_pipeline(ctx, fb, cfg, "rln::public::RLN::generate_rln_proof_with_witness", False, True)
        if cfg != "stateless":
            n += check_pipeline(ctx, fb, cfg, "rln::public::RLN::generate_rln_proof", True, True)
            check_request(ctx, fb, cfg)
        k += check_constructors(ctx, fb, cfg)
        check_generate(ctx, fb, cfg)
        check_instance_state(ctx, fb, cfg)
        check_external_witness(ctx, fb, cfg)
    # R01-6 (shared with C12 R12-2): the software gates reject nothing the circuit can satisfy: message_id_range_check
    # returns Ok exactly when message_id < user_message_limit (no further condition on the limit or the id)
    from . import c12
    from ..main import Ctx as _Ctx
    sub = _Ctx(ctx.pid, ctx.tier)
    c12.check_range_gate(sub, ctx.fb("default"))
    for r in sub.results:
        if r.instance == "message_id_range_check condition":
            (ctx.ok if r.status == "ok" else ctx.fail)("R01-6", r.instance, r.reason, r.loc)
    ctx.floor("proving-entry-points", n, 5)
    ctx.floor("constructors", k, 4)
    # R01-8 (shared with C06 R06-3): the proof of a member verifies against the tree's root only if the root reflects every write:
    # parent recomputation of the in-memory back ends climbs to the root unconditionally
    from . import c06
    sub = _Ctx(ctx.pid, ctx.tier)
    c06.check_recompute(sub, ctx.fb("default"))
    c06.check_writers(sub, ctx.fb("default"))
    for r in sub.results:
        (ctx.ok if r.status == "ok" else ctx.fail)("R01-8", r.instance, r.reason, r.loc)
    # R01-10 (shared with C07 R07-1..R07-3): the Merkle path a proof is made for is the stored sibling at every level, in the
    # circuit's order, for the three back ends (a shortcut or cached path gives a witness whose root is not the tree's)
    from . import c07
    sub = _Ctx(ctx.pid, ctx.tier)
    fbd = ctx.fb("default")
    c07.check_full(sub, fbd)
    c07.check_optimal(sub, fbd)
    c07.check_pmtree(sub, fbd)
    for r in sub.results:
        (ctx.ok if r.status == "ok" else ctx.fail)("R01-10", r.instance, r.reason, r.loc)
    # R01-12 (shared with C06 R06-11 / C17 R17-3): the member's Merkle path is read back from the store: the key-value adapter
    # persists every record it is handed and the node codec is the 32-byte field codec (a record dropped or altered on the way
    # gives a path that does not recompute the tree's root, and the proof made from it is rejected)
    sub = _Ctx(ctx.pid, ctx.tier)
    c06.check_store_adapter(sub, fbd)
    from . import c17
    c17.check_hashers(sub, "default", fbd)
    for r in sub.results:
        (ctx.ok if r.status == "ok" else ctx.fail)("R01-12", r.instance, r.reason, r.loc)
    # R01-11 (shared with C02 R02-1..R02-3): "verifies": the verification entry points accept under exactly the specified conditions
    # (Groth16 check, x binding, root equal to the tree's root / member of the whole supplied root set)
    from . import c02
    sub = _Ctx(ctx.pid, ctx.tier)
    c02.check_entry(sub, fbd, "default", "rln::public::RLN::verify", False, False)
    c02.check_entry(sub, fbd, "default", "rln::public::RLN::verify_with_roots", False, True, roots=True)
    c02.check_entry(sub, fbd, "default", "rln::public::RLN::verify_rln_proof", True, True)
    for r in sub.results:
        (ctx.ok if r.status == "ok" else ctx.fail)("R01-11", r.instance, r.reason, r.loc)
