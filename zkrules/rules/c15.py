"""C15 The reported empty positions are exactly the unset or deleted ones: flag/leaf pairing per mutator and back end, the listing
shape, and the flags of a reopened persistent tree."""
import re
from ..symex import Engine, show, subterms, contains, known_ok
from ..lib import *
from ..facts import MissingAnchor
from .. import treefx

INFO = {
    "level": "other",
    "explanation": "Decides flag/leaf pairing per mutator, which implies the invariant 'flag(i) = 0 iff position i was never written or its "
                   "last operation was a removal' inductively over every history. R15-1: for every mutator of the three back ends (set, "
                   "set_range, update_next, delete, override_range and PmTree's two batch helpers) the symbolic position sets written "
                   "(inner tree writes), flagged 1 and flagged 0 are extracted from all paths that can end in Ok (loops summarised as "
                   "ranges / element sets) and must pair: a write flags exactly the written positions 1; a deletion resets and flags 0; "
                   "every position whose flag is cleared is written (reset) in the same call; nothing else is touched. R15-2: "
                   "get_empty_leaves_indices is flags.iter().take(high-water mark).enumerate().filter(== 0).map(index) in every back end "
                   "and RLN::get_empty_leaves_indices serialises exactly that vector. R15-3: a constructor that may load a persisted "
                   "tree must derive the flags from the store (PmTree::new's load branch). R15-1 per path: every path of a mutator that can end in success and changes a leaf directly (a node store, or a call of the storage tree's own set / delete / set_range / update_next) also stores flags on that path or in a loop it runs. R15-5 (shared, C06 R06-11): every leaf write reaches the store the reopened flags are rebuilt from.",
    "not_decided": "histories as such (the per-step pairing gives the invariant by induction given C06's formulas); pmtree's own bookkeeping",
    "assumptions": ["pmtree's set/set_range/update_next/delete write exactly the documented positions (its source was read; not analysed)"],
}

SIMPLE = ["set", "set_range", "update_next"]


def T(name, m):
    tp, ip = treefx.TREES[name]
    return tp + m, ip + m


def get(fb, name, m):
    a, b = T(name, m)
    return fb.items.get(a) or fb.items.get(b)


def check_mutators(ctx, fb):
    n = 0
    for name in ("pmtree", "optimal", "full"):
        for m in SIMPLE:
            it = get(fb, name, m)
            if it is None:
                raise MissingAnchor("%s::%s" % (name, m))
            ctx.touch(it)
            inst = "%s::%s" % (name, m)
            n += 1
            if name == "full" and m == "set_range" and fb.closures_of(it.path):
                # the for_each-closure spelling (a counter captured by reference) has its own reader; a plain loop is summarised
                # like the other mutators
                check_full_set_range(ctx, fb, it, inst)
                continue
            s = treefx.summarize(fb, it)
            ok = bool(s["w"]) and treefx.same_sets(s["w"], s["f1"]) and not s["f0"]
            ctx.check(ok, "R15-1", inst, "written %s, flagged non-empty the same positions" % [treefx.show_pos(x) for x in s["w"]],
                      "%s writes %s but marks %s as non-empty (and %s as empty): the empty-leaves list no longer matches the leaves" % (
                          inst, [treefx.show_pos(x) for x in s["w"]], [treefx.show_pos(x) for x in s["f1"]], [treefx.show_pos(x) for x in s["f0"]]), loc(it))
        it = get(fb, name, "delete")
        ctx.touch(it)
        n += 1
        s = treefx.summarize(fb, it)
        flags = [e for e in s["events"] if e[0] == "flag"]
        last0 = bool(flags) and flags[-1][1] == 0 and treefx.canon(flags[-1][2]) == treefx.canon(("single", P(2)))
        okw = treefx.same_sets(s["w"], [("single", P(2))])
        ctx.check(last0 and okw and treefx.same_sets(s["f0"], [("single", P(2))]), "R15-1", "%s::delete" % name, "resets position `index` and leaves its flag 0",
                  "%s::delete writes %s, clears %s (last flag event %s)" % (name, [treefx.show_pos(x) for x in s["w"]], [treefx.show_pos(x) for x in s["f0"]], flags[-1:] and flags[-1][1]), loc(it))
        # delete must not raise or touch anything for a position that was never written: guarded by index < next_index (in-memory trees)
    ctx.floor("simple-mutators", n, 12)


def check_full_set_range(ctx, fb, it, inst):
    cl = fb.closures_of(it.path)
    ok = False
    why = "closure not found"
    if cl:
        c = cl[0]
        ctx.touch(c)
        eng = Engine(fb, inline=lambda i: False)
        paths = eng.run(c)
        # stores through the captured references: nodes[index + count] = hash ; flags[start + count] = 1 ; count += 1
        st = []
        for p in paths:
            for e in p.trace:
                if e[0] in ("write", "store_through_value"):
                    st.append(e)
        idxs = []
        ones = 0
        for b in c.blocks:
            if b["cleanup"]:
                continue
            for s in b["stmts"]:
                if s["k"] == "assign" and any(pr[0] == "deref" for pr in s["p"]["proj"]):
                    rv = s["rv"]
                    if rv["k"] == "use" and "c" in rv["o"] and str(rv["o"]["c"].get("v")) == "1":
                        ones += 1
        calls = [t["callee"] for b in c.blocks if not b["cleanup"] for t in [b["term"]] if t["k"] == "call"]
        calls = [(t.get("resolved") or t.get("callee") or "") for b in c.blocks if not b["cleanup"] for t in [b["term"]] if t["k"] == "call"]
        n_index = len([x for x in calls if x.endswith("::index_mut")])
        ok = n_index == 2 and ones >= 1
        why = "closure performs %d indexed stores (%d constant-1 stores); specification nodes[index+count] = hash and flags[start+count] = 1 with one shared counter" % (n_index, ones)
        if ok:
            # the two index operands are upvar + the same counter
            e2 = Engine(fb, inline=lambda i: False)
            ps = e2.run(c)
            ix = []
            for p in ps:
                for ob in p.obligations():
                    if ob[1] == "ElemIndex":
                        ix.append(ob[2][1])
            cnt = set()
            for t in ix:
                if isinstance(t, tuple) and t[0] == "bin" and t[1] == "Add":
                    cnt.add(frozenset([repr(t[2]), repr(t[3])]))
            shared = set.intersection(*[set(x) for x in cnt]) if len(cnt) == 2 else set()
            ok = len(ix) == 2 and len(shared) == 1
            why = "indexed stores at %s do not share one counter" % [sh(t, 80) for t in ix]
    ctx.check(ok, "R15-1", inst, "each written leaf nodes[index+count] is paired with flags[start+count] = 1 (one counter)", why, loc(it))


def check_batches(ctx, fb):
    # in-memory trees: override_range = validate, delete(removed outside the written range), set_range(start, leaves)
    for name in ("optimal", "full"):
        it = get(fb, name, "override_range")
        ctx.touch(it)
        inst = "%s::override_range" % name
        # which removal indices are reset (and so listed as empty): exactly those outside the written range, decided over all
        # orderings of (i, start, end) (rule shared with C08 R08-1)
        from . import c08
        okf, whyf = c08.removal_filter(fb, it)
        ctx.check(okf, "R15-1", inst + " removal filter", "a removal index is reset and listed as empty iff i < start || i >= start + len(leaves)", whyf, loc(it))
        eng = Engine(fb, inline=lambda i: False)
        paths = eng.run(it)
        dels = []
        sets = []
        direct = []
        for p in paths:
            for c in p.calls(r"ZerokitMerkleTree>::delete$"):
                dels.append((p, c))
            for c in p.calls(r"ZerokitMerkleTree>::set_range$"):
                sets.append((p, c))
            for e in p.trace:
                if e[0] == "write" and e[1][1] == -1 and e[2] and e[2][0] == ("f", treefx.FLAGS):
                    direct.append(e)
        why = None
        if direct:
            why = "flags are written directly (%s) instead of through delete/set_range, so a cleared flag is not paired with a reset leaf" % sh(direct[0][2], 80)
        elif not sets or any(c[2][1] != P(2) for _, c in sets):
            why = "leaves are not written with set_range(start, ..): %s" % [sh(c[2][1], 40) for _, c in sets]
        elif any(not (c[2][2] == P(3) or contains(c[2][2], P(3))) or treefx.seq_len(c[2][2]) not in (("len", P(3)), ("len", c[2][2])) for _, c in sets):
            why = "the sequence written at start is %s, specification the caller's leaves" % [sh(c[2][2], 80) for _, c in sets]
        elif not dels:
            why = "removed positions are never reset"
        else:
            for p, c in dels:
                pos = treefx.pos_of(c[2][1]) if not (isinstance(c[2][1], tuple) and c[2][1][0] == "unwrap") else ("elems", None)
                def mentions(t, what, d=0):
                    if t == what:
                        return True
                    if not isinstance(t, tuple) or d > 40:
                        return False
                    return any(mentions(x, what, d + 1) for x in t if isinstance(x, tuple))
                src = sh(c[2][1], 300)
                if not mentions(c[2][1], P(4)):
                    why = "delete is applied to %s, specification the positions of `indices`" % src[:100]
        ctx.check(why is None, "R15-1", inst, "removed positions are reset through delete (flag 0 with the leaf), written ones through set_range(start, leaves) (flag 1)", why or "", loc(it))
    # persistent tree
    it = get(fb, "pmtree", "remove_indices")
    ctx.touch(it)
    ok, why = removal_span_rule(fb, it)
    ctx.check(ok, "R15-1", "pmtree::remove_indices", "span [first, last] rewritten: removed positions get the default leaf and flag 0, the others their current leaf and no flag change",
              why, loc(it))
    it = get(fb, "pmtree", "remove_indices_and_set_leaves")
    ctx.touch(it)
    s = treefx.summarize(fb, it)
    w = s["w"]
    f1 = s["f1"]
    why = None
    if not treefx.same_sets(w, f1):
        why = "leaves are written at %s but positions %s are marked non-empty" % ([treefx.show_pos(x) for x in w], [treefx.show_pos(x) for x in f1])
    rng = [x for x in w if x[0] == "range"]
    el = [x for x in s["f0"] if x[0] == "elems"]
    if el and rng and why is None:
        lo = treefx.norm_num(rng[0][1])
        if not any(sh(lo, 200) == sh(("unwrap", t), 200) or "first" in sh(lo, 200) for t in [0]):
            why = "flags of the positions in `indices` are cleared, but the range written starts at %s, which need not contain them: a cleared flag is not paired with a reset leaf" % sh(lo, 60)
    elif el and why is None:
        why = "flags of `indices` cleared without a covering write"
    ctx.check(why is None, "R15-1", "pmtree::remove_indices_and_set_leaves", "written range = flagged range; removed positions inside the written range", why or "", loc(it))
    # dispatch
    it = get(fb, "pmtree", "override_range")
    ctx.touch(it)
    eng = Engine(fb, inline=lambda i: False)
    tgt = {}
    for p in eng.run(it):
        if p.kind != "return":
            continue
        cm = p.conds()
        sel = tuple(sorted((sh(a, 60), str(v)) for a, v in cm if a[0] == "v"))
        rv = eng.value_of(p.store, p.ret)
        callee = rv[1].split("::")[-1] if isinstance(rv, tuple) and rv[0] == "call" else (rv[2] if rv[0] == "adt" else "?")
        tgt.setdefault(sel, set()).add(callee)
    want = {"set", "delete", "set_range", "remove_indices", "remove_indices_and_set_leaves", "Err"}
    allt = set(x for v in tgt.values() for x in v)
    ctx.check(allt == want, "R15-1", "pmtree::override_range dispatch", "six shapes (0/1/many leaves x 0/1/many removals) routed to %s" % sorted(want),
              "dispatch targets %s" % sorted(allt), loc(it))


def removal_list(fb, t):
    """the list of positions a removal helper works on: its `indices` parameter, or that parameter restricted to the positions below
    the high-water mark (`indices.iter().copied().filter(|&i| i < self.tree.leaves_set())`); returns a description or None"""
    if t == P(2):
        return "indices"
    if isinstance(t, tuple) and t and t[0] == "call" and t[1].endswith("Iterator::filter") and len(t[2]) == 2 and t[2][0] == P(2):
        from .. import panics
        old = panics.FB
        panics.FB = fb
        try:
            b = panics.closure_bound(t[2][1], ("Lt",))
        finally:
            panics.FB = old
        if b is not None and isinstance(b[1], tuple) and b[1][0] == "call" and b[1][1].endswith("::leaves_set") and b[1][2] in ((F(P(1), "tree"),), (P(1),)):
            return "indices below leaves_set()"
    return None


def removal_span_rule(fb, it):
    """PmTree::remove_indices: with L the removal list (see removal_list): values[i - first] = default if i in L else get(i), for i in
    L[0]..last(L)+1, written with set_range(L[0], values); flags cleared exactly for the elements of L"""
    eng = Engine(fb, inline=lambda i: False)
    paths = eng.run(it)
    arms = {}
    rng = None
    L = None
    for p in paths:
        if p.kind != "backedge":
            continue
        pushes = [e for e in p.trace if e[0] == "push"]
        con = [(a, v) for a, v in p.conds() if a[0] == "b" and a[1][0] == "call" and a[1][1].endswith("::contains")]
        if pushes and con:
            L = con[0][0][1][2][0]
            i = con[0][0][1][2][1]
            arms[con[0][1]] = (pushes[0][3], i)
            rng = range_var(i)
    mapped = None
    if not arms:
        # the same span spelled as `(lo..hi).map(|i| if L.contains(&i) { default } else { get(i)? }).collect()`
        for p in paths:
            for e in p.trace:
                if e[0] == "call" and e[1].endswith("Iterator::map") and len(e[2]) == 2 and isinstance(e[2][0], tuple) and e[2][0][0] == "adt" and e[2][0][1].endswith("ops::Range"):
                    cps = closure_paths(fb, e[2][1])
                    for conds, rv in cps or []:
                        con = [(a, v) for a, v in conds if a[0] == "b" and a[1][0] == "call" and a[1][1].endswith("::contains")]
                        if con and isinstance(rv, tuple) and rv[0] == "adt" and rv[2] in ("Ok", "Some"):
                            L = con[0][0][1][2][0]
                            arms[con[0][1]] = (rv[4][0], con[0][0][1][2][1])
                    rng = (e[2][0][4][0], e[2][0][4][1])
                    mapped = ("call", e[1], e[2])
            if mapped:
                break
    if set(arms) != {True, False}:
        return False, "the span values are not chosen by `indices.contains(&i)` (arms found: %s)" % sorted(map(str, arms))
    what = removal_list(fb, L)
    if what is None:
        return False, "the removal list is %s, specification the `indices` parameter (possibly restricted to positions below leaves_set())" % sh(L, 120)
    dv, i1 = arms[True]
    kv, i2 = arms[False]
    if not (dv[0] == "call" and dv[1].endswith("default_leaf")):
        return False, "a removed position receives %s, specification the default leaf" % sh(dv, 80)
    if not (kv[0] == "unwrap" and kv[1][0] == "call" and kv[1][1].endswith("MerkleTree::<D, H>::get") and kv[1][2] == (F(P(1), "tree"), i2)):
        return False, "a position that is not removed receives %s, specification its current leaf tree.get(i)" % sh(kv, 100)
    first = ("idx", L, mk_const("usize", 0))
    lastL = ("unwrap", ("call", "core::slice::<impl [T]>::last", (L,)))
    if rng is not None:
        # `L.first().unwrap()` (or a `let Some(&start) = L.first()` pattern) is L[0]
        from .. import panics as _pn
        rng = (_pn.norm_first(rng[0]) if isinstance(rng[0], tuple) else rng[0], rng[1])
    lastp1 = rng is not None and isinstance(rng[1], tuple) and (
        (rng[1][0] == "call" and rng[1][1].endswith("Add<usize>>::add") and len(rng[1][2]) == 2 and rng[1][2][0] == lastL and cint(rng[1][2][1]) == 1)
        or (rng[1][:2] == ("bin", "Add") and rng[1][2] == lastL and cint(rng[1][3]) == 1))
    if not lastp1 and what != "indices" and rng is not None and isinstance(rng[1], tuple) and rng[1][0] == "call" and re.search(r"::min$", rng[1][1]) and len(rng[1][2]) == 2:
        # on the restricted list every element is below leaves_set(): clamping last + 1 at leaves_set() changes nothing
        a, b = rng[1][2]
        isls = lambda t: isinstance(t, tuple) and t and t[0] == "call" and t[1].endswith("::leaves_set")
        isl1 = lambda t: isinstance(t, tuple) and ((t[0] == "call" and t[1].endswith("Add<usize>>::add") and t[2][0] == lastL and cint(t[2][1]) == 1) or (t[:2] == ("bin", "Add") and t[2] == lastL and cint(t[3]) == 1))
        lastp1 = (isl1(a) and isls(b)) or (isl1(b) and isls(a))
    if rng is None or rng[0] != first or not lastp1:
        return False, ("the span is %s .. %s, specification exactly L[0] .. last(L) + 1 for the removal list L (a shorter span leaves removed positions in place and can hand the "
                       "storage tree an empty batch; a longer one rewrites positions outside the removal set)" % (sh(rng[0], 60) if rng else None, sh(rng[1], 120) if rng else None))
    wr = [c for p in paths for c in p.calls(r"MerkleTree::<D, H>::set_range$")]
    # the values handed to set_range are the vector the span loop pushed into (a loop-carried variable that starts empty)
    def built_in_loop(t):
        return isinstance(t, tuple) and t and t[0] == "phi" and isinstance(t[4], tuple) and t[4] and (
            t[4][0] == "vecnew" or (t[4][0] == "call" and re.search(r"Vec::<T>::(new|with_capacity)$", t[4][1])))
    from .. import panics as _pn2
    nf = lambda t: _pn2.norm_first(t) if isinstance(t, tuple) else t
    if not wr or any(nf(c[2][1]) != first or not (built_in_loop(c[2][2]) if mapped is None else c[2][2] in (mapped, ("unwrap", mapped))) for c in wr):
        return False, "the values are written with set_range(%s, %s), specification set_range(L[0], values)" % (sh(wr[0][2][1], 40) if wr else None, sh(wr[0][2][2], 40) if wr else None)
    s = treefx.summarize(fb, it)
    if s["f1"] or [x[0] for x in s["f0"]] != ["elems"] or s["f0"][0][1] != L:
        return False, "flags cleared for %s / set for %s, specification cleared exactly for the elements of the removal list" % ([treefx.show_pos(x) for x in s["f0"]], [treefx.show_pos(x) for x in s["f1"]])
    return True, ""


def check_listing(ctx, fb, cfg):
    for name in ("pmtree", "optimal", "full"):
        it = get(fb, name, "get_empty_leaves_indices")
        ctx.touch(it)
        eng = Engine(fb, inline=lambda i: False)
        ps = ret_paths(eng.run(it))
        rv = eng.value_of(ps[0].store, ps[0].ret) if len(ps) == 1 else None
        ok = False
        why = "listing is %s" % sh(rv, 200)
        try:
            mp, fl = rv, rv[2][0]
            en = fl[2][0]
            tk = en[2][0]
            hw = tk[2][1]
            hw_ok = hw == F(P(1), "next_index") or (hw[0] == "call" and hw[1].endswith("ZerokitMerkleTree>::leaves_set") and hw[2] == (P(1),))
            ok = mp[1].endswith("Iterator::map") and fl[1].endswith("Iterator::filter") and en[1].endswith("Iterator::enumerate") and tk[1].endswith("Iterator::take") and \
                tk[2][0] == F(P(1), treefx.FLAGS) and hw_ok and mp[2][1][0] == "closure" and fl[2][1][0] == "closure"
            if ok:
                e2 = Engine(fb, inline=lambda i: False)
                fv = [e2.value_of(p.store, p.ret) for p in ret_paths(e2.run(fb.need(fl[2][1][1])))]
                mv = [e2.value_of(p.store, p.ret) for p in ret_paths(e2.run(fb.need(mp[2][1][1])))]
                okf = len(fv) == 1 and fv[0][0] == "bin" and fv[0][1] == "Eq" and cint(fv[0][3]) == 0 and fv[0][2] == F(P(2), "1")
                okm = len(mv) == 1 and mv[0] == F(P(2), "0")
                ok = okf and okm
                why = "filter keeps %s, map yields %s; specification flag == 0 and the position" % ([sh(x, 60) for x in fv], [sh(x, 60) for x in mv])
        except Exception:
            ok = False
        ctx.check(ok, "R15-2", "%s::get_empty_leaves_indices" % name, "flags.take(high-water).enumerate().filter(flag == 0).map(position), ascending", why, loc(it))
    it = fb.need("rln::public::RLN::get_empty_leaves_indices")
    ctx.touch(it)
    eng = Engine(fb, inline=opaque_rx(r"ZerokitMerkleTree>::|^rln::utils::vec_usize_to_bytes_le$"))
    oks = [p for p in eng.run(it) if p.kind == "return" and known_ok(eng.value_of(p.store, p.ret)) is not False]
    ok = False
    why = "expected one success path"
    if len(oks) == 1:
        sc = oks[0].calls(r"CanonicalSerialize::serialize_compressed$")
        ok = len(sc) == 1 and sc[0][2][0][0] == "call" and sc[0][2][0][1].endswith("ZerokitMerkleTree>::get_empty_leaves_indices") and sc[0][2][0][2] == (F(P(1), "tree"),) and sc[0][2][1] == P(2)
        why = "serialises %s" % [sh(c[2][0], 160) for c in sc]
    ctx.check(ok, "R15-2", "RLN::get_empty_leaves_indices[%s]" % cfg, "tree.get_empty_leaves_indices().serialize_compressed(output)", why, loc(it))


def check_reopen(ctx, fb):
    it = get(fb, "pmtree", "new")
    ctx.touch(it)
    eng = Engine(fb, inline=lambda i: False)
    paths = eng.run(it)
    loaded_ok = []
    derive = {"take": False, "get": False, "set1": False, "skip": False}
    for p in paths:
        ld = p.calls(r"MerkleTree::<D, H>::load$")
        if not ld or cond_map(p).get(("ok", ("call", ld[0][1], ld[0][2]))) is not True:
            continue
        tree = ("unwrap", ("call", ld[0][1], ld[0][2]))
        if p.kind == "return" and known_ok(eng.value_of(p.store, p.ret)) is True:
            loaded_ok.append(p)
        tk = [c for c in p.calls(r"Iterator::take$") if c[2][1] == ("call", "zerokit_utils::vacp2p_pmtree::MerkleTree::<D, H>::leaves_set", (tree,))]
        if tk:
            derive["take"] = True
        gets = [c for c in p.calls(r"MerkleTree::<D, H>::get$") if c[2][0] == tree]
        if p.kind == "backedge" and gets:
            derive["get"] = True
            g = ("unwrap", ("call", gets[0][1], gets[0][2]))
            eqs = [(a, v) for a, v in p.conds() if a[0] == "b" and a[1][0] == "eq" and g in a[1][1:] and any(isinstance(x, tuple) and x[0] == "call" and x[1].endswith("default_leaf") for x in a[1][1:])]
            stores = [e for e in p.trace if e[0] in ("store_through_value", "write") and cint(e[2] if e[0] == "store_through_value" else e[3]) == 1]
            if eqs and eqs[0][1] is False and stores:
                derive["set1"] = True
            if eqs and eqs[0][1] is True and not stores:
                derive["skip"] = True
    # structure invariant established by the constructor: the flag vector has one entry per position of the tree it belongs to - the
    # capacity of the tree object that was actually loaded or created (a stored tree keeps its own depth), not a value computed
    # from the constructor's arguments
    okl, whyl, nl = True, "", 0
    for p in paths:
        if p.kind != "return":
            continue
        rv = eng.value_of(p.store, p.ret)
        if known_ok(rv) is not True or not (isinstance(rv[4][0], tuple) and rv[4][0][0] == "adt"):
            continue
        st = dict(zip(rv[4][0][3], rv[4][0][4]))
        fl, tr = st.get(treefx.FLAGS), st.get("tree")
        base = fl
        k_ = 0
        while isinstance(base, tuple) and base and base[0] in ("phi", "with", "upd") and k_ < 6:
            base = base[4] if base[0] == "phi" else (base[1] if base[0] == "with" else base[3][0])
            k_ += 1
        nl += 1
        want_len = ("call", "zerokit_utils::vacp2p_pmtree::MerkleTree::<D, H>::capacity", (tr,))
        if not (isinstance(base, tuple) and base and base[0] == "call" and base[1] == "std::vec::from_elem" and cint(base[2][0]) == 0 and base[2][1] == want_len):
            okl, whyl = False, "the flag vector is %s, specification vec![0; capacity()] of the tree it is stored with (%s)" % (sh(base, 120), sh(tr, 60))
    ctx.check(okl and nl >= 2, "R15-3", "pmtree::new flag vector length", "one flag per position of the loaded / created tree: vec![0; tree.capacity()]",
              whyl or "expected the load and the create success paths, found %d" % nl, loc(it))
    if not loaded_ok:
        ctx.fail("R15-3", "pmtree::new reopen", "no success path through the load branch found: anchor shape not recognised", loc(it))
    elif all(derive.values()):
        ctx.ok("R15-3", "pmtree::new reopen", "flags of a loaded tree are rebuilt: for i < leaves_set(): flag = (stored leaf != default leaf)", loc(it))
    else:
        ctx.fail("R15-3", "pmtree::new reopen", "when an existing tree is loaded the flags are not derived from the stored leaves (%s): after close and reopen the empty-leaves list is wrong" % (
            ", ".join(k for k, v in derive.items() if not v) + " missing"), loc(it))


def check_reopen_agreement(ctx, fb):
    """R15-3b: what a session records and what a reopen reconstructs must be the same predicate. The reopen rebuilds flag = (stored leaf !=
    default leaf) because the flags themselves are not stored; the writers flag every written position. The two agree only if a writer
    does not count a default-valued leaf as written (or if the flags were persisted)"""
    it = get(fb, "pmtree", "set")
    ctx.touch(it)
    eng = Engine(fb, inline=lambda i: False)
    cond = False
    for p in eng.run(it):
        w = [i for i, e in enumerate(p.trace) if e[0] == "write" and e[2] and e[2][0] == ("f", treefx.FLAGS) and cint(e[3]) == 1]
        if not w:
            continue
        for j, e in enumerate(p.trace):
            if j < w[0] and e[0] == "cond" and e[1][0] == "b" and isinstance(e[1][1], tuple) and e[1][1][0] == "eq" and P(3) in e[1][1][1:] and "default_leaf" in repr(e[1][1]):
                cond = True
    if cond:
        ctx.ok("R15-3", "pmtree flags: session and reopen agree", "a default-valued write is treated the same way by the writer and by the reconstruction", loc(it))
    else:
        ctx.fail("R15-3", "pmtree flags: session and reopen agree", "PmTree::set marks every written position as non-empty, while a reopened tree marks a position as non-empty only if its stored leaf "
                 "differs from the default leaf (the flags are not stored): a leaf written with the default value is listed as empty only after close and reopen", loc(it))


FLAG_WRITERS = {
    # functions allowed to store into the empty-position flags; each is paired with a leaf write by R15-1 / R15-3 (or builds a fresh tree)
    "set", "set_range", "update_next", "delete", "override_range", "new", "default", "remove_indices", "remove_indices_and_set_leaves",
}
TREE_FILES = ("utils/src/merkle_tree/optimal_merkle_tree.rs", "utils/src/merkle_tree/full_merkle_tree.rs", "rln/src/pm_tree_adapter.rs")


def check_flag_writers(ctx, fb):
    """R15-4 who-may-write: the flags are stored only by the operations whose pairing with the leaves is decided above; any other
    function that writes them (a recomputation helper, an observer) makes the listing drift from the leaves"""
    ws = treefx.field_writers(fb, treefx.FLAGS, TREE_FILES)
    for path, it in sorted(ws.items()):
        name = re.sub(r"::\{closure#\d+\}", "", path).split("::")[-1]
        ctx.touch(it)
        ctx.check(name in FLAG_WRITERS, "R15-4", "flag writer " + path.split("::")[-1] + "@" + it.file.split("/")[-1], "an operation whose flag/leaf pairing is decided by R15-1/R15-3",
                  "%s stores into the empty-position flags but is not one of the leaf-writing operations: the listing changes although no leaf does "
                  "(e.g. a recomputation helper marking a position as non-empty)" % path, loc(it))
    ctx.floor("flag-writers", len(ws), 6)


def check_path_pairing(ctx, fb):
    """R15-1 per path: the summaries above compare position *sets* over all paths; this clause is about each path on its own: a path
    of a mutator that can end in success and changes a leaf directly (a store into the node storage, or a call of the storage tree's
    own set / delete / set_range / update_next) also stores flags on that path (or in a loop it runs) - a shortcut that changes the
    leaf through another route and returns leaves the empty-position list behind"""
    n = tot = 0
    for name in ("pmtree", "optimal", "full"):
        for m in SIMPLE + ["delete"] + (["remove_indices", "remove_indices_and_set_leaves"] if name == "pmtree" else []):
            it = get(fb, name, m)
            if it is None:
                raise MissingAnchor("%s::%s" % (name, m))
            ctx.touch(it)
            eng = Engine(fb, inline=lambda i: False, max_paths=4000)
            paths = eng.run(it)

            def flag_events(q):
                return [e for e in q.trace if (e[0] == "write" and e[1][1] == -1 and e[2] and e[2][0] == ("f", treefx.FLAGS)) or
                        (e[0] == "store_through_value" and treefx.FLAGS in repr(e[1])[:2000])]
            loops_with_flags = {q.loop for q in paths if q.kind == "backedge" and flag_events(q)}
            bad = None
            nsucc = 0
            for q in paths:
                if q.kind != "return" or known_ok(eng.value_of(q.store, q.ret)) is False:
                    continue
                raw = [e for e in q.trace if (e[0] == "call" and re.search(r"MerkleTree::<D, H>::(set|set_range|update_next|delete)$", e[1])) or
                       (e[0] == "write" and e[1][1] == -1 and e[2] and e[2][0] == ("f", "nodes")) or
                       (e[0] == "call" and e[1].endswith("HashMap::<K, V, S, A>::insert") and contains(e[2][0], F(P(1), "nodes")))]
                if not raw:
                    continue
                nsucc += 1
                flagged = bool(flag_events(q)) or any(e[0] == "loop" and e[2] in loops_with_flags for e in q.trace)
                if not flagged:
                    bad = (q, raw[0])
            n += 1
            ctx.check(bad is None, "R15-1", "%s::%s every success path pairs leaf and flag" % (name, m),
                      "every path that can succeed and changes a leaf also stores the empty-position flags",
                      ("%s::%s has a success path that changes a leaf (%s) without storing any flag: the empty-leaves list no longer matches the leaves" % (
                          name, m, (bad[1][1][-40:] if bad[1][0] == "call" else "store into nodes"))) if bad else "", loc(it, bad[0].site if bad else None))
            tot += nsucc
    ctx.floor("per-path pairing instances", n, 14)
    ctx.floor("leaf-changing success paths", tot, 7)


def run(ctx):
    ctx.prefetch(["default", "fixtures"])
    fb = ctx.fb("default")
    check_mutators(ctx, fb)
    check_path_pairing(ctx, fb)
    check_batches(ctx, fb)
    check_listing(ctx, fb, "default")
    check_reopen(ctx, fb)
    check_reopen_agreement(ctx, fb)
    check_flag_writers(ctx, fb)
    # R15-5 (shared with C06 R06-11): a reopened tree rebuilds the flags from the stored leaves, so every leaf write (a reset to the default included) must reach the store
    from . import c06 as _c06s
    _subs = type(ctx)(ctx.pid, ctx.tier)
    _c06s.check_store_adapter(_subs, ctx.fb("default"))
    for r in _subs.results:
        (ctx.ok if r.status == "ok" else ctx.fail)("R15-5", r.instance, r.reason, r.loc)
    fx = ctx.fb("fixtures")
    try:
        it = fx.need("zkfix::trees::Flagged::set_range_wrong_flags")
        s = treefx.summarize(fx, it)
        ctx.fixture("R15-1", not treefx.same_sets(s["w"], s["f1"]), "zkfix::trees::Flagged::set_range_wrong_flags (flags start..len, leaves start..start+len)")
        it = fx.need("zkfix::trees::Flagged::set_range_right_flags")
        s = treefx.summarize(fx, it)
        ctx.fixture("R15-1-neg", bool(s["w"]) and treefx.same_sets(s["w"], s["f1"]), "zkfix::trees::Flagged::set_range_right_flags (must pair)")
    except MissingAnchor as e:
        ctx.fixture("R15-1", False, "fixture missing: %s" % e)
