"""C07 Membership proofs are complete, binding and in the circuit's format: the format/convention clause - one sibling per level,
least-significant direction bit first, bit 0 = current node is the left operand, the same in every implementation and export."""
import re
from ..symex import Engine, show, subterms, contains, known_ok
from ..lib import *
from ..facts import MissingAnchor

INFO = {
    "level": "other",
    "explanation": "Decides the format/convention clause for every position and state (the loop bodies are symbolic in the position): R07-1 a "
                   "convention table is extracted from each implementation and compared with the circuit's: proof() pushes, per level from the "
                   "leaf upwards, the sibling of the current node and a direction that is 0 exactly when the current node is the left child "
                   "(Full: heap index odd -> Left(nodes[index+1]), even -> Right(nodes[index-1]), parent = ((index+1)>>1)-1, start at "
                   "capacity+leaf-1; Optimal: sibling = i^1, bit = 1-((i^1)&1), i' = (i^1)>>1); get_path_index maps Left->0, Right->1; "
                   "compute_root_from hashes (acc, sibling) for bit 0 and (sibling, acc) otherwise, folding from the leaf; leaf_index folds "
                   "from the top with acc*2+bit; PmTreeProof delegates each method to pmtree's proof object; "
                   "protocol::compute_tree_root uses the same operand order (C04). R07-2 verify = (compute_root_from(leaf) == root()) "
                   "(Optimal additionally requires length == depth; PmTree delegates to pmtree's verify and maps false to Err). R07-3 proof() "
                   "rejects position >= capacity before anything else and climbs exactly to the root (Full: until the heap index is 0; "
                   "Optimal: depth steps, then requires the index to be 0). R07-4 RLN::get_proof writes vec_fr(get_path_elements()) then "
                   "vec_u8(get_path_index()) of the proof of the requested position; a failing lookup is returned as Err. R07-5 (shared with C06 R06-3): every write recomputes all ancestors of what it changed (unconditional climb to the root), so a proof recomputes the current root. R07-6 (shared, C06 R06-11): the persistent tree's proofs are read back from a store that keeps every record.",
    "not_decided": "binding (collision resistance of Poseidon), that the recomputed root equals the tree's current root after arbitrary "
                   "histories (needs C06's tree invariant, which is numeric), pmtree's own proof code (third-party, read as reference only)",
    "assumptions": ["pmtree's MerkleProof follows the same convention (its source in the cargo registry was read; not analysed as a subject)"],
}

U = "zerokit_utils::<merkle_tree::"
FULL_T = U + "full_merkle_tree::FullMerkleTree<H> as merkle_tree::merkle_tree::ZerokitMerkleTree>::"
OPT_T = U + "optimal_merkle_tree::OptimalMerkleTree<H> as merkle_tree::merkle_tree::ZerokitMerkleTree>::"
FULL_P = U + "full_merkle_tree::FullMerkleProof<H> as merkle_tree::merkle_tree::ZerokitMerkleProof>::"
OPT_P = U + "optimal_merkle_tree::OptimalMerkleProof<H> as merkle_tree::merkle_tree::ZerokitMerkleProof>::"
ONE = mk_const("usize", 1)


def closure_arms(fb, path):
    """{discriminant or None: returned term} of a closure `|.., x| match x {..}`"""
    it = fb.need(path)
    eng = Engine(fb, inline=lambda i: False)
    out = {}
    for p in eng.run(it):
        if p.kind != "return":
            return it, None
        sel = [v for a, v in p.conds() if a[0] == "d"]
        key = sel[0][1] if sel and sel[0][0] == "eq" else None
        out[key] = eng.value_of(p.store, p.ret)
    return it, out


def Hh(a, b):
    return None


def is_hash_of(t, a, b):
    return isinstance(t, tuple) and t[0] == "call" and t[1].endswith("Hasher::hash") and len(t[2]) == 1 and t[2][0] == ("array", (a, b))


def check_full(ctx, fb):
    it = fb.need(FULL_T + "proof")
    ctx.touch(it)
    eng = Engine(fb, inline=inline_only(r"FullMerkleTree::<H>::parent$|ZerokitMerkleTree>::capacity$"))
    paths = eng.run(it)
    arms = {}
    idx_phi = None
    nexts = set()
    ok = True
    why = ""
    for p in paths:
        if p.kind == "backedge":
            par = [v for a, v in p.conds() if a[0] == "v" and a[1][0] == "bin" and a[1][1] == "BitAnd" and cint(a[1][3]) == 1]
            pushes = [e for e in p.trace if e[0] == "push"]
            if len(par) != 1 or par[0][0] != "eq" or len(pushes) != 1:
                ok, why = False, "a proof step is not selected by the parity of the node index"
                continue
            arms[par[0][1]] = pushes[0][3]
            for a, v in p.conds():
                if a[0] == "v":
                    idx_phi = a[1][2]
            nexts.add(carried_of(p, idx_phi) if idx_phi is not None else None)
    want_next = ("bin", "Sub", ("bin", "Shr", ("bin", "Add", idx_phi, ONE), mk_const("i32", 1)), ONE) if idx_phi else None
    if ok:
        l = arms.get(1)
        r = arms.get(0)
        N = F(P(1), "nodes")
        if not (l and l[0] == "adt" and l[2] == "Left" and l[4] == (("idx", N, ("bin", "Add", idx_phi, ONE)),)):
            ok, why = False, "odd heap index (a left child) pushes %s, specification Left(nodes[index+1])" % sh(l, 120)
        elif not (r and r[0] == "adt" and r[2] == "Right" and r[4] == (("idx", N, ("bin", "Sub", idx_phi, ONE)),)):
            ok, why = False, "even heap index (a right child) pushes %s, specification Right(nodes[index-1])" % sh(r, 120)
        elif len(nexts) != 1 or not nexts <= {want_next}:
            nx = list(nexts)[0] if nexts else None
            good = nx is not None and nx[0] == "bin" and nx[1] == "Sub" and cint(nx[3]) == 1 and nx[2][0] == "bin" and nx[2][1] == "Shr" and cint(nx[2][3]) == 1 and nx[2][2] == ("bin", "Add", idx_phi, ONE)
            if not good:
                ok, why = False, "the climb goes to %s, specification parent = ((index+1)>>1)-1" % [sh(n, 80) for n in nexts]
        init = idx_phi[4] if idx_phi else None
        cap = ("bin", "Shl", ONE, F(P(1), "depth"))
        if ok and init not in (("bin", "Sub", ("bin", "Add", P(2), cap), ONE), ("bin", "Sub", ("bin", "Add", cap, P(2)), ONE)):
            s_ = sh(init, 200)
            if not (isinstance(init, tuple) and init[0] == "bin" and init[1] == "Sub" and cint(init[3]) == 1 and contains(init, P(2)) and contains(init, cap) and len([x for x in subterms(init) if x[0] == "bin"]) == 3):
                ok, why = False, "the climb starts at %s, specification capacity + leaf - 1" % s_
    guard = all(any(a[0] == "b" and a[1][0] == "bin" and a[1][1] == "Ge" and a[1][2] == P(2) and v is False for a, v in p.conds()) for p in paths if p.kind in ("backedge",) or (p.kind == "return" and known_ok(eng.value_of(p.store, p.ret))))
    exits = [p for p in paths if p.kind == "return" and known_ok(eng.value_of(p.store, p.ret)) is not False]
    stop = all(any(a[0] == "b" and a[1][0] == "bin" and a[1][1] == "Eq" and cint(a[1][3]) == 0 and v is True for a, v in p.conds()) for p in exits)
    ctx.check(ok and len(arms) == 2, "R07-1", "FullMerkleTree::proof", "odd index -> Left(nodes[i+1]), even -> Right(nodes[i-1]), parent ((i+1)>>1)-1, start capacity+leaf-1", why or "arms %s" % sorted(arms), loc(it))
    ctx.check(guard and stop and exits, "R07-3", "FullMerkleTree::proof bounds", "position >= capacity rejected first; the climb ends exactly at the root (heap index 0)",
              "proof() is not guarded by `leaf >= capacity -> Err` or does not stop at the root", loc(it))
    # branch tables
    it2, a = closure_arms(fb, FULL_P + "get_path_index::{closure#0}")
    ctx.touch(it2)
    ctx.check(a is not None and {k: cint(v) for k, v in a.items()} == {0: 0, 1: 1}, "R07-1", "FullMerkleProof::get_path_index", "Left -> 0, Right -> 1", "direction export maps %s" % (a,), loc(it2))
    it3, a = closure_arms(fb, FULL_P + "compute_root_from::{closure#0}")
    ctx.touch(it3)
    good = a is not None and is_hash_of(a.get(0), P(2), F(("as", P(3), "Left"), "0")) and is_hash_of(a.get(1), F(("as", P(3), "Right"), "0"), P(2))
    ctx.check(good, "R07-1", "FullMerkleProof::compute_root_from", "Left(s): H(acc, s); Right(s): H(s, acc)", "recomputation uses %s" % ({k: sh(v, 80) for k, v in (a or {}).items()}), loc(it3))
    crf = fb.need(FULL_P + "compute_root_from")
    v = Engine(fb, inline=lambda i: False)
    ps = ret_paths(v.run(crf))
    rv = v.value_of(ps[0].store, ps[0].ret) if len(ps) == 1 else None
    ctx.check(rv is not None and rv[0] == "call" and rv[1].endswith("::fold") and rv[2][0] == F(P(1), "0") and rv[2][1] == P(2), "R07-1", "FullMerkleProof fold order", "fold from the leaf over the path in stored order",
              "compute_root_from is %s" % sh(rv, 160), loc(crf))
    it4, a = closure_arms(fb, FULL_P + "leaf_index::{closure#0}")
    ctx.touch(it4)
    sh1 = ("bin", "Shl", P(2), mk_const("i32", 1))
    good = a is not None and a.get(0) == sh1 and a.get(1) == ("bin", "Add", sh1, ONE)
    li = fb.need(FULL_P + "leaf_index")
    ps = ret_paths(v.run(li))
    rv = v.value_of(ps[0].store, ps[0].ret) if len(ps) == 1 else None
    good = good and rv is not None and rv[0] == "call" and rv[1].endswith("::fold") and rv[2][0][0] == "call" and rv[2][0][1].endswith("::rev") and rv[2][0][2] == (F(P(1), "0"),) and cint(rv[2][1]) == 0
    ctx.check(good, "R07-1", "FullMerkleProof::leaf_index", "fold from the top: Left -> acc<<1, Right -> (acc<<1)+1", "leaf_index is %s with arms %s" % (sh(rv, 120), {k: sh(x, 60) for k, x in (a or {}).items()}), loc(li))
    it5, a = closure_arms(fb, FULL_P + "get_path_elements::{closure#0}")
    good = a is not None and a.get(0) == F(("as", P(2), "Left"), "0") and a.get(1) == F(("as", P(2), "Right"), "0")
    ctx.check(good, "R07-1", "FullMerkleProof::get_path_elements", "the sibling value of each branch", "path elements are %s" % ({k: sh(x, 60) for k, x in (a or {}).items()}), loc(it5))
    # verify
    vf = fb.need(FULL_T + "verify")
    ctx.touch(vf)
    e = Engine(fb, inline=opaque_rx(r"compute_root_from$|ZerokitMerkleTree>::root$"))
    ps = ret_paths(e.run(vf))
    rv = e.value_of(ps[0].store, ps[0].ret) if len(ps) == 1 else None
    good = rv is not None and known_ok(rv) and rv[4][0][0] == "eq" and any(t[0] == "call" and t[1].endswith("compute_root_from") and t[2] == (P(3), P(2)) for t in rv[4][0][1:]) and any(t[0] == "call" and t[1].endswith("::root") and t[2] == (P(1),) for t in rv[4][0][1:])
    ctx.check(good, "R07-2", "FullMerkleTree::verify", "compute_root_from(leaf) == root()", "verify is %s" % sh(rv, 200), loc(vf))


def check_optimal(ctx, fb):
    it = fb.need(OPT_T + "proof")
    ctx.touch(it)
    eng = Engine(fb, inline=opaque_rx(r"OptimalMerkleTree::<H>::get_node$"))
    paths = eng.run(it)
    ok = True
    why = ""
    n = 0
    for p in paths:
        pushes = [e for e in p.trace if e[0] == "push"]
        if p.kind not in ("backedge", "return") or not pushes:
            continue
        n += 1
        iphi = dphi = None
        # the two loop-carried variables of a step, by role: the level counter starts at self.depth, the running index at the position
        for s in subterms(pushes[0][3]):
            if s[0] == "phi" and s[4] == F(P(1), "depth"):
                dphi = s
            elif s[0] == "phi" and not (isinstance(s[4], tuple) and s[4] and s[4][0] == "call"):
                iphi = s
        if iphi is None or dphi is None or len(pushes) != 1:
            ok, why = False, "proof step shape"
            break
        sib = ("bin", "BitXor", iphi, ONE)
        el = pushes[0][3]
        want_node = call("zerokit_utils::merkle_tree::optimal_merkle_tree::OptimalMerkleTree::<H>::get_node", P(1), dphi, sib)
        bit = ("bin", "Sub", ONE, ("bin", "BitAnd", sib, ONE))
        if not (el[0] == "tuple" and el[1][0] == want_node):
            ok, why = False, "pushed node is %s, specification get_node(depth, i ^ 1) (the sibling)" % sh(el[1][0] if el[0] == "tuple" else el, 160)
            break
        b = el[1][1]
        if not (b[0] == "unwrap" and b[1][0] == "call" and "try_into" in b[1][1] and b[1][2] == (bit,)):
            ok, why = False, "direction is %s, specification 1 - ((i ^ 1) & 1): 0 when the current node is the left child" % sh(b, 120)
            break
        if p.kind == "backedge":
            ni = carried_of(p, iphi)
            nd = carried_of(p, dphi)
            if ni != ("bin", "Shr", sib, mk_const("i32", 1)) or nd != ("bin", "Sub", dphi, ONE):
                ok, why = False, "the climb goes to (i=%s, depth=%s), specification ((i^1)>>1, depth-1)" % (sh(ni, 60), sh(nd, 60))
                break
            if iphi[4] != P(2) or dphi[4] != F(P(1), "depth"):
                ok, why = False, "the climb starts at (%s, %s), specification (index, depth)" % (sh(iphi[4], 40), sh(dphi[4], 40))
                break
    ctx.check(ok and n >= 2, "R07-1", "OptimalMerkleTree::proof", "sibling get_node(depth, i^1), bit 1-((i^1)&1), then i=(i^1)>>1, depth-1, from (index, depth)", why or "found %d step paths" % n, loc(it))
    exits = [p for p in paths if p.kind == "return" and known_ok(eng.value_of(p.store, p.ret)) is not False]
    # in any spelling: index < capacity on every success path; the loop is left when depth - 1 == 0; success requires the index to be 0
    guard = all(any(op == "<" and x == P(2) for op, x, y in cmp_facts(p.conds())) for p in exits)

    def zero_tests(p):
        return [x for op, x, y in eq_facts(p.conds()) if op == "==" and cint(y) == 0]
    stop = all(any(isinstance(x, tuple) and x[:2] == ("bin", "Sub") for x in zero_tests(p)) and
               any(not (isinstance(x, tuple) and x[:2] == ("bin", "Sub")) for x in zero_tests(p)) for p in exits)
    ctx.check(guard and stop and exits, "R07-3", "OptimalMerkleTree::proof bounds", "position >= capacity rejected first; exactly depth steps and the index must have reached 0",
              "proof() is not guarded by `index >= capacity -> Err`, or does not run to depth 0 / require the final index 0", loc(it))
    # compute_root_from
    crf = fb.need(OPT_P + "compute_root_from")
    ctx.touch(crf)
    e = Engine(fb, inline=lambda i: False)
    arms = {}
    okc = True
    for p in e.run(crf):
        if p.kind != "backedge":
            continue
        w = None
        sel = None
        for a, v in p.conds():
            if a[0] == "b" and a[1][0] == "bin" and a[1][1] == "Eq" and cint(a[1][3]) == 0:
                w = a[1][2][1]
                sel = v
        # the accumulator is the loop-carried variable that starts at the leaf (parameter 2)
        accs = phi_with_init(p, lambda i0: i0 == P(2))
        acc = accs[0][1] if len(accs) == 1 else None
        arms[sel] = (acc, w)
    good = set(arms) == {True, False}
    if good:
        a0, w = arms[True]
        a1, _ = arms[False]
        accphi = [s for s in subterms(a0) if s[0] == "phi" and s[4] == P(2)]
        good = bool(accphi) and is_hash_of(a0, accphi[0], F(w, "0")) and is_hash_of(a1, F(w, "0"), accphi[0]) and accphi[0][4] == P(2)
    else:
        # the same fold written with Iterator::fold: self.0.iter().fold(*leaf, |acc, w| if w.1 == 0 { H(acc, w.0) } else { H(w.0, acc) })
        rets = ret_paths(e.run(crf))
        rv = e.value_of(rets[0].store, rets[0].ret) if len(rets) == 1 else None
        if isinstance(rv, tuple) and rv and rv[0] == "call" and rv[1].endswith("::fold") and len(rv[2]) == 3 and rv[2][1] == P(2) and isinstance(rv[2][2], tuple) and rv[2][2][0] == "closure":
            seq = rv[2][0]
            while isinstance(seq, tuple) and seq and seq[0] == "call" and re.search(r"::(iter|into_iter)$", seq[1]) and seq[2]:
                seq = seq[2][0]
            cit = fb.items.get(rv[2][2][1])
            if seq == F(P(1), "0") and cit is not None:
                ctx.touch(cit)
                e9 = Engine(fb, inline=lambda i: False)
                carms = {}
                for q in e9.run(cit):
                    if q.kind != "return":
                        continue
                    for op, x, y in eq_facts(q.conds()):
                        if cint(y) == 0 and x == F(P(3), "1"):
                            carms[op == "=="] = e9.value_of(q.store, q.ret)
                good = set(carms) == {True, False} and is_hash_of(carms[True], P(2), F(P(3), "0")) and is_hash_of(carms[False], F(P(3), "0"), P(2))
                arms = {k: (v, None) for k, v in carms.items()}
    ctx.check(good, "R07-1", "OptimalMerkleProof::compute_root_from", "bit 0: H(acc, sibling); else H(sibling, acc); from the leaf", "recomputation arms %s" % ({k: sh(v[0], 100) for k, v in arms.items()}), loc(crf))
    it2, a = closure_arms(fb, OPT_P + "get_path_index::{closure#0}")
    it3, b = closure_arms(fb, OPT_P + "get_path_elements::{closure#0}")
    ctx.check(a == {None: F(P(2), "1")} and b == {None: F(P(2), "0")}, "R07-1", "OptimalMerkleProof exports", "path elements = .0, direction bits = .1 of each step",
              "exports are %s / %s" % (a, b), loc(it2))
    li = fb.need(OPT_P + "leaf_index")
    ps = ret_paths(e.run(li))
    rv = e.value_of(ps[0].store, ps[0].ret) if len(ps) == 1 else None
    # the direction bits (the `.1` of each step: `get_path_index()`, or `self.0.iter().map(|x| x.1)`) are folded most-significant
    # first: the list is reversed in place and folded, or folded through .rev(); the accumulator must be a usize (a narrower one
    # wraps for deep trees) and each step is acc*2 + bit (| is the same on a 0/1 bit)
    def bit_sequence(t):
        """(reversed an odd number of times, is the direction-bit sequence of this proof)"""
        rev = 0
        for _ in range(8):
            if not (isinstance(t, tuple) and t):
                break
            if t[0] == "upd" and isinstance(t[1], str) and t[1].endswith("::reverse"):
                rev += 1
                t = t[3][0]
            elif t[0] == "call" and t[1].endswith("::rev") and t[2]:
                rev += 1
                t = t[2][0]
            elif t[0] == "call" and re.search(r"::(iter|into_iter|copied|cloned)$", t[1]) and t[2]:
                t = t[2][0]
            elif t[0] == "call" and t[1].endswith("Iterator::map") and len(t[2]) == 2 and isinstance(t[2][0], tuple) and t[2][0][0] == "call" and t[2][0][1].endswith("::rev"):
                # map(rev(S), f) = rev(map(S, f))
                rev += 1
                t = ("call", t[1], (t[2][0][2][0], t[2][1]))
            else:
                break
        if isinstance(t, tuple) and t and t[0] == "call" and t[1].endswith("get_path_index") and t[2] == (P(1),):
            return rev % 2 == 1, True
        sm = seq_map(fb, t)
        return rev % 2 == 1, sm is not None and sm[0] == F(P(1), "0") and sm[1] == F(ELEM, "1")
    isfold = rv is not None and rv[0] == "call" and rv[1].endswith("::fold") and len(rv[2]) == 3 and isinstance(rv[2][2], tuple) and rv[2][2][0] == "closure"
    it4, c = closure_arms(fb, rv[2][2][1]) if isfold else (None, None)
    step = (c or {}).get(None)
    acc_ty = it4.locals[2]["ty"] if it4 is not None and len(it4.locals) > 2 else None
    good = isfold and bit_sequence(rv[2][0]) == (True, True) and cint(rv[2][1]) == 0 \
        and acc_ty == "usize" and step is not None and step[0] == "bin" and step[1] in ("Add", "BitOr") \
        and step[2][:3] == ("bin", "Shl", P(2)) and cint(step[2][3]) == 1 and step[3][0] == "call" and step[3][2] == (P(3),)
    ctx.check(good, "R07-1", "OptimalMerkleProof::leaf_index", "direction bits folded most-significant first into a usize: acc*2 + bit", "leaf_index is %s with step %s (accumulator type %s)" % (sh(rv, 120), sh((c or {}).get(None), 80), acc_ty), loc(li))
    vf = fb.need(OPT_T + "verify")
    ctx.touch(vf)
    e2 = Engine(fb, inline=opaque_rx(r"compute_root_from$|ZerokitMerkleTree>::root$|ZerokitMerkleProof>::length$"))
    oks = [(p, e2.value_of(p.store, p.ret)) for p in e2.run(vf) if p.kind == "return" and known_ok(e2.value_of(p.store, p.ret)) is not False]
    good = len(oks) == 1
    if good:
        p, rv = oks[0]
        eq = rv[4][0]
        good = eq[0] == "eq" and any(t[0] == "call" and t[1].endswith("compute_root_from") and t[2] == (P(3), P(2)) for t in eq[1:]) and any(t[0] == "call" and t[1].endswith("::root") for t in eq[1:])
        lenc = [a for a, v in p.conds() if a[0] == "b" and a[1][0] == "bin" and a[1][1] in ("Ne", "Eq") and ((a[1][1] == "Ne") == (v is False))]
        good = good and len(lenc) == 1
    ctx.check(good, "R07-2", "OptimalMerkleTree::verify", "length == depth and compute_root_from(leaf) == root()", "verify has %d success paths / wrong comparison" % len(oks), loc(vf))


def check_pmtree(ctx, fb):
    base = r"pm_tree_adapter::PmTreeProof as zerokit_utils::ZerokitMerkleProof>::"
    for m in ("length", "leaf_index", "get_path_elements", "get_path_index", "compute_root_from"):
        it = fb.one(base + m + "$")
        ctx.touch(it)
        e = Engine(fb, inline=lambda i: False)
        ps = ret_paths(e.run(it))
        rv = e.value_of(ps[0].store, ps[0].ret) if len(ps) == 1 else None
        args = (F(P(1), "proof"),) + ((P(2),) if m == "compute_root_from" else ())
        good = rv is not None and rv[0] == "call" and rv[1].endswith("MerkleProof::<H>::" + m) and rv[2] == args
        ctx.check(good, "R07-1", "PmTreeProof::%s" % m, "delegates to pmtree's proof.%s" % m, "PmTreeProof::%s is %s" % (m, sh(rv, 160)), loc(it))
    vf = fb.one(r"pm_tree_adapter::PmTree as zerokit_utils::ZerokitMerkleTree>::verify$")
    ctx.touch(vf)
    e = Engine(fb, inline=lambda i: False)
    oks = [(p, e.value_of(p.store, p.ret)) for p in e.run(vf) if p.kind == "return" and known_ok(e.value_of(p.store, p.ret)) is not False]
    good = len(oks) == 1 and cint(oks[0][1][4][0]) == 1
    if good:
        cm = cond_map(oks[0][0])
        c = [a for a, v in cm.items() if a[0] == "b" and a[1][0] == "call" and a[1][1].endswith("::verify") and a[1][2] == (F(P(1), "tree"), P(2), F(P(3), "proof")) and v is True]
        good = len(c) == 1
    ctx.check(good, "R07-2", "PmTree::verify", "Ok(true) exactly when pmtree's verify(leaf, proof) holds", "PmTree::verify success is not conditioned on tree.verify(leaf, &witness.proof)", loc(vf))
    pf = fb.one(r"pm_tree_adapter::PmTree as zerokit_utils::ZerokitMerkleTree>::proof$")
    e = Engine(fb, inline=lambda i: False)
    oks = [e.value_of(p.store, p.ret) for p in e.run(pf) if p.kind == "return" and known_ok(e.value_of(p.store, p.ret)) is not False]
    good = len(oks) == 1 and oks[0][4][0][0] == "adt" and oks[0][4][0][4][0][0] == "unwrap" and oks[0][4][0][4][0][1][1].endswith("::proof") and oks[0][4][0][4][0][1][2] == (F(P(1), "tree"), P(2))
    ctx.check(good, "R07-1", "PmTree::proof", "wraps pmtree's proof(index)", "PmTree::proof is %s" % [sh(o, 160) for o in oks], loc(pf))


def check_export(ctx, fb, cfg):
    it = fb.need("rln::public::RLN::get_proof")
    ctx.touch(it)
    inst = "rln::public::RLN::get_proof[%s]" % cfg
    e = Engine(fb, inline=opaque_rx(r"ZerokitMerkle(Tree|Proof)>::|^rln::utils::(vec_fr_to_bytes_le|vec_u8_to_bytes_le)$"))
    paths = e.run(it)
    oks = [p for p in paths if p.kind == "return" and known_ok(e.value_of(p.store, p.ret)) is not False]
    div = [p for p in paths if p.kind == "diverge"]
    why = None
    if len(oks) != 1:
        why = "expected one success path, found %d" % len(oks)
    else:
        p = oks[0]
        pr = p.calls(r"ZerokitMerkleTree>::proof$")
        outs = []
        for ev in p.trace:
            if ev[0] == "append" and ev[1][1] in (3, -3):
                if isinstance(ev[3], tuple) and ev[3][0] == "cat":
                    outs.extend(ev[3][1:])
                else:
                    outs.append(ev[3])
        if len(pr) != 1 or pr[0][2] != (F(P(1), "tree"), P(2)):
            why = "proof lookup is %s, specification self.tree.proof(index)" % [sh(("call", c[1], c[2]), 100) for c in pr]
        else:
            prf = ("call", pr[0][1], pr[0][2])
            okp = [a for a, v in p.conds() if a == ("ok", prf) and v is True]
            proof = ("unwrap", prf)
            def expect(fn, getter):
                return [t for t in outs if t[0] == "unwrap" and t[1][0] == "call" and t[1][1] == fn and t[1][2][0][0] == "call" and t[1][2][0][1].endswith(getter)]
            o = [sh(x, 160) for x in outs]
            good = len(outs) == 2
            if good:
                a, b = outs
                good = a[0] == "unwrap" and a[1][1] == "rln::utils::vec_fr_to_bytes_le" and a[1][2][0][0] == "call" and a[1][2][0][1].endswith("ZerokitMerkleProof>::get_path_elements") and a[1][2][0][2][0] in (proof,) \
                    and b[0] == "unwrap" and b[1][1] == "rln::utils::vec_u8_to_bytes_le" and b[1][2][0][0] == "call" and b[1][2][0][1].endswith("ZerokitMerkleProof>::get_path_index") and b[1][2][0][2][0] in (proof,)
            if not good:
                why = "writes %s, specification vec_fr(path_elements) then vec_u8(path_index) of the looked-up proof" % o
    ctx.check(why is None, "R07-4", inst, "vec_fr_to_bytes_le(get_path_elements()) | vec_u8_to_bytes_le(get_path_index()) of tree.proof(index)", why or "", loc(it))
    unw = [ob for p in paths for ob in p.obligations() if ob[1] == "Unwrap" and isinstance(ob[2][0], tuple) and ob[2][0][0] == "call" and ob[2][0][1].endswith("ZerokitMerkleTree>::proof")]
    if div or unw:
        ctx.fail("R07-4", inst + "|lookup-unwrapped", "RLN::get_proof can diverge (expect on the Merkle proof lookup): a position >= capacity panics instead of returning Err",
                 loc(it, div[0].site if div else unw[0][3]))
    else:
        ctx.ok("R07-4", inst + "|lookup-unwrapped", "a failing lookup is returned as Err", loc(it))


def run(ctx):
    cfgs = ["default"] if ctx.tier == "quick" else ["default", "optimal", "full"]
    ctx.prefetch(cfgs + ["fixtures"])
    fb = ctx.fb("default")
    check_full(ctx, fb)
    check_optimal(ctx, fb)
    check_pmtree(ctx, fb)
    for cfg in cfgs:
        check_export(ctx, ctx.fb(cfg), cfg)
    n = len([r for r in ctx.results if r.rule.startswith("R07")])
    ctx.floor("convention-instances", n, 22)
    # R07-6 (shared with C06 R06-11): the persistent tree's proof is read back from the store: every record handed to the key-value adapter is stored, whole, and read back as stored
    from . import c06 as _c06s
    _subs = type(ctx)(ctx.pid, ctx.tier)
    _c06s.check_store_adapter(_subs, ctx.fb("default"))
    for r in _subs.results:
        (ctx.ok if r.status == "ok" else ctx.fail)("R07-6", r.instance, r.reason, r.loc)
    # R07-5 (shared with C06 R06-3): a proof recomputes the *current* root only if every write recomputed all ancestors of what it
    # changed: the parent-recomputation shape of the two in-memory back ends (unconditional climb to the root)
    from . import c06
    from ..main import Ctx as _Ctx
    sub = _Ctx(ctx.pid, ctx.tier)
    c06.check_recompute(sub, fb)
    for r in sub.results:
        (ctx.ok if r.status == "ok" else ctx.fail)("R07-5", r.instance, r.reason, r.loc)
