"""C09 Poseidon and hash-to-field conform to their specifications: parameter table, hash_to_field DAG, purity, round structure."""
import re
from ..symex import Engine, show, subterms, contains
from ..lib import *

INFO = {
    "level": "other",
    "explanation": "Decides (R09-1) that the const-evaluated round-parameter table equals the circomlib/Poseidon-paper table t=2..9, RF=8, "
                   "RP=[56,57,56,60,60,63,64,63], skip=0, and that POSEIDON is built from exactly that table; (R09-2) hash_to_field(sig) = "
                   "Fr::from(BigUint::from_bytes_le(keccak256(sig[all])[0..32])) as an expression DAG for all byte strings (one update with the "
                   "whole parameter, 32-byte little-endian read, reducing constructor); (R09-3) purity: the resolved call graph below "
                   "poseidon_hash, hash_to_field, public::hash and public::poseidon_hash reaches no entropy, time, environment, I/O or "
                   "interior-mutable state; the only global is the immutable Lazy POSEIDON with a pure initialiser; the byte-level entry points "
                   "are fr_to_bytes_le o hash_to_field and fr_to_bytes_le o poseidon_hash o bytes_le_to_vec_fr; (R09-4) the round structure of "
                   "Poseidon::hash/ark/sbox/mix_2 as a shape: state [0, inp..], RF+RP rounds, constants at offset i*t, x^5 on all lanes iff "
                   "i < RF/2 or i >= RF/2+RP else lane 0 only, dense matrix-vector product, output lane 0, and the branch-condition inventory "
                   "of these functions equals the specification's (no arity- or value-dependent extra branch). R09-5 (shared with C11): the C entry points hash and poseidon_hash pass their input to the same-named function and publish its bytes in a buffer of their own.",
    "not_decided": "the Grain-LFSR constants (pinned by the suite for all eight arities) and the numeric result of the permutation; "
                   "Keccak-f itself (tiny-keccak is opaque)",
    "assumptions": ["tiny_keccak::Keccak::v256 is Keccak-256; BigUint::from_bytes_le and Fr::from(BigUint) are LE read and reduction mod p"],
}

SPEC_TABLE = [(2, 8, 56, 0), (3, 8, 57, 0), (4, 8, 56, 0), (5, 8, 60, 0), (6, 8, 60, 0), (7, 8, 63, 0), (8, 8, 64, 0), (9, 8, 63, 0)]
PH = "zerokit_utils::poseidon::poseidon_hash::Poseidon::<F>::"


def const_value(fb, path):
    it = fb.items.get(path)
    if it is None:
        from ..facts import MissingAnchor
        raise MissingAnchor(path)
    eng = Engine(fb)
    ps = ret_paths(eng.run(it))
    assert len(ps) == 1
    return it, eng.value_of(ps[0].store, ps[0].ret)


def run(ctx):
    ctx.prefetch(["default", "fixtures"])
    fb = ctx.fb("default")
    # ---------------- R09-1
    it, v = const_value(fb, "rln::hashers::ROUND_PARAMS")
    ctx.touch(it)
    tab = None
    if v[0] == "array":
        try:
            tab = [tuple(cint(x) for x in row[1]) for row in v[1]]
        except Exception:
            tab = None
    ctx.check(tab == SPEC_TABLE, "R09-1", "rln::hashers::ROUND_PARAMS", "equals the reference table (t, RF, RP, skip) for t = 2..9",
              "round-parameter table is %s, reference table %s" % (tab, SPEC_TABLE), loc(it))
    pit = fb.items.get("rln::hashers::POSEIDON")
    init = [c for c in fb.find(r"^rln::hashers::POSEIDON::\{closure#0\}$", kinds=None)]
    good = False
    if init:
        ctx.touch(init[0])
        eng = Engine(fb, inline=lambda i: False)
        ps = ret_paths(eng.run(init[0]))
        if len(ps) == 1:
            rv = eng.value_of(ps[0].store, ps[0].ret)
            good = rv[0] == "call" and rv[1].endswith("Poseidon::<F>::from") and len(rv[2]) == 1 and (
                rv[2][0] == v or rv[2][0] == ("item", "rln::hashers::ROUND_PARAMS") or (rv[2][0][0] == "constmem" and rv[2][0][1] == "rln::hashers::ROUND_PARAMS"))
    ctx.check(good, "R09-1", "rln::hashers::POSEIDON", "initialised as Poseidon::from(&ROUND_PARAMS)", "POSEIDON is not built from ROUND_PARAMS", loc(pit) if pit else "")
    # ---------------- R09-2
    hf = fb.need("rln::hashers::hash_to_field")
    ctx.touch(hf)
    eng = Engine(fb)
    ps = eng.run(hf)
    rets = ret_paths(ps)
    digest = ("upd", "<tiny_keccak::Keccak as tiny_keccak::Hasher>::finalize", 1,
              (("upd", "<tiny_keccak::Keccak as tiny_keccak::Hasher>::update", 0, (call("tiny_keccak::Keccak::v256"), P(1))),))
    ok = False
    got = None
    if len(ps) == 1 and len(rets) == 1:
        got = eng.value_of(rets[0].store, rets[0].ret)
        if got[0] == "call" and re.search(r"Fp<P, N> as std::convert::From<num_bigint::BigUint>>::from$", got[1]):
            inner = got[2][0]
            if inner[0] == "call" and inner[1] == "num_bigint::BigUint::from_bytes_le" and inner[2][0][0] == "slice":
                s = inner[2][0]
                d = s[1]
                if cint(s[2]) == 0 and cint(s[3]) == 32 and d[0] == "upd" and d[1] == digest[1] and d[3][0] == digest[3][0] \
                        and d[3][1][0] == "repeat" and cint(d[3][1][1]) == 0 and str(d[3][1][2]).startswith("32"):
                    ok = True
    ctx.check(ok, "R09-2", "rln::hashers::hash_to_field", "Fr::from(BigUint::from_bytes_le(keccak256(signal[all])[0..32])), single path",
              "hash_to_field computes %s on %d path(s); specification Fr::from(BigUint::from_bytes_le(keccak256(whole signal)[0..32]))" % (sh(got, 300), len(ps)), loc(hf))
    check_entries(ctx, fb)
    # ---------------- R09-4 shape
    check_shape(ctx, fb)
    # R09-5 (shared with C11): "across entry points (typed, byte-level, FFI)": the two C hash entry points hand their input to the
    # same-named function and publish its bytes in a buffer of their own
    from . import c11
    from ..main import Ctx as _Ctx9
    k9 = 0
    for w in c11.wrappers(fb):
        if w["name"] in ("hash", "poseidon_hash"):
            sub9 = _Ctx9(ctx.pid, ctx.tier)
            c11.check_wrapper(sub9, fb, w, "default")
            k9 += 1
            for r in sub9.results:
                (ctx.ok if r.status == "ok" else ctx.fail)("R09-5", r.instance, r.reason, r.loc)
    ctx.floor("hash-ffi-wrappers", k9, 2)


def check_entries(ctx, fb):
    """R09-3: the hash functions and their byte-level entry points reach no global or interior-mutable state other than the immutable
    parameter table, and the byte-level entry points are compositions of the typed functions on the whole input"""
    # ---------------- R09-3 purity
    roots = ["rln::hashers::poseidon_hash", "rln::hashers::hash_to_field", "rln::public::hash", "rln::public::poseidon_hash"]
    seen, ext, statics = reach(fb, roots)
    bad = sorted(n for n in ext if any(re.search(d, n) for d in DENY_EFFECTS))
    ctx.check(not bad, "R09-3", "purity[hash entry points]", "%d workspace fns, %d external callees reachable, none on the effect deny-list" % (len(seen), len(ext)),
              "reachable from the hash entry points: %s (first via %s)" % (bad[:4], ext.get(bad[0]) if bad else ""))
    ctx.check(statics <= {"rln::hashers::POSEIDON"}, "R09-3", "globals[hash entry points]", "only global reached: POSEIDON",
              "unexpected global state reached: %s" % sorted(statics))
    mut = [p for p in statics if fb.items.get(p) is not None and fb.items[p].get("static_mut")]
    ctx.check(not mut, "R09-3", "static-mut[hash entry points]", "no static mut", "static mut reached: %s" % mut)
    for s in sorted(seen):
        ctx.analysed["functions"].add(s)
    # entry-point agreement
    for fn, inner in [("rln::public::hash", "hash"), ("rln::public::poseidon_hash", "poseidon")]:
        it = fb.need(fn)
        ctx.touch(it)
        e2 = Engine(fb, inline=opaque_rx(r"^rln::hashers::(poseidon_hash|hash_to_field)$|^rln::utils::bytes_le_to_vec_fr$"))
        okp = []
        for p in ret_paths(e2.run(it)):
            rv = e2.value_of(p.store, p.ret)
            if rv[0] == "adt" and rv[2] == "Ok":
                okp.append(p)
        good = False
        why = "expected one success path, found %d" % len(okp)
        if len(okp) == 1:
            p = okp[0]
            I = find_input(p, 1)
            apps = [e for e in p.trace if e[0] == "append" and e[1][0] == p.frame and e[1][1] in (2, -2)]
            if inner == "hash":
                val = call("rln::hashers::hash_to_field", I)
            else:
                val = call("rln::hashers::poseidon_hash", F(("unwrap", call("rln::utils::bytes_le_to_vec_fr", I)), "0"))
            want = [prim(fb, "rln::utils::fr_to_bytes_le", val)]
            good = [a[3] for a in apps] == want
            why = "writes %s, specification %s" % ([sh(a[3], 200) for a in apps], sh(want[0], 200))
            # the byte-level entry point accepts what the typed function accepts: besides the results of reading and decoding, the
            # success path may only depend on guards that hold for EVERY supported arity 1..8 (a guard that rejects one of them makes the
            # entry points disagree); each guard is evaluated for the eight lengths
            if good and inner == "poseidon":
                from .c08 import ord_eval
                vec = F(("unwrap", call("rln::utils::bytes_le_to_vec_fr", I)), "0")
                for a, v in p.conds():
                    if a[0] == "ok":
                        continue
                    for L in range(1, 9):
                        t = a[1] if a[0] == "b" else None
                        if isinstance(t, tuple) and t and t[0] == "is_empty" and t[1] == vec:
                            val_ = 0
                        else:
                            env = {("len", vec): L}
                            for x in subterms(t if isinstance(t, tuple) else ()):
                                # the length of the parameter table (one row per supported arity; its contents are R09-1's subject)
                                if x[0] == "len" and isinstance(x[1], tuple) and x[1] and (x[1] == ("item", "rln::hashers::ROUND_PARAMS") or (x[1][0] == "constmem" and x[1][1] == "rln::hashers::ROUND_PARAMS")):
                                    env[x] = len(SPEC_TABLE)
                            val_ = ord_eval(t, env) if t is not None else None
                        if val_ is None or bool(val_) != bool(v):
                            good = False
                            why = "the success path requires %s = %s, which does not hold for %d input(s): a supported arity is rejected by the byte-level entry point only" % (sh(a, 100), v, L) \
                                if val_ is not None else "the success path depends on %s (not a guard on the number of inputs that can be evaluated)" % sh(a, 100)
                            break
                    if not good:
                        break
        ctx.check(good, "R09-3", fn, "byte-level entry point = fr_to_bytes_le o typed function on the whole input", why, loc(it))


def check_shape(ctx, fb):
    hit = fb.need(PH + "hash")
    ctx.touch(hit)
    eng = Engine(fb, inline=lambda i: False)
    paths = eng.run(hit)
    inst = PH + "hash"
    rets = ret_paths(paths)
    backs = [p for p in paths if p.kind == "backedge"]
    oks = [p for p in rets if eng.value_of(p.store, p.ret)[0] == "adt" and eng.value_of(p.store, p.ret)[2] == "Ok"]
    if len(oks) != 1 or len(backs) != 1:
        ctx.fail("R09-4", inst, "specified as one round loop with one success exit: found %d success paths, %d loop bodies "
                                "(an arity- or value-dependent special case adds paths)" % (len(oks), len(backs)), loc(hit))
        return
    p = oks[0]
    inp = P(2)
    t = ("bin", "Add", ("len", inp), mk_const("usize", 1))
    # the two rejections: empty input, and no parameter set for t (the `position` result tested with is_none / is_some / a `let Some`
    # pattern: any of them), nothing else
    pos = None
    for a, v in p.conds():
        if a[0] == "b" and a[1][0] == "call" and re.search(r"::(is_none|is_some)$", a[1][1]) and v is a[1][1].endswith("is_some"):
            pos = a[1][2][0]
        if a[0] == "ok" and v is True and isinstance(a[1], tuple) and a[1][0] == "call" and a[1][1].endswith("::position"):
            pos = a[1]
    conds = [(a, v) for a, v in p.conds() if a[0] != "ok" or (a[1] == pos)]
    allowed = lambda a: (a == ("b", ("is_empty", inp))) or (pos is not None and (a in (("b", call("std::option::Option::<T>::is_none", pos)), ("b", call("std::option::Option::<T>::is_some", pos)), ("ok", pos))))
    extra = [(a, v) for a, v in conds if not allowed(a)]
    if extra or pos is None:
        ctx.fail("R09-4", inst, "branch inventory differs from the specification {inp.is_empty(), no parameters for t}: extra %s" % [
            (sh(a, 120), v) for a, v in extra], loc(hit))
        return
    # parameter selection closure: el.t == inp.len()+1
    good_sel = False
    if pos[0] == "call" and pos[1].endswith("::position") and pos[2][0] == F(P(1), "round_params") and pos[2][1][0] == "closure":
        cl = fb.items.get(pos[2][1][1])
        if cl is not None:
            ctx.touch(cl)
            e3 = Engine(fb)
            cps = ret_paths(e3.run(cl))
            if len(cps) == 1:
                rv = e3.value_of(cps[0].store, cps[0].ret)
                good_sel = rv[0] == "bin" and rv[1] == "Eq" and F(P(2), "t") in rv[2:] and len(cl.get("upvars", [])) == 1
            # the captured value is t = len(inp)+1
            cap = pos[2][1][2]
            capv = [eng.value_of(p.store, c) for c in cap]
            good_sel = good_sel and capv == [t]
    if not good_sel:
        ctx.fail("R09-4", inst, "parameters are not selected by round_params.position(|el| el.t == inp.len()+1)", loc(hit))
        return
    rp = ("idx", F(P(1), "round_params"), ("unwrap", pos))
    rv = eng.value_of(p.store, p.ret)[4][0]
    if not (rv[0] == "idx" and cint(rv[2]) == 0 and rv[1][0] == "phi"):
        ctx.fail("R09-4", inst, "output is %s, specification lane 0 of the final state" % sh(rv), loc(hit))
        return
    state_phi = rv[1]
    b = backs[0]
    itphi = [s for s in subterms(b.trace[-1][2] if b.trace else ()) if False]
    # loop range
    rng = None
    for e in b.trace:
        if e[0] == "cond" and e[1][0] == "ok" and e[1][1][0] == "call" and e[1][1][1].endswith("Range<A>>::next"):
            rng = e[1][1][2][0]
    want_end = ("bin", "Add", *sorted([F(rp, "n_rounds_f"), F(rp, "n_rounds_p")], key=repr))
    if not (rng and rng[0] == "phi" and rng[4][0] == "adt" and rng[4][4][0] == mk_const("usize", 0) and rng[4][4][1] == want_end):
        ctx.fail("R09-4", inst, "round loop runs over %s, specification 0..RF+RP of the selected parameters" % sh(rng[4] if rng else None, 200), loc(hit))
        return
    i = ("unwrap", call(rngname(b), rng))
    calls = [c for c in b.calls() if c[1].startswith(PH)]
    names = [c[1][len(PH):] for c in calls]
    if names != ["ark", "sbox", "mix_2"]:
        ctx.fail("R09-4", inst, "a round performs %s, specification [ark, sbox, mix_2]" % names, loc(hit))
        return
    ark, sbox, mix = calls
    st1 = ("upd", PH + "ark", 1, ark[2])
    st2 = ("upd", PH + "sbox", 3, sbox[2])
    problems = []
    if ark[2] != (P(1), state_phi, F(rp, "c"), ("bin", "Mul", *sorted([i, F(rp, "t")], key=repr))):
        problems.append("ark(%s)" % ", ".join(sh(a, 60) for a in ark[2][1:]))
    if sbox[2] != (P(1), F(rp, "n_rounds_f"), F(rp, "n_rounds_p"), st1, i):
        problems.append("sbox(%s)" % ", ".join(sh(a, 60) for a in sbox[2][1:]))
    if not (mix[2][0] == P(1) and mix[2][1] == st2 and mix[2][2] == F(rp, "m") and mix[2][3][0] == "phi"):
        problems.append("mix_2(%s)" % ", ".join(sh(a, 60) for a in mix[2][1:]))
    sw = [c for c in b.calls(r"^std::mem::swap$")]
    if len(sw) != 1:
        problems.append("state/state_2 not swapped exactly once per round")
    if problems:
        ctx.fail("R09-4", inst, "round body deviates: %s; specification ark(state, c, i*t); sbox(RF, RP, state, i); mix_2(state, m, state_2); swap" % "; ".join(problems), loc(hit))
        return
    # initial state [0, inp...]
    init = state_phi[4]
    want0 = call("std::vec::from_elem", ("item", "ark_ff::AdditiveGroup::ZERO"), t)
    ok_init = init == ("with", want0, ("slice", mk_const("usize", 1), None), inp)
    if not ok_init:
        ctx.fail("R09-4", inst, "initial state is %s, specification [0; t] with lanes 1.. = input" % sh(init, 200), loc(hit))
        return
    ctx.ok("R09-4", inst, "RF+RP rounds of ark(i*t), sbox(i), mix_2, swap; state [0,inp..]; output lane 0; branch inventory as specified", loc(hit))
    # ---- sbox
    sit = fb.need(PH + "sbox")
    ctx.touch(sit)
    e4 = Engine(fb, inline=lambda i: False)
    sp = e4.run(sit)
    rf, rpp, st, ii = P(2), P(3), P(4), P(5)
    half = ("bin", "Div", rf, mk_const("usize", 2))
    c1 = ("b", ("bin", "Lt", ii, half))
    c2 = ("b", ("bin", "Ge", ii, ("bin", "Add", *sorted([half, rpp], key=repr))))
    good = len(sp) == 3
    full_closure = None
    full_kind = "closure"
    hp = ("bin", "Add", *sorted([half, rpp], key=repr))
    for p in sp:
        # the round kind is decided by comparisons of i with RF/2 and RF/2 + RP only, in any spelling (i < h || i >= h + p, or its
        # De Morgan dual with the arms swapped): full rounds are those with i < h or h + p <= i, partial ones h <= i < h + p
        cf = cmp_facts(p.conds())
        if len(cf) != len(p.conds()) or any({x, y} not in ({ii, half}, {ii, hp}) for _, x, y in cf):
            good = False
        full = ("<", ii, half) in cf or ("<=", hp, ii) in cf
        if not full and not (("<=", half, ii) in cf and ("<", ii, hp) in cf):
            good = False
        fe = [c for c in p.calls(r"::for_each$")]
        if full:
            # the per-lane body is a closure or a named function handed to for_each
            if len(fe) != 1 or fe[0][2][0] != st or fe[0][2][1][0] not in ("closure", "fn"):
                good = False
            else:
                full_closure = fe[0][2][1][1]
                full_kind = fe[0][2][1][0]
        else:
            final = p.store.get((p.frame, -4))
            x = ("idx", st, mk_const("usize", 0))
            lane0 = ac_normal(strip_upd(project_idx0(final)))
            if fe or lane0 != ("fmul*", (x,) * 5):
                good = False
    if good and full_closure:
        cl = fb.items.get(full_closure)
        ctx.touch(cl)
        e5 = Engine(fb, inline=lambda i: False)
        cps = ret_paths(e5.run(cl))
        k = 2 if full_kind == "closure" else 1        # a closure's first parameter is its environment
        x = P(k)
        good = len(cps) == 1 and ac_normal(strip_upd(cps[0].store.get((cps[0].frame, -k)))) == ("fmul*", (x,) * 5)
    ctx.check(good, "R09-4", PH + "sbox", "x^5 on every lane iff i < RF/2 or i >= RF/2+RP, else on lane 0 only; no other branch",
              "S-box layer deviates from: full rounds iff i < RF/2 or i >= RF/2+RP (x^5 on all lanes), partial rounds x^5 on lane 0", loc(sit))
    # ---- ark
    ait = fb.need(PH + "ark")
    ctx.touch(ait)
    e6 = Engine(fb, inline=lambda i: False)
    ap = e6.run(ait)
    good = len(ap) == 1
    if good:
        fe = ap[0].calls(r"::for_each$")
        good = len(fe) == 1 and fe[0][2][0] == call("std::iter::Iterator::enumerate", P(2)) and fe[0][2][1][0] == "closure"
        if good:
            cl = fb.items.get(fe[0][2][1][1])
            ctx.touch(cl)
            caps = [e6.value_of(ap[0].store, c) for c in fe[0][2][1][2]]
            e7 = Engine(fb, inline=lambda i: False)
            cps = ret_paths(e7.run(cl))
            good = len(cps) == 1
            if good:
                # *elem += c[it + i]   (closure env: .0 = c, .1 = it; item: (i, elem))
                aa = cps[0].calls(r"^std::ops::AddAssign::add_assign$")
                want_idx = ("idx", F(P(1), "0"), ("bin", "Add", *sorted([F(P(1), "1"), F(P(2), "0")], key=repr)))
                good = len(aa) == 1 and aa[0][2] == (F(P(2), "1"), want_idx) and caps == [P(3), P(4)] and len(cps[0].calls()) == 1
    if not good:
        # the same layer written as `for i in 0..state.len() { state[i] += c[it + i] }`
        backs = [p for p in ap if p.kind == "backedge"]
        rets = ret_paths(ap)
        if len(backs) == 1 and len(rets) == 1 and not [a for p in ap for a, v in p.conds() if a[0] != "ok"]:
            b = backs[0]
            cell = b.store.get((b.frame, -2))
            if isinstance(cell, tuple) and cell[0] == "with" and cell[1][0] == "phi" and cell[1][4] == P(2) and cell[2][0] == "idx":
                i = cell[2][1]
                rv_ = range_var(i)
                v = cell[3]
                want = {("idx", P(3), ("bin", "Add", P(4), i)), ("idx", cell[1], i)}
                want2 = {("idx", P(3), ("bin", "Add", i, P(4))), ("idx", cell[1], i)}
                good = rv_ is not None and cint(rv_[0]) == 0 and rv_[1] in (("len", P(2)), ("len", cell[1])) and isinstance(v, tuple) and v[0] == "fadd" and set(v[1:]) in (want, want2) \
                    and not writes(b, only_params=False)[1:] 
    if not good:
        # third spelling: `for (i, elem) in state.iter_mut().enumerate() { *elem += c[it + i] }`
        backs = [p for p in ap if p.kind == "backedge"]
        if len(backs) == 1 and len(ret_paths(ap)) == 1 and not [a for p in ap for a, v in p.conds() if a[0] != "ok"]:
            b = backs[0]
            aa = b.calls(r"^std::ops::AddAssign::add_assign$")
            others = [c for c in b.calls() if not re.search(r"AddAssign::add_assign$|Enumerate<I> as std::iter::Iterator>::next$|Iterator::enumerate$|::iter_mut$", c[1])]
            if len(aa) == 1 and not others and not writes(b, only_params=False):
                tgt, val = aa[0][2]
                en = tgt[1] if isinstance(tgt, tuple) and tgt[0] == "field" and tgt[2] == ("f", "1") else None
                src = en[1][2][0] if isinstance(en, tuple) and en[0] == "unwrap" and en[1][0] == "call" and en[1][1].endswith("Enumerate<I> as std::iter::Iterator>::next") else None
                init = src[4] if isinstance(src, tuple) and src[0] == "phi" else None
                over_state = init in (call("std::iter::Iterator::enumerate", P(2)), call("std::iter::Iterator::enumerate", call("core::slice::<impl [T]>::iter_mut", P(2))))
                want = (("idx", P(3), ("bin", "Add", P(4), F(en, "0"))), ("idx", P(3), ("bin", "Add", F(en, "0"), P(4)))) if en else ()
                good = over_state and val in want
    ctx.check(good, "R09-4", PH + "ark", "state[i] += c[it + i] for every lane", "round-constant layer deviates from state[i] += c[it + i] over all lanes", loc(ait))
    # ---- mix_2
    mit = fb.need(PH + "mix_2")
    ctx.touch(mit)
    e8 = Engine(fb, inline=lambda i: False)
    mp = e8.run(mit)
    backs = [p for p in mp if p.kind == "backedge"]
    good = len(ret_paths(mp)) == 1 and len(backs) == 2 and all(not [a for a, v in p.conds() if a[0] != "ok"] for p in mp)
    if good:
        inner = [b for b in backs if b.calls(r"^std::ops::Mul::mul$|fmul") or any(e[0] == "loop" and "acc" in e[3] for e in b.trace)]
        outer = [b for b in backs if writes(b)]
        good = False
        for b in backs:
            accs = [v for ph, v in loop_phis(b) if isinstance(v, tuple) and v and v[0] == "fadd" and ph in v[1:]]
            acc = accs[0] if len(accs) == 1 else None
            if acc is not None and acc[0] == "fadd":
                a = norm_loopvars(acc)
                n = ("len", P(2))
                i_, j_ = ("i", mk_const("usize", 0), n), None
                prods = [x for x in a[1:] if x[0] == "fmul"]
                if len(prods) == 1:
                    pr = prods[0][1:]
                    js = [x for x in subterms(prods[0]) if x[0] == "i"]
                    mat = [x for x in pr if x[0] == "idx" and x[1][0] == "idx" and x[1][1] == P(3)]
                    vec = [x for x in pr if x[0] == "idx" and x[1] == P(2)]
                    if len(mat) == 1 and len(vec) == 1 and mat[0][2] == vec[0][2] and mat[0][1][2][0] == "i" and mat[0][2][0] == "i" \
                            and mat[0][2][1:] == (mk_const("usize", 0), n) and mat[0][1][2][1:] == (mk_const("usize", 0), n):
                        good = True
                    # inner loop written as `for (j, s) in state.iter().enumerate()`: the column index and the state element come from one
                    # enumeration of the whole state
                    en = [x for x in subterms(prods[0]) if x[0] == "unwrap" and x[1][0] == "call" and x[1][1].endswith("Enumerate<I> as std::iter::Iterator>::next")
                          and x[1][2][0][0] == "phi" and x[1][2][0][4] in (call("std::iter::Iterator::enumerate", P(2)), call("std::iter::Iterator::enumerate", call("core::slice::<impl [T]>::iter", P(2))))]
                    if len(mat) == 1 and not vec and en:
                        e0 = en[0]
                        if mat[0][2] == F(e0, "0") and F(e0, "1") in pr and mat[0][1][2][0] == "i" and mat[0][1][2][1:] == (mk_const("usize", 0), n):
                            good = True
        if good:
            ws = [w for b in backs for w in writes(b)]
            good = len(ws) == 1 and ws[0][1][1] == -4 and ws[0][2] and ws[0][2][0][0] == "idx" and ws[0][3][0] == "phi"
    if not good and len(ret_paths(mp)) == 1 and len(backs) == 1 and all(not [a for a, v in p.conds() if a[0] != "ok"] for p in mp):
        # the inner sum spelled as `(0..state.len()).fold(ZERO, |acc, j| acc + row[j] * state[j])`
        b = backs[0]
        ws = writes(b)
        n = ("len", P(2))
        if len(ws) == 1 and ws[0][1][1] == -4 and ws[0][2] and ws[0][2][0][0] == "idx":
            i = norm_loopvars(ws[0][2][0][1])
            ft = fold_term(fb, ws[0][3])
            if ft is not None and i == ("i", mk_const("usize", 0), n):
                lo, hi, init, step = ft
                step = norm_loopvars(step)
                prod = {("idx", ("idx", P(3), i), ELEM), ("idx", P(2), ELEM)}
                good = cint(lo) == 0 and hi == n and init == ("item", "ark_ff::AdditiveGroup::ZERO") and isinstance(step, tuple) and step[0] == "fadd" and ACC in step[1:] \
                    and any(isinstance(x, tuple) and x[0] == "fmul" and set(x[1:]) == prod for x in step[1:])
    ctx.check(good, "R09-4", PH + "mix_2", "state_2[i] = sum_j m[i][j]*state[j] over the full state, no value-dependent branch",
              "linear layer deviates from the dense matrix-vector product state_2[i] = sum_j m[i][j]*state[j], i, j in 0..len(state)", loc(mit))


def rngname(b):
    for e in b.trace:
        if e[0] == "cond" and e[1][0] == "ok" and e[1][1][0] == "call" and e[1][1][1].endswith("Range<A>>::next"):
            return e[1][1][1]
    return "?"


def project(t, key):
    from ..symex import project as pj
    return pj(t, ("f", key)) if t is not None else None


def project_idx0(t):
    from ..symex import project as pj
    return pj(t, ("idx", mk_const("usize", 0))) if t is not None else None


def strip_upd(t):
    """x *= y chains recorded by the generic *Assign summaries are already values; kept for clarity"""
    return t
