"""C19 Witness-graph operators follow circom's field semantics on every operand: operator-table exhaustiveness and agreement,
signed-comparison tables, canonical-representative provenance at every from_bigint sink, zero-divisor and shift guards."""
import re
from ..symex import Engine, show, subterms, contains
from ..lib import *
from ..facts import MissingAnchor
from .c20 import variants, G

INFO = {
    "level": "other",
    "explanation": "Decides, for every operand (all paths of each operator arm, operands symbolic): R19-1 the accepted operator set: the "
                   "patterns montgomery_form lets through equal the arms Operation/UnoOperation/TresOperation::eval_fr implement (read off "
                   "the MIR switch tables), and every accepted operator also has an arm in the integer evaluator; R19-2 the four signed "
                   "comparison helpers u_lt/u_gt/u_lte/u_gte equal circom's table on the signed representation ((neg,neg) and (pos,pos) -> "
                   "plain comparison, (neg,pos) and (pos,neg) -> the constant the sign dictates), with a_neg = HALF_M < a, HALF_M = (p-1)/2, "
                   "M = p = Fr::MODULUS as const-evaluated values; R19-3 a provenance lattice Reduced(<p) / Lt2^254 / Any over the limb "
                   "arithmetic feeding every Fr::from_bigint(..).unwrap() and u256_to_fr sink of the Montgomery evaluator: a sink must "
                   "receive Reduced on every path (this is the 'canonical field element / never crashes' clause: from_bigint returns None "
                   "for a value >= p and the unwrap panics); R19-4 every field division, ruint division/remainder and modular inverse in both "
                   "evaluators is dominated by a test that the divisor is non-zero, shift amounts are bounded before use, and no operator arm "
                   "can reach a panic for some operand (debug assertions included). R19-5: the integer quotient and remainder arms of both evaluators are `b == 0 -> 0, else a div b / a rem b` of the whole 256-bit values, with no other case distinction; R19-4 additionally requires every truncated read of a shift amount (low byte, low limb) to be dominated by a bound on the whole value that makes the truncation exact. R19-7: fr_to_u256 and u256_to_fr are the identity on whole values: one unconditional path over all four limbs.",
    "not_decided": "numeric conformance of each operator with circom (e.g. shifts by k > p/2 return 0 here; 254-bit mask semantics of shl); "
                   "agreement of integer and Montgomery evaluators as values",
    "assumptions": ["Fr::into_bigint returns the canonical representative (< p); ruint x/y <= x and x%y <= x for y != 0; p > 2^253 so that "
                    "one conditional subtraction of p canonicalises any value below 2^254"],
}

P_MOD = 21888242871839275222246405745257275088548364400416034343698204186575808495617
OPS = ["Mul", "Div", "Add", "Sub", "Pow", "Idiv", "Mod", "Eq", "Neq", "Lt", "Gt", "Leq", "Geq", "Land", "Lor", "Shl", "Shr", "Bor", "Band", "Bxor"]


def const_int(t):
    """integer value of a 256-bit constant term (constmem of 4 LE limbs, or from_limbs([..]))"""
    if not isinstance(t, tuple) or not t:
        return None
    if t[0] == "constmem" or t[0] == "mem":
        mem = t[2]
        if len(mem) == 32:
            return int.from_bytes(bytes(mem), "little")
    if t[0] == "call" and t[1].endswith("from_limbs") and t[2][0][0] == "array":
        ls = [cint(x) for x in t[2][0][1]]
        if all(l is not None for l in ls):
            return sum(l << (64 * i) for i, l in enumerate(ls))
    if t[0] == "adt" and len(t[4]) >= 1:
        return const_int(t[4][0])
    if t[0] == "array" and len(t[1]) == 4 and all(cint(x) is not None for x in t[1]):
        return sum(cint(l) << (64 * i) for i, l in enumerate(t[1]))
    return None


def const_item_int(fb, path):
    it = fb.items.get(path)
    if it is None:
        raise MissingAnchor(path)
    eng = Engine(fb, inline=lambda i: False)
    ps = ret_paths(eng.run(it))
    if len(ps) != 1:
        return it, None
    v = eng.value_of(ps[0].store, ps[0].ret)
    return it, const_int(v)


# ------------------------------------------------------------------ R19-1
def arms(fb, item, discr_atom=("d", P(1))):
    """{discriminant: set of path kinds} of a `match self {..}` function"""
    eng = Engine(fb, inline=lambda i: False)
    out = {}
    other = set()
    for p in eng.run(item):
        sel = [v for a, v in p.conds() if a == discr_atom]
        if not sel:
            other.add(p.kind)
            continue
        v = sel[0]
        if v[0] == "eq":
            out.setdefault(v[1], set()).add(p.kind)
        else:
            out.setdefault(("notin", v[1]), set()).add(p.kind)
    return out, other


def implemented(arm_map, names):
    impl, unimpl = set(), set()
    for k, kinds in arm_map.items():
        if isinstance(k, tuple):
            rest = [i for i in range(len(names)) if i not in k[1]]
            tgt = unimpl if kinds == {"diverge"} else impl
            tgt.update(names[i] for i in rest)
        else:
            # an arm is implemented when it has at least one returning path and no unconditional divergence
            (impl if "return" in kinds else unimpl).add(names[k])
    return impl, unimpl


def check_tables(ctx, fb):
    duo = [n for n, _ in sorted(variants(fb, G + "Operation"), key=lambda x: x[1])]
    uno = [n for n, _ in sorted(variants(fb, G + "UnoOperation"), key=lambda x: x[1])]
    tres = [n for n, _ in sorted(variants(fb, G + "TresOperation"), key=lambda x: x[1])]
    ctx.check(duo == OPS, "R19-1", "Operation variants", "20 binary operators", "graph::Operation is %s" % duo)
    res = {}
    for cls, names in (("Operation", duo), ("UnoOperation", uno), ("TresOperation", tres)):
        for fn in ("eval_fr", "eval"):
            it = fb.need(G + cls + "::" + fn)
            ctx.touch(it)
            am, other = arms(fb, it)
            if not am and len(names) == 1:
                impl, unimpl = ({names[0]}, set()) if "return" in other else (set(), {names[0]})
            else:
                impl, unimpl = implemented(am, names)
            res[(cls, fn)] = (impl, unimpl, it)
    # montgomery_form accepted set
    mf = fb.need(G + "montgomery_form")
    ctx.touch(mf)
    eng = Engine(fb, inline=lambda i: False)
    node = None
    acc = {"Operation": set(), "UnoOperation": set(), "TresOperation": set()}
    rej = {"Operation": set(), "UnoOperation": set(), "TresOperation": set()}
    gnode = dict(variants(fb, G + "Node"))
    inv = {d: n for n, d in gnode.items()}
    for p in eng.run(mf):
        if p.kind not in ("backedge", "diverge"):
            continue
        cs = p.conds()
        top = [(a, v) for a, v in cs if a[0] == "d" and a[1][0] == "unwrap"]
        if not top:
            continue
        nv = inv.get(top[0][1][1]) if top[0][1][0] == "eq" else None
        cls = {"Op": "Operation", "UnoOp": "UnoOperation", "TresOp": "TresOperation"}.get(nv)
        if cls is None:
            continue
        names = {"Operation": duo, "UnoOperation": uno, "TresOperation": tres}[cls]
        sub = [(a, v) for a, v in cs if a[0] == "d" and a[1][0] == "field"]
        tgt = acc if p.kind == "backedge" else rej
        if not sub:
            tgt[cls].update(names)
        else:
            v = sub[0][1]
            if v[0] == "eq":
                tgt[cls].add(names[v[1]])
            else:
                tgt[cls].update(names[i] for i in range(len(names)) if i not in v[1])
    n = 0
    for cls, names in (("Operation", duo), ("UnoOperation", uno), ("TresOperation", tres)):
        impl, unimpl, it = res[(cls, "eval_fr")]
        iimpl, iunimpl, iit = res[(cls, "eval")]
        for name in names:
            n += 1
            a = name in acc[cls] and name not in rej[cls]
            m = name in impl
            i = name in iimpl
            if a != m:
                ctx.fail("R19-1", "%s::%s" % (cls, name), "montgomery_form %s this operator but eval_fr %s it: a graph that passes the conversion can crash "
                         "the evaluator (or a supported operator is refused)" % ("accepts" if a else "rejects", "implements" if m else "does not implement"), loc(it))
            elif a and not i:
                ctx.fail("R19-1", "%s::%s" % (cls, name), "accepted by the Montgomery evaluator but has no arm in the integer evaluator", loc(iit))
            else:
                ctx.ok("R19-1", "%s::%s" % (cls, name), "accepted=%s, eval_fr arm=%s, integer arm=%s" % (a, m, i), loc(it))
    ctx.floor("operators", n, 23)
    expect_unimpl = {("Operation", "Pow"), ("UnoOperation", "Id")}
    got_unimpl = {(c, nm) for c in ("Operation", "UnoOperation", "TresOperation") for nm in res[(c, "eval_fr")][1]}
    ctx.check(got_unimpl == expect_unimpl, "R19-1", "unimplemented set", "exactly Pow and Id are refused (documented)",
              "operators without a Montgomery arm: %s; the documented set is %s" % (sorted(got_unimpl), sorted(expect_unimpl)))


# ------------------------------------------------------------------ R19-2
CMP_SPEC = {  # (a_neg, b_neg) -> result; circom: negative < positive
    "u_lt": ("lt", 1, 0), "u_lte": ("le", 1, 0), "u_gt": ("gt", 0, 1), "u_gte": ("ge", 0, 1),
}


def check_compare(ctx, fb):
    it_m, m = const_item_int(fb, G + "M")
    it_h, h = const_item_int(fb, G + "HALF_M")
    ctx.check(m == P_MOD, "R19-2", "M", "M equals the BN254 scalar field order", "graph::M is %s" % m, loc(it_m))
    ctx.check(h == (P_MOD - 1) // 2, "R19-2", "HALF_M", "HALF_M = (p-1)/2", "graph::HALF_M is %s, (p-1)/2 is %s" % (h, (P_MOD - 1) // 2), loc(it_h))
    def sign_atom(t):
        """'a' / 'b' when t is the term `HALF_M < p1` / `HALF_M < p2` (either spelling), else None"""
        if not (isinstance(t, tuple) and t and t[0] == "cmp"):
            return None
        x = None
        if t[1] == "lt" and const_int(t[2]) == h:
            x = t[3]
        elif t[1] == "gt" and const_int(t[3]) == h:
            x = t[2]
        return "a" if x == P(1) else ("b" if x == P(2) else None)

    class Unknown(Exception):
        pass

    def evalb(t, env):
        """value of a boolean term over the two sign atoms under env {'a': bool, 'b': bool}; anything else is not a sign test"""
        sa = sign_atom(t)
        if sa is not None:
            return env[sa]
        if isinstance(t, tuple) and t:
            if t[0] == "b":
                return evalb(t[1], env)
            if t[0] == "bin" and t[1] in ("Eq", "Ne", "BitAnd", "BitOr", "BitXor"):
                x, y = evalb(t[2], env), evalb(t[3], env)
                return {"Eq": x == y, "Ne": x != y, "BitAnd": x and y, "BitOr": x or y, "BitXor": x != y}[t[1]]
            if t[0] == "un" and t[1] == "Not":
                return not evalb(t[2], env)
            if t[0] == "const" and isinstance(t[2], (bool, int)):
                return bool(t[2])
        raise Unknown(sh(t, 100))

    # helpers of graph.rs the four functions may share (a common signed-compare routine, a sign predicate, closures) are evaluated
    # in place; the table is then *decided* per sign assignment, whatever boolean structure the code uses to tell the cases apart
    inl = lambda i: i.kind == "Closure" or ((i.file or "").endswith("iden3calc/graph.rs") and not re.search(r"graph::u_(lt|lte|gt|gte)$|eval_fr$|::eval$", i.path))
    for fn, (op, tf, ft) in sorted(CMP_SPEC.items()):
        it = fb.need(G + fn)
        ctx.touch(it)
        eng = Engine(fb, inline=inl, max_depth=4)
        paths = [p for p in eng.run(it) if p.kind != "unreachable"]
        table = {}
        bad = None
        if any(p.kind != "return" for p in paths):
            bad = "a path diverges"
        for an in (False, True):
            for bn in (False, True):
                if bad:
                    break
                env = {"a": an, "b": bn}
                live = []
                for p in paths:
                    try:
                        if all(evalb(a, env) == v for a, v in p.conds()):
                            live.append(p)
                    except Unknown as e:
                        bad = "the result depends on a condition that is not a test of the operands' signs: %s" % e
                        break
                if bad:
                    break
                if len(live) != 1:
                    bad = "%d paths apply to (a_neg, b_neg) = (%s, %s)" % (len(live), an, bn)
                    break
                rv = eng.value_of(live[0].store, live[0].ret)
                if rv[0] == "call" and rv[1].endswith("::from") and rv[2][0][0] == "cmp":
                    c = rv[2][0]
                    val = ("cmp", c[1], c[2], c[3])
                else:
                    val = const_int(rv)
                table[(an, bn)] = val
        want = {(False, False): ("cmp", op, P(1), P(2)), (True, True): ("cmp", op, P(1), P(2)), (True, False): tf, (False, True): ft}
        if bad is None and table != want:
            diffs = [k for k in want if table.get(k) != want[k]]
            bad = "entries %s are %s, circom's table gives %s" % (diffs, [sh(table.get(k), 60) if isinstance(table.get(k), tuple) else table.get(k) for k in diffs],
                                                                   [sh(want[k], 60) if isinstance(want[k], tuple) else want[k] for k in diffs])
        ctx.check(bad is None, "R19-2", fn, "(a_neg, b_neg) table equals the signed-representation comparison", "%s: %s" % (fn, bad), loc(it))
    ctx.floor("comparison-helpers", 4, 4)


# ------------------------------------------------------------------ R19-3 provenance
R, L254, LEP, ANY = "Reduced", "Lt2^254", "LeP", "Any"
ORDER = {R: 0, LEP: 1, L254: 2, ANY: 3}


def is_mod(t):
    return const_int(t) == P_MOD


def prov(t, cm):
    """abstract magnitude of a 256-bit integer term under the path conditions cm {atom: value}"""
    if not isinstance(t, tuple) or not t:
        return ANY
    base = _prov(t, cm)
    # refinement by comparisons with the modulus on this path
    for a, v in cm.items():
        if a[0] != "b" or not isinstance(a[1], tuple) or a[1][0] != "cmp":
            continue
        _, op, x, y = a[1]
        if x == t and is_mod(y):
            lt = (op == "lt" and v is True) or (op == "ge" and v is False)
            le = (op == "le" and v is True) or (op == "gt" and v is False)
            if lt:
                return R
            if le and ORDER[base] > ORDER[LEP]:
                base = LEP
    return base


def _prov(t, cm):
    h = t[0]
    if h == "call":
        n = t[1]
        a = t[2]
        if n.endswith("PrimeField>::into_bigint") or n.endswith("graph::fr_to_u256"):
            return R
        if re.search(r"(::from_limbs|::into_limbs|BigInt::<N>::new|::as_limbs)$", n):
            return prov(a[0], cm)
        if re.search(r"ruint::div::<impl std::ops::(Div|Rem) for", n):
            return R if prov(a[0], cm) == R else ANY
        if re.search(r"graph::u_(lt|lte|gt|gte)$", n):
            return R
        if n.endswith("::from") and "ruint" in n and len(a) == 1 and (a[0][0] in ("cmp", "eq", "un") or (cint(a[0]) is not None and cint(a[0]) < P_MOD)):
            return R
        return ANY
    if h == "field" and t[2] == ("f", "0"):
        return prov(t[1], cm)
    if h == "adt" and "BigInt" in str(t[1]) and len(t[4]) == 1:
        return prov(t[4][0], cm)        # the tuple-struct literal BigInt(limbs) is BigInt::new(limbs)
    if h == "array" and len(t[1]) == 4:
        ops = set()
        srcs = []
        for i, l in enumerate(t[1]):
            if not (l[0] == "bin" and l[2][0] == "idx" and l[3][0] == "idx" and cint(l[2][2]) == i and cint(l[3][2]) == i):
                if cint(l) is not None:
                    continue
                return ANY
            ops.add(l[1])
            srcs.append((l[2][1], l[3][1]))
        if len(ops) == 1 and len(set(srcs)) == 1:
            pa, pb = prov(srcs[0][0], cm), prov(srcs[0][1], cm)
            op = ops.pop()
            if op == "BitAnd":
                return R if R in (pa, pb) else (L254 if L254 in (pa, pb) else ANY)
            if op in ("BitOr", "BitXor"):
                return L254 if ORDER[pa] <= ORDER[L254] and ORDER[pb] <= ORDER[L254] else ANY
        if all(cint(l) is not None for l in t[1]):
            return R if const_int(t) < P_MOD else ANY
        return ANY
    if h == "upd" and t[1].endswith("BigInteger>::sub_with_borrow") and t[2] == 0:
        x, y = t[3]
        if is_mod(y):
            px = _prov(x, cm)
            for a, v in cm.items():
                if not (a[0] == "b" and a[1][0] == "cmp" and ORDER[px] <= ORDER[L254]):
                    continue
                op, l, r = a[1][1], a[1][2], a[1][3]
                # x >= p (or x > p) established on this path, in any of its spellings: x >= p, !(x < p), p <= x, !(p > x)
                if l == x and is_mod(r) and ((op in ("gt", "ge") and v is True) or (op in ("lt", "le") and v is False)):
                    return R
                if r == x and is_mod(l) and ((op in ("lt", "le") and v is True) or (op in ("gt", "ge") and v is False)):
                    return R
            return ANY
        if is_mod(x):
            # p - y with 0 < y < p
            if prov(y, cm) == R and y[0] == "call" and y[1].endswith("into_bigint"):
                for a, v in cm.items():
                    if a[0] == "b" and a[1][0] == "call" and a[1][1].endswith("Zero>::is_zero") and a[1][2] == y[2] and v is False:
                        return R
            return ANY
    if h in ("constmem", "mem"):
        c = const_int(t)
        return R if c is not None and c < P_MOD else ANY
    if h == "with" and t[2] == ("f", "0"):
        # BigInt whose top limb was masked: x.0[3] &= m with m < 2^62 bounds the value by 2^254
        inner = t[3]
        if isinstance(inner, tuple) and inner[0] == "with" and inner[2][0] == "idx" and cint(inner[2][1]) == 3:
            v = inner[3]
            if v[0] == "bin" and v[1] == "BitAnd":
                ms = [cint(x) for x in v[2:] if cint(x) is not None]
                if ms and min(ms) < (1 << 62):
                    return L254
    return ANY


SINK_RX = r"PrimeField>::from_bigint$"


def check_sinks(ctx, fb):
    # helpers of graph.rs that (transitively) hand a value to from_bigint are evaluated as part of the operator that calls them,
    # whatever they are called and however many levels of helpers (or closures) a refactor puts in between; shr is decided separately
    _reaches = {}

    def reaches_sink(i):
        if i.path not in _reaches:
            if i.kind == "Closure":
                _reaches[i.path] = True
            elif not (i.file or "").endswith("iden3calc/graph.rs") or re.search(r"graph::shr$|eval_fr$|::eval$", i.path):
                _reaches[i.path] = False
            else:
                seen, ext, _ = reach(fb, [i.path])
                _reaches[i.path] = any(re.search(SINK_RX, n) for n in ext) or bool(re.search(r"graph::(u256_to_fr|fr_to_u256)$", i.path))
        return _reaches[i.path]
    fns = [("Operation::eval_fr", reaches_sink),
           ("UnoOperation::eval_fr", lambda i: False), ("TresOperation::eval_fr", lambda i: False)]
    n = 0
    duo = OPS
    for fn, inl in fns:
        it = fb.need(G + fn)
        ctx.touch(it)
        eng = Engine(fb, inline=inl, max_depth=5)
        per = {}
        for p in eng.run(it):
            cm = cond_map(p)
            sel = [v for a, v in p.conds() if a == ("d", P(1))]
            opn = duo[sel[0][1]] if sel and sel[0][0] == "eq" and fn.startswith("Operation") else (str(sel[0]) if sel else "*")
            for c in p.calls(SINK_RX):
                n += 1
                pv = prov(c[2][0], cm)
                key = (fn, opn)
                cur = per.get(key)
                if cur is None or ORDER[pv] > ORDER[cur[0]]:
                    per[key] = (pv, c, p)
        for (f, opn), (pv, c, p) in sorted(per.items()):
            inst = "%s[%s]" % (f, opn)
            if pv == R:
                ctx.ok("R19-3", inst, "every from_bigint sink of this arm receives a value < p on every path", loc(it, c[3]))
            else:
                why = {LEP: "can equal the modulus p (the reduction tests `> MODULUS`; `>=` is required), so from_bigint returns None and the unwrap panics",
                       L254: "is only bounded by 2^254 and is not reduced below p before from_bigint(..).unwrap()",
                       ANY: "is not bounded below p (unmasked/unreduced limb arithmetic) before from_bigint(..).unwrap()"}[pv]
                ctx.fail("R19-3", inst, "the value %s %s" % (sh(c[2][0], 160), why), loc(it, c[3]))
    ctx.floor("from_bigint-sinks", n, 8)
    # shr: loop-carried limb arithmetic; decided by the store-form inventory
    check_shr(ctx, fb)


def masked_only(it, l, depth):
    """every definition of local l is `x & y` or a plain copy of a local with that property: the value is a masked part of a limb
    (the role of the carried low bits in a multi-limb right shift), whatever the variable is called"""
    if depth > 4:
        return False
    defs = [s2["rv"] for b2 in it.blocks if not b2["cleanup"] for s2 in b2["stmts"] if s2["k"] == "assign" and s2["p"]["l"] == l and not s2["p"]["proj"]]
    if not defs:
        return False
    for d in defs:
        if d["k"] == "bin" and d["op"] == "BitAnd":
            continue
        if d["k"] == "use":
            o = d["o"]
            pl = o.get("cp") or o.get("mv")
            if pl is not None and not pl["proj"] and masked_only(it, pl["l"], depth + 1):
                continue
        return False
    return True


def check_shr(ctx, fb):
    it = fb.need(G + "shr")
    ctx.touch(it)
    eng = Engine(fb, inline=lambda i: False, max_paths=20000)
    paths = eng.run(it)
    # every value stored into a limb of `result` must be built from right-moving operations only
    bad = []
    nst = 0
    limbs_cells = set()
    for p in paths:
        for e in p.trace:
            if e[0] == "store_through_value":
                bad.append(("store through an untracked pointer", e[-1]))
    # collect assignments whose destination is an element of the limb array: recognise by MIR (deref of the as_mut pointer, index)
    # the limb view of the result, by role: the local that receives `result.as_mut()`
    cvar = None
    for b in it.blocks:
        t = b["term"]
        if not b["cleanup"] and t["k"] == "call" and re.search(r"::as_mut$", t.get("resolved") or t.get("callee") or "") and t.get("dest") and not t["dest"]["proj"]:
            cvar = t["dest"]["l"]
    if cvar is None:
        ctx.fail("R19-3", "shr", "anchor: no limb view (`.as_mut()`) of the result found", loc(it))
        return
    allowed = 0
    for bi, b in enumerate(it.blocks):
        if b["cleanup"]:
            continue
        for s in b["stmts"]:
            if s["k"] != "assign":
                continue
            pl = s["p"]
            if pl["l"] == cvar and any(pr[0] == "deref" for pr in pl["proj"]) and any(pr[0] in ("index", "cidx") for pr in pl["proj"]):
                nst += 1
                rv = s["rv"]
                kind = rv["k"]
                okf = False
                if kind == "use":
                    okf = True      # copy of a limb / constant 0 (checked below through constants)
                    c = rv["o"].get("c")
                    if c is not None and str(c.get("v")) not in ("0",):
                        okf = False
                elif kind == "bin" and rv["op"] in ("Shr", "BitOr", "BitAnd", "ShrUnchecked"):
                    okf = True
                if okf:
                    allowed += 1
                else:
                    bad.append(("limb store of form %s %s" % (kind, rv.get("op", "")), ("", s["sp"][0])))
    # Shl may only occur on the carrier (masked low bits of the next limb): carrier << (64 - n)
    shl_sites = []
    for b in it.blocks:
        if b["cleanup"]:
            continue
        for s in b["stmts"]:
            if s["k"] == "assign" and s["rv"]["k"] == "bin" and s["rv"]["op"].startswith("Shl"):
                a = s["rv"]["a"]
                src = (a.get("cp") or a.get("mv") or {}).get("l")
                nm = it.locals[src]["name"] if src is not None else ""
                hops = 0
                while src is not None and not nm and hops < 4:
                    # an unnamed temporary: follow its single plain-copy definition
                    defs = [s2["rv"] for b2 in it.blocks if not b2["cleanup"] for s2 in b2["stmts"]
                            if s2["k"] == "assign" and s2["p"]["l"] == src and not s2["p"]["proj"]]
                    if len(defs) != 1 or defs[0]["k"] != "use":
                        break
                    o = defs[0]["o"]
                    pl = o.get("cp") or o.get("mv")
                    if pl is None or pl["proj"]:
                        break
                    src = pl["l"]
                    nm = it.locals[src]["name"]
                    hops += 1
                cst = a.get("c", {}).get("v") if "c" in a else None
                shl_sites.append((nm if not (src is not None and masked_only(it, src, 0)) else "<carried low bits>", cst, s["sp"][0]))
    for nm, cst, line in shl_sites:
        if not (nm == "<carried low bits>" or str(cst) == "1"):
            bad.append(("left shift of `%s` (only the mask constant and the carried low bits may be shifted left)" % (nm or cst), ("", line)))
    guards = 0
    for p in paths:
        if p.kind != "return":
            continue
        cm = cond_map(p)
        rv = eng.value_of(p.store, p.ret)
        if rv == P(1):
            z = [a for a, v in cm.items() if a[0] == "b" and a[1][0] == "call" and a[1][1].endswith("is_zero") and a[1][2] == (P(2),) and v is True]
            guards += 1 if z else 0
    ctx.check(not bad and nst >= 4 and guards >= 1, "R19-3", "shr", "%d limb stores, all of right-moving form (copy from a higher limb, zero, >>, masked carry); "
              "shift 0 returns the operand" % nst, "shr is no longer a pure multi-limb right shift of the canonical representative: %s" % bad[:3], loc(it))


# ------------------------------------------------------------------ R19-7 conversions between the field and 256-bit integers
def check_conversions(ctx, fb):
    """R19-7: every operator of the Montgomery evaluator, every input of evaluate and every integer constant passes through
    fr_to_u256 / u256_to_fr, so they must be the identity on values: fr_to_u256(x) = the four limbs of x's canonical
    representative, u256_to_fr(v) = the field element of ALL four limbs of v, on one unconditional path (a shortcut that looks at
    some limbs only, or a value-dependent case split, changes the operand for the values it misjudges)."""
    spec = {
        "fr_to_u256": lambda rv: rv[0] == "call" and rv[1].endswith("from_limbs") and len(rv[2]) == 1 and
                                 rv[2][0] == F(("call", "<ark_ff::Fp<P, N> as ark_ff::PrimeField>::into_bigint", (P(1),)), "0"),
        "u256_to_fr": lambda rv: rv[0] == "unwrap" and rv[1][0] == "call" and re.search(SINK_RX, rv[1][1]) and
                                 strip_new(rv[1][2][0]) == ("call", "ruint::Uint::<BITS, LIMBS>::into_limbs", (P(1),)),
    }
    for name, okf in sorted(spec.items()):
        it = fb.need(G + name)
        ctx.touch(it)
        eng = Engine(fb, inline=lambda i: i.file == it.file and not re.search(r"eval_fr$|::eval$", i.path), max_depth=3)
        ps = [p for p in eng.run(it) if p.kind != "unreachable"]
        rets = [p for p in ps if p.kind == "return"]
        why = ""
        data_conds = [a for p in ps for a, v in p.conds() if not (isinstance(a, tuple) and a[0] in ("ok", "some") and a[1][0] == "call" and re.search(SINK_RX, a[1][1]))]
        if data_conds:
            why = "the conversion distinguishes cases by %s: specification one path over the whole value" % sh(data_conds[0], 120)
        elif not rets:
            why = "no returning path"
        else:
            for p in rets:
                rv = eng.value_of(p.store, p.ret)
                try:
                    good = bool(okf(norm_conv(rv)))
                except (IndexError, TypeError):
                    good = False
                if not good:
                    why = "returns %s" % sh(rv, 140)
                    break
        ctx.check(not why, "R19-7", name, {"fr_to_u256": "U256::from_limbs(x.into_bigint().0)", "u256_to_fr": "Fr::from_bigint(BigInt::new(v.into_limbs())) of all four limbs, unconditionally"}[name], "%s: %s" % (name, why), loc(it))


def strip_new(t):
    if isinstance(t, tuple) and t and t[0] == "call" and t[1].endswith("BigInt::<N>::new") and len(t[2]) == 1:
        return t[2][0]
    if isinstance(t, tuple) and t and t[0] == "adt" and "BigInt" in str(t[1]) and len(t[4]) == 1:
        return t[4][0]          # the tuple-struct literal BigInt(limbs)
    return t


def norm_conv(rv):
    # expect(..) / unwrap(..) / unwrap_or_else(panic) all read as unwrap; BigInt(limbs) literal reads as BigInt::new(limbs)
    if isinstance(rv, tuple) and rv and rv[0] in ("expect",):
        return ("unwrap",) + tuple(rv[1:])
    return rv


# ------------------------------------------------------------------ R19-4 divisors, shifts, reachability of panics per arm
DIV_RX = r"ruint::div::<impl std::ops::(Div|Rem) for|ruint::div::<impl ruint::Uint<BITS, LIMBS>>::div_rem$"
ZERO_INT = lambda t: const_int(t) == 0


def nonzero_fact(d, cm):
    """is `d != 0` established by the path conditions?"""
    for a, v in cm.items():
        if a[0] != "b":
            continue
        t = a[1]
        if t[0] == "eq" and ((t[1] == d and ZERO_INT(t[2])) or (t[2] == d and ZERO_INT(t[1]))) and v is False:
            return True
        if t[0] == "call" and t[1].endswith("Zero>::is_zero") and v is False:
            x = t[2][0]
            if x == d:
                return True
            # d = from_limbs(into_bigint(x).0) / fr_to_u256(x)
            for s in subterms(d):
                if s[0] == "call" and (s[1].endswith("into_bigint") or s[1].endswith("fr_to_u256")) and s[2] == (x,):
                    if d[0] == "call" and re.search(r"from_limbs$|fr_to_u256$", d[1]):
                        return True
    return False


def field_upper_bound(p, x):
    """least K such that the path establishes `x < K` for the field element x, in any of the spellings
    `match x.cmp(&K) { Less => .. }`, `x.cmp(&K).is_ge()` / is_lt / is_gt / is_le, `x < K` / `!(x >= K)`"""
    def const_of(k):
        if isinstance(k, tuple) and k and k[0] == "call" and k[1].endswith("::from") and k[2]:
            return cint(k[2][0])
        return const_int(k) if isinstance(k, tuple) else None

    def cmp_args(t):
        if isinstance(t, tuple) and t and t[0] == "call" and t[1].endswith("Ord>::cmp") and len(t[2]) == 2 and t[2][0] == x:
            return const_of(t[2][1])
        return None
    best = None
    for a, v in p.conds():
        k = None
        if a[0] == "d":
            kk = cmp_args(a[1])
            if kk is not None and (v == ("notin", (0, 1)) or v in (("eq", -1), ("eq", 255))):
                k = kk
        elif a[0] == "b" and isinstance(a[1], tuple) and a[1]:
            t = a[1]
            if t[0] == "call" and re.search(r"Ordering::is_(ge|lt|gt|le)$", t[1]) and t[2]:
                kk = cmp_args(t[2][0])
                m = re.search(r"is_(ge|lt|gt|le)$", t[1]).group(1)
                if kk is not None:
                    if (m == "ge" and v is False) or (m == "lt" and v is True):
                        k = kk
                    elif (m == "gt" and v is False) or (m == "le" and v is True):
                        k = kk + 1
            elif t[0] == "cmp" and t[2] == x and const_of(t[3]) is not None:
                kk = const_of(t[3])
                if (t[1] == "lt" and v is True) or (t[1] == "ge" and v is False):
                    k = kk
                elif (t[1] == "le" and v is True) or (t[1] == "gt" and v is False):
                    k = kk + 1
        if k is not None:
            best = k if best is None else min(best, k)
    return best


def check_intdiv(ctx, fb):
    """R19-5: the integer quotient and remainder (circom's `\\` and `%`) are taken on the WHOLE 256-bit values in both evaluators:
    b == 0 -> 0, otherwise a div b / a rem b of the canonical integers; no other case distinction (a shortcut on the size of one
    operand that looks at a limb of the other gives wrong results for multi-limb operands)"""
    n = 0
    for fn in ("eval_fr", "eval"):
        it = fb.need(G + "Operation::" + fn)
        ctx.touch(it)
        eng = Engine(fb, inline=lambda i: False)
        arms = {}
        for p in eng.run(it):
            sel = [v for a, v in p.conds() if a == ("d", P(1))]
            if not sel or sel[0][0] != "eq":
                continue
            opn = OPS[sel[0][1]]
            if opn in ("Idiv", "Mod"):
                arms.setdefault(opn, []).append(p)
        for opn in ("Idiv", "Mod"):
            ps = arms.get(opn, [])
            why = None
            nz = 0
            for p in ps:
                if p.kind != "return":
                    why = "a panic is reachable"
                    break
                others = [(a, v) for a, v in p.conds() if a != ("d", P(1))]
                rv = eng.value_of(p.store, p.ret)
                zero_tests = [(a, v) for a, v in others if a[0] == "b" and isinstance(a[1], tuple) and (
                    (a[1][0] == "call" and a[1][1].endswith("::is_zero") and a[1][2] == (P(3),)) or
                    (a[1][0] in ("eq", "bin") and P(3) in a[1] and "ZERO" in sh(a[1], 300)))]
                if len(zero_tests) != 1 or len(others) != 1:
                    why = "the arm distinguishes cases by %s, specification only `b == 0`" % [(sh(a, 70), v) for a, v in others][:3]
                    break
                a_, v_ = zero_tests[0]
                is_zero = v_ if not (a_[1][0] == "bin" and a_[1][1] == "Ne") else (not v_)
                if is_zero:
                    if not (("zero" in sh(rv, 80).lower()) or cint(rv) == 0):
                        why = "for b == 0 the result is %s, specification 0" % sh(rv, 80)
                    continue
                nz += 1
                A, B = (call(G + "fr_to_u256", P(2)), call(G + "fr_to_u256", P(3))) if fn == "eval_fr" else (P(2), P(3))
                core = rv[2][0] if (fn == "eval_fr" and rv[0] == "call" and rv[1].endswith("u256_to_fr") and len(rv[2]) == 1) else (rv if fn == "eval" else None)
                good = False
                if isinstance(core, tuple) and core:
                    if core[0] == "call" and len(core[2]) == 2 and core[2] == (A, B) and re.search(r"::div$" if opn == "Idiv" else r"::rem$", core[1]):
                        good = True
                    if core[0] == "field" and core[2] == ("f", "0" if opn == "Idiv" else "1") and isinstance(core[1], tuple) and core[1][0] == "call" \
                            and core[1][1].endswith("div_rem") and core[1][2] == (A, B):
                        good = True
                if not good:
                    why = "for b != 0 the result is %s, specification the %s of the whole 256-bit values" % (sh(rv, 140), "quotient" if opn == "Idiv" else "remainder")
            if why is None and (len(ps) != 2 or nz != 1):
                why = "expected the two cases b == 0 / b != 0, found %d path(s)" % len(ps)
            n += 1
            ctx.check(why is None, "R19-5", "%s[%s] formula" % (fn, opn), "b == 0 -> 0; else %s of the whole values" % ("a div b" if opn == "Idiv" else "a rem b"),
                      "%s::%s: %s" % (fn, opn, why), loc(it))
    ctx.floor("integer-division-arms", n, 4)


def check_ring_ops(ctx, fb):
    """R19-6: the ring operators have no case distinction and are the library's modular operation on the whole operands: the
    integer evaluator computes a + b, a - b = a + (M - b), a * b with ruint's add_mod / mul_mod modulo M, the Montgomery evaluator with
    the field's own +, -, *. A hand-written reduction (one conditional subtraction with the wrong comparison) returns a non-canonical
    value for the operand pairs that sum to exactly p."""
    M_ = lambda t: isinstance(t, tuple) and t and t[0] in ("constmem", "item") and str(t[1]).endswith("graph::M")
    n = 0
    for fn in ("eval", "eval_fr"):
        it = fb.need(G + "Operation::" + fn)
        eng = Engine(fb, inline=lambda i: False)
        per = {}
        for p in eng.run(it):
            sel = [v for a, v in p.conds() if a == ("d", P(1))]
            if sel and sel[0][0] == "eq":
                per.setdefault(OPS[sel[0][1]], []).append(p)
        for opn in ("Add", "Sub", "Mul"):
            ps = per.get(opn, [])
            why = None
            if len(ps) != 1 or ps[0].kind != "return" or [a for a, v in ps[0].conds() if a != ("d", P(1))]:
                why = "the arm has %d path(s) / extra conditions %s, specification one unconditional expression" % (
                    len(ps), [(sh(a, 60), v) for p in ps for a, v in p.conds() if a != ("d", P(1))][:3])
            else:
                rv = eng.value_of(ps[0].store, ps[0].ret)
                if fn == "eval_fr":
                    want = {"Add": "fadd", "Sub": "fsub", "Mul": "fmul"}[opn]
                    good = isinstance(rv, tuple) and rv[0] == want and (tuple(rv[1:]) == (P(2), P(3)) or (opn != "Sub" and set(rv[1:]) == {P(2), P(3)}))
                else:
                    good = isinstance(rv, tuple) and rv[0] == "call" and len(rv[2]) == 3 and M_(rv[2][2])
                    if good and opn == "Add":
                        good = rv[1].endswith("::add_mod") and set(rv[2][:2]) == {P(2), P(3)}
                    elif good and opn == "Mul":
                        good = rv[1].endswith("::mul_mod") and set(rv[2][:2]) == {P(2), P(3)}
                    elif good:
                        nb = [x for x in rv[2][:2] if x != P(2)]
                        good = rv[1].endswith("::add_mod") and P(2) in rv[2][:2] and len(nb) == 1 and isinstance(nb[0], tuple) and nb[0][0] == "call" \
                            and nb[0][1].endswith("::sub") and len(nb[0][2]) == 2 and M_(nb[0][2][0]) and nb[0][2][1] == P(3)
                if not good:
                    why = "the arm computes %s" % sh(rv, 160)
            n += 1
            ctx.check(why is None, "R19-6", "%s[%s] ring operation" % (fn, opn), "the library's modular %s of the whole operands, unconditionally" % opn.lower(),
                      "%s::%s: %s" % (fn, opn, why), loc(it))
    ctx.floor("ring-operator-arms", n, 6)


def check_guards(ctx, fb):
    n = 0
    for cls, names in (("Operation", OPS),):
        for fn in ("eval_fr", "eval"):
            it = fb.need(G + cls + "::" + fn)
            inl = (lambda i: bool(re.search(r"graph::(shl|bit_and|bit_or|bit_xor|u256_to_fr|fr_to_u256|compute_sh[lr]_uint)$", i.path)))
            eng = Engine(fb, inline=inl, max_depth=3)
            per = {}
            for p in eng.run(it):
                cm = cond_map(p)
                sel = [v for a, v in p.conds() if a == ("d", P(1))]
                if not sel or sel[0][0] != "eq":
                    continue
                opn = names[sel[0][1]]
                key = (fn, opn)
                per.setdefault(key, [])
                for c in p.calls(DIV_RX):
                    n += 1
                    if not nonzero_fact(c[2][1], cm):
                        per[key].append(("%s with divisor %s not known to be non-zero (ruint panics on a zero divisor)" % (c[1].split("::")[-1], sh(c[2][1], 60)), c[3]))
                for e in p.obligations():
                    if e[1] == "FieldDiv":
                        n += 1
                        d = e[2][1]
                        if not nonzero_fact(d, cm):
                            per[key].append(("field division by %s not known to be non-zero" % sh(d, 60), e[3]))
                    if e[1] == "Unwrap" and isinstance(e[2][0], tuple) and e[2][0][0] == "call" and e[2][0][1].endswith("inv_mod"):
                        n += 1
                        if not nonzero_fact(e[2][0][2][0], cm):
                            per[key].append(("inv_mod(..).unwrap() of a possibly zero value", e[3]))
                if p.kind == "diverge" and opn not in ("Pow",) :
                    per[key].append(("a panic is reachable for some operands: %s" % ([c[2][0][1] if c[2] and isinstance(c[2][0], tuple) and c[2][0][0] == "str" else c[1].split("::")[-1]
                                                                                     for c in p.calls(r"panicking")][:1]), p.site))
            for (f, opn), probs in sorted(per.items()):
                inst = "%s[%s]" % (f, opn)
                if f == "eval_fr" and opn == "Pow":
                    continue
                seen = set()
                if not probs:
                    ctx.ok("R19-4", inst, "no unguarded division, inverse or reachable panic in this arm", loc(it))
                for txt, site in probs:
                    if txt in seen:
                        continue
                    seen.add(txt)
                    ctx.fail("R19-4", inst + "|" + txt[:60], "%s::%s arm %s: %s" % (cls, f, opn, txt), loc(it, site))
    ctx.floor("division-sites", n, 4)
    # shl/shr guards of the Montgomery evaluator: shift amount bounded before the limb shift
    it = fb.need(G + "shl")
    ctx.touch(it)
    eng = Engine(fb, inline=lambda i: False)
    ok = True
    why = ""
    for p in eng.run(it):
        sh_calls = p.calls(r"BigInt<N> as std::ops::Shl<u32>>::shl$|BigInteger>::muln$")
        if not sh_calls:
            continue
        cm = cond_map(p)
        bounded = any(a[0] == "b" and a[1][0] == "call" and a[1][1].endswith("Ordering::is_ge") and v is False for a, v in cm.items())
        if not bounded:
            ok, why = False, "limb shift reached without the `b >= MODULUS_BIT_SIZE -> 0` guard"
    ctx.check(ok, "R19-4", "shl guard", "shift amount below the field bit size before shifting", why, loc(it))
    # shr: the shift amount is read in truncated form (its low byte, or its low 64-bit limb); every such read must be dominated by a
    # bound on the WHOLE value that makes the truncation exact (b < K with K <= 256 for the byte, K <= 2^64 for the limb): a guard
    # that itself looks at the truncated value lets amounts >= 2^64 with a small low limb through as small shifts
    it = fb.need(G + "shr")
    eng = Engine(fb, inline=lambda i: False, max_paths=20000)
    ok, why, n = True, "", 0

    def is_bigint_of_b(t):
        return isinstance(t, tuple) and t and t[0] == "call" and re.search(r"into_bigint$|as_limbs$|into_limbs$", t[1]) and t[2] == (P(2),)

    def truncating_reads(p):
        out = []
        for c in p.calls(r"BigInteger>::to_bytes_le$"):
            if c[2] and is_bigint_of_b(c[2][0]):
                out.append(("low byte", 256, c[3]))
        seen = set()
        for e in p.trace:
            if e[0] not in ("cond", "call", "oblig"):
                continue
            for x in subterms(("t",) + tuple(y for y in e[1:3] if isinstance(y, tuple))):
                if x[0] == "idx" and len(x) == 3 and x not in seen and cint(x[2]) is not None:
                    base = x[1]
                    if isinstance(base, tuple) and base and base[0] == "field" and base[2] == ("f", "0"):
                        base = base[1]
                    if is_bigint_of_b(base):
                        seen.add(x)
                        out.append(("64-bit limb %d" % cint(x[2]), 1 << 64, e[3] if e[0] != "oblig" else e[3]))
        return out
    for p in eng.run(it):
        tr = truncating_reads(p)
        if not tr:
            continue
        n += 1
        bound = field_upper_bound(p, P(2))
        for what, width, site in tr:
            if bound is None or bound > width:
                ok, why = False, "the shift amount is read through its %s on a path where the whole value is only known to be below %s (must be <= %d for the truncation to be exact)" % (what, bound, width)
    ctx.check(ok and n > 0, "R19-4", "shr guard", "low-byte read of the shift amount dominated by b < 254 on %d path(s)" % n, why or "anchor: truncating read not found", loc(it))


def run(ctx):
    ctx.prefetch(["default", "fixtures"])
    fb = ctx.fb("default")
    check_tables(ctx, fb)
    check_compare(ctx, fb)
    check_sinks(ctx, fb)
    check_guards(ctx, fb)
    check_intdiv(ctx, fb)
    check_ring_ops(ctx, fb)
    check_conversions(ctx, fb)
    # fixtures
    fx = ctx.fb("fixtures")
    try:
        it = fx.need("zkfix::tables::cmp_gt_then_sub")
        eng = Engine(fx, inline=lambda i: False)
        worst = R
        for p in eng.run(it):
            for c in p.calls(r"sink$"):
                pv = prov(c[2][0], cond_map(p))
                if ORDER[pv] > ORDER[worst]:
                    worst = pv
        ctx.fixture("R19-3", worst != R, "zkfix::tables::cmp_gt_then_sub (non-reduced value must be seen at the sink)")
    except MissingAnchor as e:
        ctx.fixture("R19-3", False, "fixture missing: %s" % e)
