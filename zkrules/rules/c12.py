"""C12 Proving never returns an unverifiable proof and never crashes: panic obligations of the proving entry points over request
bytes, the software range/shape gates, and the (missing) satisfiability gate."""
import re
from ..symex import Engine, show, subterms, contains, known_ok
from ..lib import *
from ..facts import MissingAnchor
from .. import panics
from . import c13

INFO = {
    "level": "other",
    "explanation": "Decides 'never panics on request bytes' for the native proving entry points and the presence and strength of the "
                   "software gates the statement enumerates; not satisfiability. R12-1: RLN::prove, generate_rln_proof, "
                   "generate_rln_proof_with_witness, get_serialized_rln_witness, get_rln_witness_json, get_rln_witness_bigint_json are "
                   "evaluated on every MIR path with the repository callees inlined (callees with loops analysed on their own with "
                   "unconstrained parameters); every panic site (bounds/overflow asserts, slicing, unwrap/expect, copy_from_slice, field "
                   "division, diverging calls) is an obligation that must follow from constants and the guards before it by linear "
                   "reasoning (zkrules/linear.py); sites are classified request / resource (graph and key bytes fixed at construction; the "
                   "bundled graph is checked by C05) / internal (fixed-arity Poseidon calls, json! of strings) by a frozen table keyed by "
                   "function, and only request-dependent undischarged obligations are violations. R12-2: message_id_range_check rejects "
                   "message_id >= user_message_limit (both boundary and above) and every witness constructor/consumer calls it; the "
                   "Merkle-path shape check (equal vector lengths, binary direction values) guards proof_values_from_witness and "
                   "inputs_for_witness_calculation; a position outside the tree is propagated as Err. R12-3: every success path of a "
                   "proving entry point must pass through a check that the witness satisfies the circuit or a verification of the "
                   "produced proof before writing output. R12-4 whole-message writes: the proving and witness-export entry points emit output only through write_all / serialize_compressed, never through Write::write whose count could be short. R12-5 fixed hashing arity: every Poseidon / tree-hasher call site outside the four pass-through wrappers passes an array literal of 1..8 elements (premise of classifying Poseidon's own indexing as internal). R12-6 (shared with C05 R05-1): nothing process-wide (a cache of the decoded graph, a thread-local scratch buffer, any static or interior-mutable state) is reachable from the witness calculation. R12-7 (shared with C01 R01-3): the prover hashes exactly the signal_len bytes of the signal and takes the request's field elements whole, as the verifier will read them. R12-8 (shared with C07): the tree lookup behind proving returns Err for a position outside the tree and the stored path otherwise, in the three back ends. R12-9 (shared, C11 R11-3 / R11-6): the three proving wrappers return false on Err and cannot panic inside the extern \"C\" function.",
    "not_decided": "which requests the circuit can satisfy (circuit semantics: e.g. message_id or limit beyond the circuit's 16-bit range); "
                   "panics inside arkworks' prover",
    "assumptions": ["in-memory lengths are below 2^48, so len*32 + small does not overflow usize", "the instance's graph and key were accepted at construction (resource class)"],
}

ENTRIES = [("rln::public::RLN::prove", False), ("rln::public::RLN::generate_rln_proof", True), ("rln::public::RLN::generate_rln_proof_with_witness", False),
           ("rln::public::RLN::get_serialized_rln_witness", True), ("rln::public::RLN::get_rln_witness_json", False), ("rln::public::RLN::get_rln_witness_bigint_json", False)]

# frozen classification table: function (regex) [+ kind] -> reason the site is outside the property's quantifier over requests
CLASSES = [
    (r"^rln::circuit::iden3calc::populate_inputs$", "Diverge", None),     # request-dependent: stays a violation (see known findings)
    (r"^rln::circuit::iden3calc::|^rln::<circuit::iden3calc::", None, "resource: evaluation of the instance's witness graph; indices and operators come from the graph bytes fixed at "
                                                                     "construction (the bundled graph's well-formedness is C05 R05-4), field operands from canonical Fr values"),
    (r"^zerokit_utils::(<)?merkle_tree::|^rln::<?pm_tree_adapter::", None, "internal: the tree's own index arithmetic (depth < 32, node/flag vectors sized by the capacity: structure invariants, C06); "
                                                                              "the request only supplies the position, which proof() checks against the capacity first (C07 R07-3)"),
    (r"^zerokit_utils::poseidon::|^rln::hashers::poseidon_hash$", None, "internal: Poseidon is called with fixed arities 1..3 from the protocol code; the parameter table covers 1..8 (C09)"),
    (r"^rln::protocol::rln_witness_to_bigint_json$", "Unwrap", "internal: serde_json::to_value of strings and string vectors inside json! cannot fail"),
    (r"^rln::protocol::rln_witness_to_json$", "Unwrap", "internal: serde_json::to_value of a derived Serialize struct of strings"),
]


def classify(u):
    fn = u["site"][0]
    if re.search(r"^rln::circuit::iden3calc::populate_inputs$", fn) and u["kind"] != "Diverge":
        # the store input_buffer[offset + i] is within the graph's own range (resource) only when the request's vector has the
        # declared length: the length test must be among the facts preceding the obligation
        # (either operand order, `!=` false or `==` true)
        guarded = any(isinstance(f, tuple) and isinstance(f[0], str) and "len(" in f[0] and
                      ((re.search(r" Ne ", f[0]) and f[1] is False) or (re.search(r" Eq ", f[0]) and f[1] is True)) for f in u["facts"])
        if not guarded:
            return None
    for rx, kind, reason in CLASSES:
        if re.search(rx, fn) and (kind is None or kind == u["kind"]):
            return reason
    return None


def check_range_gate(ctx, fb):
    it = fb.need("rln::protocol::message_id_range_check")
    ctx.touch(it)
    eng = Engine(fb, inline=lambda i: False)
    okv = None
    for p in eng.run(it):
        if p.kind != "return":
            continue
        rv = eng.value_of(p.store, p.ret)
        if known_ok(rv) is True:
            # every condition of the accepting path counts: an extra one rejects requests the circuit can satisfy
            okv = list(p.conds())
    good = False
    why = "accepting path conditions: %s" % [(sh(a, 80), v) for a, v in (okv or [])]
    if okv and len(okv) == 1 and okv[0][0][0] == "b" and isinstance(okv[0][0][1], tuple) and okv[0][0][1][0] == "cmp":
        a, v = okv[0]
        op, x, y = a[1][1], a[1][2], a[1][3]
        # accepted iff message_id < limit
        if x == P(1) and y == P(2):
            good = (op == "ge" and v is False) or (op == "lt" and v is True)
        elif x == P(2) and y == P(1):
            good = (op == "le" and v is False) or (op == "gt" and v is True)
        if not good:
            why = "Ok is returned when `%s(%s, %s)` is %s: message_id == user_message_limit is accepted although the circuit requires message_id < limit" % (
                op, "message_id" if x == P(1) else "limit", "limit" if y == P(2) else "message_id", v)
    if okv and len(okv) != 1:
        why = "Ok additionally depends on %s: requests with message_id < user_message_limit that the circuit can satisfy are rejected (or unsatisfiable ones accepted)" % [(sh(a, 100), v) for a, v in okv]
    ctx.check(good, "R12-2", "message_id_range_check condition", "Ok exactly when message_id < user_message_limit", why, loc(it))
    # call sites
    users = ["rln::protocol::serialize_witness", "rln::protocol::deserialize_witness", "rln::protocol::rln_witness_from_values", "rln::protocol::proof_values_from_witness",
             "rln::protocol::inputs_for_witness_calculation", "rln::protocol::rln_witness_from_json", "rln::protocol::rln_witness_to_json", "rln::protocol::rln_witness_to_bigint_json"]
    n = 0
    for u in users:
        f = fb.items.get(u)
        if f is None:
            ctx.fail("R12-2", "range check in %s" % u.split("::")[-1], "anchor %s not found" % u)
            continue
        ctx.touch(f)
        e2 = Engine(fb, inline=lambda i: False)
        oks = [p for p in e2.run(f) if p.kind == "return" and known_ok(e2.value_of(p.store, p.ret)) is not False]
        allc = bool(oks) and all(any(cond_map(p).get(("ok", ("call", c[1], c[2]))) is True for c in p.calls(r"protocol::message_id_range_check$")) for p in oks)
        n += 1 if allc else 0
        ctx.check(allc, "R12-2", "range check in %s" % u.split("::")[-1], "every success path passed message_id_range_check",
                  "%s can succeed without a successful message_id_range_check" % u, loc(f))
    ctx.floor("range-check-users", n, 8)
    # Merkle path shape
    sc = fb.items.get("rln::protocol::merkle_path_shape_check")
    for u in ("rln::protocol::proof_values_from_witness", "rln::protocol::inputs_for_witness_calculation"):
        f = fb.need(u)
        e2 = Engine(fb, inline=lambda i: False)
        oks = [p for p in e2.run(f) if p.kind == "return" and known_ok(e2.value_of(p.store, p.ret)) is not False]
        good = bool(oks) and sc is not None and all(any(cond_map(p).get(("ok", ("call", c[1], c[2]))) is True and c[2] == (F(P(1), "path_elements"), F(P(1), "identity_path_index"))
                                                        for c in p.calls(r"protocol::merkle_path_shape_check$")) for p in oks)
        ctx.check(good, "R12-2", "path shape check in %s" % u.split("::")[-1], "success requires equal vector lengths and binary direction values",
                  "%s can succeed for a Merkle path whose vectors differ in length or with a direction value other than 0/1 (index out of bounds in compute_tree_root / unverifiable proof)" % u, loc(f))
    if sc is not None:
        ctx.touch(sc)
        e3 = Engine(fb, inline=lambda i: False)
        ps = e3.run(sc)
        oks = [p for p in ps if p.kind == "return" and known_ok(e3.value_of(p.store, p.ret)) is not False]
        good = False
        why = "expected one accepting path, found %d" % len(oks)
        if len(oks) == 1:
            cm = cond_map(oks[0])
            eqlen = any(a[0] == "b" and a[1][0] == "bin" and a[1][1] in ("Ne", "Eq") and set(a[1][2:]) == {("len", P(1)), ("len", P(2))} and ((a[1][1] == "Ne") == (v is False)) for a, v in cm.items())
            fa = [(seq, allowed) for seq, allowed, _ in forall_u8(fb, list(cm.items())) if seq == P(2)]
            good = eqlen and len(fa) == 1 and fa[0][1] == {0, 1}
            why = "conditions: %s; direction values accepted: %s, specification {0, 1}" % ([(sh(a, 100), v) for a, v in cm.items()], [sorted(x[1])[:6] for x in fa])
        ctx.check(good, "R12-2", "merkle_path_shape_check condition", "Ok exactly when lengths are equal and no direction value exceeds 1", why, loc(sc))


def check_gate(ctx, fb, cfg):
    """R12-3: a satisfiability gate or self-verification on every success path of a proving entry point"""
    for fn, stateful in ENTRIES[:3]:
        it = fb.items.get(fn)
        if it is None:
            continue
        eng = Engine(fb, inline=lambda i: False)
        missing = False
        for p in eng.run(it):
            if p.kind != "return" or known_ok(eng.value_of(p.store, p.ret)) is not True:
                continue
            gate = p.calls(r"protocol::verify_proof$|Groth16.*::verify|is_satisfied|check_witness|verify_witness")
            if not gate:
                missing = True
        inst = "%s[%s]" % (fn, cfg)
        if missing:
            ctx.fail("R12-3", inst, "a success path writes the proof without any check that the witness satisfies the circuit and without verifying the produced proof: "
                     "a request the circuit cannot satisfy (e.g. message_id or limit outside the circuit's bit range) yields Ok with an unverifiable proof", loc(it))
        else:
            ctx.ok("R12-3", inst, "every success path passes a satisfiability / self-verification gate", loc(it))


PARTIAL_WRITE_RX = r"(std::io|ark_serialize|ark_std::io)::Write::(write|write_vectored)$"


def check_whole_writes(ctx, fb, cfg):
    """R12-4: the message is written completely or the call fails: the proving and witness-export entry points emit their output only
    through write_all / serialize_compressed; `Write::write` may accept a prefix and return Ok(n), which would turn into Ok with a
    truncated, unverifiable message"""
    n = 0
    for fn, stateful in ENTRIES:
        it = fb.items.get(fn)
        if it is None:
            continue
        ctx.touch(it)
        seen, ext, _ = reach(fb, [it.path], stop=lambda nm: bool(re.search(r"^(ark_|std::|core::|alloc::)", nm)))
        eng = Engine(fb, inline=lambda i: False)
        direct = [c for p in eng.run(it) for c in p.calls(PARTIAL_WRITE_RX)]
        bad = sorted(set([nm for nm in ext if re.search(PARTIAL_WRITE_RX, nm)] + [c[1] for c in direct]))
        ctx.check(not bad, "R12-4", "%s[%s] writes whole messages" % (fn.split("::")[-1], cfg), "output only through write_all / serialize_compressed",
                  "%s emits output through %s: a writer that accepts only part of the buffer makes the call return Ok with a truncated message" % (fn, bad), loc(it))
        n += 1
    return n


HASH_RX = r"^rln::hashers::poseidon_hash$|Hasher>::hash$|Hasher::hash$|Poseidon::<F>::hash$"
HASH_PASSTHROUGH = {
    "rln::hashers::poseidon_hash": "the typed entry point: hands its slice to the shared Poseidon instance",
    "rln::<hashers::PoseidonHash as zerokit_utils::Hasher>::hash": "tree hasher: hands the tree's pair to poseidon_hash",
    "rln::pm_tree_adapter::<impl zerokit_utils::vacp2p_pmtree::Hasher for hashers::PoseidonHash>::hash": "pmtree hasher: same",
    "rln::public::poseidon_hash": "byte-level hashing API: the caller chooses the arity (not a proving or verification entry point; C09's domain is 1..8)",
}


def check_hash_arity(ctx, fb, cfg):
    """R12-5 premise of the classification 'Poseidon's own indexing is internal': every hashing call site of the protocol and tree code
    passes an array literal of 1..8 elements, so no request can select an arity the parameter table lacks (which would panic in
    poseidon_hash's expect)"""
    from ..symex import TooComplex
    n = 0
    for path, it in sorted(fb.items.items()):
        if it.kind not in ("Fn", "AssocFn", "Closure") or it.crate not in ("rln", "zerokit_utils") or it.get("test"):
            continue
        if not any(b["term"]["k"] == "call" and (re.search(HASH_RX, b["term"].get("resolved") or "") or re.search(HASH_RX, b["term"].get("callee") or "")) for b in it.blocks):
            continue
        if path in HASH_PASSTHROUGH:
            continue
        ctx.touch(it)
        arities = set()
        try:
            eng = Engine(fb, inline=lambda i: False, max_paths=3000)
            for p in eng.run(it):
                for c in p.calls(HASH_RX):
                    a = c[2][-1] if "Poseidon::<F>" in c[1] else c[2][0]
                    if isinstance(a, tuple) and a and a[0] == "array":
                        arities.add(len(a[1]))
                    elif isinstance(a, tuple) and a and a[0] == "repeat" and re.match(r"(\d+)", str(a[2])):
                        arities.add(int(re.match(r"(\d+)", str(a[2])).group(1)))      # [x; N]
                    else:
                        arities.add(sh(a, 60))
        except TooComplex:
            arities.add("not analysable")
        n += 1
        bad = [x for x in arities if not (isinstance(x, int) and 1 <= x <= 8)]
        ctx.check(not bad and arities, "R12-5", "hash arity %s[%s]" % (path.split("::")[-1] if "<" not in path else path[-50:], cfg), "array literal(s) of %s element(s)" % sorted(arities, key=str),
                  "%s hashes %s: the number of hashed elements is not fixed at this call site, so a request can reach an arity outside the parameter table (panic)" % (path, bad), loc(it))
    ctx.floor("hash-call-sites[%s]" % cfg, n, 8)


def run(ctx):
    cfgs = ["default", "stateless"] if ctx.tier == "quick" else ["default", "stateless", "optimal", "full"]
    ctx.prefetch(cfgs + ["fixtures"])
    n = 0
    for cfg in cfgs:
        fb = ctx.fb(cfg)
        for fn, stateful in ENTRIES:
            if stateful and cfg == "stateless":
                continue
            c13.check_panics(ctx, fb, cfg, fn, rule="R12-1", classify=classify)
            n += 1
        check_gate(ctx, fb, cfg)
        check_whole_writes(ctx, fb, cfg)
        check_hash_arity(ctx, fb, cfg)
    ctx.floor("proving-entry-points", n, 10)
    check_range_gate(ctx, ctx.fb("default"))
    # R12-6 (shared with C05 R05-1): the witness (and so the proof) is computed from this instance's graph and this request alone:
    # nothing process-wide (a cache of the decoded graph, a thread-local scratch buffer) is reachable from the witness calculation,
    # so another instance or an earlier failed call cannot make a valid request produce an unverifiable proof
    from . import c05
    c05.check_purity(ctx, ctx.fb("default"), rule="R12-6")
    # R12-9 (shared with C11 R11-3 / R11-6): "never crashes" for a C caller: the three proving wrappers return false when the method
    # returns Err and their own code (the macro's error branch included) cannot panic inside the extern "C" function
    from . import c11
    k9 = 0
    for cfg9 in cfgs[:2]:
        fb9 = ctx.fb(cfg9)
        for w in c11.wrappers(fb9):
            if w["name"] in ("prove", "generate_rln_proof", "generate_rln_proof_with_witness"):
                sub9 = type(ctx)(ctx.pid, ctx.tier)
                c11.check_wrapper(sub9, fb9, w, cfg9)
                c11.check_wrapper_panics(sub9, fb9, w, cfg9)
                k9 += 1
                for r in sub9.results:
                    (ctx.ok if r.status == "ok" else ctx.fail)("R12-9", r.instance, r.reason, r.loc)
    ctx.floor("proving-ffi-wrappers", k9, 4)
    # R12-8 (shared with C07 R07-1..R07-3): the tree lookup behind generate_rln_proof returns Err (never panics) for a position outside
    # the tree and the stored path otherwise, in the three back ends
    from . import c07
    from ..main import Ctx as _Ctx8
    sub8 = _Ctx8(ctx.pid, ctx.tier)
    c07.check_full(sub8, ctx.fb("default"))
    c07.check_optimal(sub8, ctx.fb("default"))
    c07.check_pmtree(sub8, ctx.fb("default"))
    for r in sub8.results:
        (ctx.ok if r.status == "ok" else ctx.fail)("R12-8", r.instance, r.reason, r.loc)
    # R12-7 (shared with C01 R01-3): the proof is made for the request as the verifier will read it: the prover hashes exactly the
    # signal_len bytes of the signal (not what follows them) and takes the four field elements whole
    from . import c01
    from ..main import Ctx as _Ctx7
    sub7 = _Ctx7(ctx.pid, ctx.tier)
    c01.check_request(sub7, ctx.fb("default"), "default")
    for r in sub7.results:
        (ctx.ok if r.status == "ok" else ctx.fail)("R12-7", r.instance, r.reason, r.loc)
    # position outside the tree: the lookup's failure must be propagated
    fb = ctx.fb("default")
    it = fb.need("rln::protocol::proof_inputs_to_rln_witness")
    ctx.touch(it)
    eng = Engine(fb, inline=lambda i: False)
    bad = [p for p in eng.run(it) if p.kind == "diverge"]
    ctx.check(not bad, "R12-2", "tree position lookup", "a failing Merkle proof lookup is returned as Err", "proof_inputs_to_rln_witness can diverge (expect/unwrap on the Merkle proof lookup): position outside the tree panics",
              loc(it, bad[0].site) if bad else loc(it))
    # fixtures
    fx = ctx.fb("fixtures")
    from ..main import Ctx
    for fn, expect in [("zkfix::decode::vec_reader_unchecked", True), ("zkfix::decode::vec_reader_checked", False)]:
        sub = Ctx(ctx.pid, ctx.tier)
        c13.check_panics(sub, fx, "fixtures", fn, rule="R12-1")
        fired = any(r.status == "fail" for r in sub.results)
        ctx.fixture("R12-1" + ("" if expect else "-neg"), fired == expect, fn + ("" if expect else " (must be silent: scaled loop index under a quotient guard)"))
    try:
        sw = fx.need("zkfix::public::short_write")
        e9 = Engine(fx, inline=lambda i: False)
        ctx.fixture("R12-4", any(c for p in e9.run(sw) for c in p.calls(PARTIAL_WRITE_RX)), "zkfix::public::short_write calls Write::write and drops the count")
    except MissingAnchor as e:
        ctx.fixture("R12-4", False, "fixture missing: %s" % e)
