"""C13 Untrusted verification inputs are rejected without crashing, in one encoding."""
import re
from ..symex import Engine, show, subterms
from ..lib import *
from .. import panics
from . import c02

INFO = {
    "level": "other",
    "explanation": "Decides both clauses as properties of the decoding code. R13-1: for RLN::verify, verify_rln_proof, verify_with_roots and "
                   "recover_id_secret every path of the MIR is evaluated symbolically with the workspace callees inlined, and every panic site on "
                   "every path (MIR bounds/overflow asserts, slice/index calls, unwrap/expect, copy_from_slice, field division, diverging calls) "
                   "is an obligation over the request bytes that must follow from constants or from the branch facts preceding it by a small set of "
                   "linear rules (guards len < K -> Err, loop guards off+32 <= len, loop-counter invariants); an undischarged obligation is a "
                   "concrete crashing request shape. R13-2: on every path that can return Ok(true) the canonical re-encoding of the decoded public "
                   "values is compared with the source bytes input[128..288] (reducing decoders alone are not accepted). R13-3: the proof part "
                   "is decoded with the validating deserialize_compressed (shared with C02). R13-4 (shared with C11): the C entry points of verification and recovery return false and write nothing on Err, and write the verdict / the produced bytes exactly on Ok. R13-4 also includes R11-6 (the verification and recovery wrappers cannot panic in their own code).",
    "not_decided": "panics inside third-party code (arkworks deserialisation and pairing, Keccak) are trusted not to occur: they return Err",
    "assumptions": ["Vec lengths are at most isize::MAX, so len + small constant does not overflow usize"],
}

ENTRIES = [("rln::public::RLN::verify", False), ("rln::public::RLN::verify_rln_proof", True), ("rln::public::RLN::verify_with_roots", False),
           ("rln::public::RLN::recover_id_secret", False)]


def check_panics(ctx, fb, cfg, fn, rule="R13-1", skip_callee=None, classify=None):
    it = fb.need(fn)
    ctx.touch(it)
    eng = Engine(fb, inline=opaque_rx(r"ZerokitMerkleTree>::root$"), max_depth=6)
    paths = eng.run(it)
    tot, done, und = panics.analyse(paths)
    inst = "%s[%s]" % (fn, cfg)
    # closures defined in the functions evaluated on these paths run on request data inside opaque iterator adaptors:
    # analyse each with unconstrained parameters
    fns = {it.path}
    for p in paths:
        for e in p.trace:
            if e[0] == "enter":
                fns.add(e[1])
    todo = [c for f in sorted(fns) for c in fb.closures_of(f)]
    # repository callees that were not inlined (loops, many branches) are analysed on their own with unconstrained
    # parameters: whatever they need from their caller is then reported at the callee
    def opaque_ws(ps):
        out = []
        for p in ps:
            for e in p.trace:
                if e[0] == "call":
                    t = fb.lookup(e[1].split("@")[0]) or (fb.lookup(e[4]) if len(e) > 4 and e[4] else None)
                    if t is not None and t.kind in ("Fn", "AssocFn") and not (skip_callee and skip_callee(t)):
                        out.append(t)
        return out
    todo.extend(opaque_ws(paths))
    callers = {}          # callee path -> list of path sets that call it

    def note_callers(ps):
        for t in opaque_ws(ps):
            callers.setdefault(t.path, []).append(ps)
    note_callers(paths)

    def holds_at_call_sites(u, c):
        """an obligation of callee c that only mentions c's parameters is a *requires* of c: it holds if it can be
        discharged, with the arguments substituted, from the facts preceding every call of c"""
        from ..symex import subst
        if u["kind"] == "Diverge" or not u["ops"]:
            return False
        sites = 0
        for ps in callers.get(c.path, []):
            ind = panics.induction_vars(ps)
            for p in ps:
                for i, e in enumerate(p.trace):
                    if e[0] != "call":
                        continue
                    t = fb.lookup(e[1].split("@")[0]) or (fb.lookup(e[4]) if len(e) > 4 and e[4] else None)
                    if t is None or t.path != c.path:
                        continue
                    sites += 1
                    m = {}
                    for k, a in enumerate(e[2]):
                        m[("param", k + 1)] = a
                    ops2 = tuple(subst(o, m) if isinstance(o, tuple) else o for o in u["ops"])
                    f = panics.facts_with_induction(p.trace, i, ind)
                    if panics.discharge(u["kind"], ops2, f, set()) is not None:
                        return False
        return sites > 0
    seen_c = set()
    while todo:
        c = todo.pop()
        if c.path in seen_c or c.path == it.path:
            continue
        seen_c.add(c.path)
        ctx.touch(c)
        e2 = Engine(fb, inline=opaque_rx(r"ZerokitMerkleTree>::root$"), max_depth=6)
        try:
            cps = e2.run(c)
        except Exception as ex:
            ctx.fail(rule, "%s|%s|too-complex" % (inst, c.path), "callee %s could not be analysed (%s)" % (c.path, ex), loc(c))
            continue
        t2, d2, u2 = panics.analyse(cps)
        tot += t2
        done += d2
        note_callers(cps)
        kept = []
        for u in u2:
            if c.kind != "Closure" and holds_at_call_sites(u, c):
                done += 1
                ctx.notes.append("%s: requires `%s` of %s discharged at its call sites" % (inst, u["text"][:80], c.path))
                continue
            u["text"] += " [inside %s %s, parameters unconstrained]" % ("closure" if c.kind == "Closure" else "callee", c.path.split("::")[-2:])
            kept.append(u)
        und += kept
        for p in cps:
            for e in p.trace:
                if e[0] == "enter":
                    todo.extend(fb.closures_of(e[1]))
        todo.extend(fb.closures_of(c.path))
        todo.extend(opaque_ws(cps))
    if tot == 0:
        ctx.fail(rule, inst, "no panic site found on any path: anchor shape not recognised", loc(it))
        return
    if classify:
        kept = []
        for u in und:
            c = classify(u)
            if c:
                ctx.notes.append("%s: %s at %s:%s classified %s" % (inst, u["text"][:80], u["site"][0], u["site"][1], c))
            else:
                kept.append(u)
        und = kept
    for u in und:
        ctx.fail(rule, "%s|%s|%s|%s" % (inst, u["site"][0], u["kind"], u["text"][:90]),
                 "request bytes can crash this entry point: obligation `%s` at %s:%s is not implied by the guards before it (facts: %s)" % (
                     u["text"], u["site"][0], u["site"][1], u["facts"][-4:]), "%s:%s" % (u["site"][0], u["site"][1]))
    if not und:
        ctx.ok(rule, inst, "%d panic obligations on %d paths, all discharged" % (tot, len(paths)), loc(it))
    ctx.notes.append("%s: %d obligations, %d discharged" % (inst, tot, done))


def check_canonical(ctx, fb, cfg, fn):
    it = fb.need(fn)
    ctx.touch(it)
    inst = "%s[%s]" % (fn, cfg)
    eng = Engine(fb, inline=opaque_rx(r"ZerokitMerkleTree>::root$"), max_depth=6)
    paths = eng.run(it)
    acc = 0
    for p in paths:
        if p.kind != "return":
            continue
        atoms = c02.true_atoms(p, eng)
        if atoms is None:
            continue
        acc += 1
        INPUT = find_input(p, 2)
        V = c02.spec_atoms(fb, INPUT, cfg)
        re_enc = ("cat",) + tuple(prim(fb, "rln::utils::fr_to_bytes_le", V[f]) for f in ["root", "external_nullifier", "x", "y", "nullifier"])
        src = sl(INPUT, 128, 288)
        want = ("eq", *sorted([re_enc, src], key=repr))
        if want not in atoms:
            ctx.fail("R13-2", inst, "a path returning Ok(true) does not establish that the public values are canonically encoded "
                                    "(serialize(decoded values) == input[128..288]); decoding reduces modulo p, so value + k*p is accepted as an alias",
                     loc(it, p.site))
            return
    if acc == 0:
        ctx.fail("R13-2", inst, "no accepting path: anchor shape not recognised", loc(it))
        return
    ctx.ok("R13-2", inst, "%d accepting path(s) compare the canonical re-encoding with the source bytes" % acc, loc(it))


def tree_internal(u):
    """the only tree call on the verification paths is root(): its node lookups depend on the tree's own structure
    invariants (cached default per level), not on the request"""
    fn = u["site"][0]
    if re.search(r"^zerokit_utils::(<)?merkle_tree::|^rln::<?pm_tree_adapter::", fn):
        return "internal: tree structure invariants (C06)"
    return None


def run(ctx):
    cfgs = ["default", "stateless"] if ctx.tier == "quick" else ["default", "stateless", "optimal", "full"]
    ctx.prefetch(cfgs + ["fixtures"])
    n = 0
    for cfg in cfgs:
        fb = ctx.fb(cfg)
        for fn, stateful in ENTRIES:
            if stateful and cfg == "stateless":
                continue
            check_panics(ctx, fb, cfg, fn, classify=tree_internal)
            n += 1
            if "recover" not in fn:
                check_canonical(ctx, fb, cfg, fn)
    ctx.floor("verification-entry-points", n, 7)
    # R13-4 (shared with C11 R11-1..R11-3): "rejected" must reach a C caller too: the C entry points of verification and recovery
    # return false and write nothing when the method returns Err, and write the verdict (true or false) / the produced bytes
    # exactly when it returns Ok - a flag or buffer left as it was reports a rejected input with the previous call's result
    from . import c11
    from ..main import Ctx as _Ctx4
    k = 0
    for cfg in cfgs[:2]:
        fb = ctx.fb(cfg)
        for w in c11.wrappers(fb):
            if w["name"] in ("verify", "verify_rln_proof", "verify_with_roots", "recover_id_secret"):
                sub4 = _Ctx4(ctx.pid, ctx.tier)
                c11.check_wrapper(sub4, fb, w, cfg)
                c11.check_wrapper_panics(sub4, fb, w, cfg)
                k += 1
                for r in sub4.results:
                    (ctx.ok if r.status == "ok" else ctx.fail)("R13-4", r.instance, r.reason, r.loc)
    ctx.floor("verification-ffi-wrappers", k, 6)
    # fixtures
    fx = ctx.fb("fixtures")
    from ..main import Ctx
    for fn, expect in [("zkfix::decode::unguarded_slice", True), ("zkfix::decode::guarded_slice", False),
                       ("zkfix::decode::declared_len_unchecked", True), ("zkfix::decode::declared_len_checked", False)]:
        sub = Ctx(ctx.pid, ctx.tier)
        check_panics(sub, fx, "fixtures", fn)
        fired = any(r.status == "fail" for r in sub.results)
        ctx.fixture("R13-1" + ("" if expect else "-neg"), fired == expect, fn + ("" if expect else " (must be silent)"))
