"""E3: compile witnesses. Type-checks /verif/witness against /repo under a feature configuration (cargo check only)."""
import fcntl, os, shutil, subprocess, time
from . import extract

SRC = os.path.join(extract.VERIF, "witness", "src", "lib.rs")
# witness feature -> rln features
CFG = {
    "default": ("c_default", ["default"]),
    "optimal": ("c_optimal", []),
    "full": ("c_full", ["fullmerkletree"]),
    "stateless": ("c_stateless", ["stateless"]),
    "arkzkey": ("c_arkzkey", ["default", "arkzkey"]),
}
MANIFEST = """[package]
name = "zkwitness"
version = "0.1.0"
edition = "2021"
[workspace]
[lib]
path = "%(src)s"
[dependencies]
rln = { path = "%(repo)s/rln", default-features = false }
zerokit_utils = { path = "%(repo)s/utils", default-features = false }
ark-groth16 = { version = "0.5.0", default-features = false }
ark-relations = { version = "0.5.1" }
color-eyre = "0.6.3"
[features]
default = []
%(features)s
neg_sync = []
neg_hasher = []
neg_tree_api = []
"""


def run(cfg, neg=None):
    """returns {"ok": bool, "codes": [E....], "log": str, "wall_s": float}"""
    repo = extract.REPO
    d = os.path.join(extract.CACHE, "witness", "crate")
    os.makedirs(d, exist_ok=True)
    lock = open(os.path.join(extract.CACHE, "witness.lock"), "w")
    fcntl.flock(lock, fcntl.LOCK_EX)
    try:
        feats = "\n".join('%s = [%s]' % (w, ", ".join('"rln/%s"' % f for f in fs)) for w, fs in CFG.values())
        man = MANIFEST % {"src": SRC, "repo": repo, "features": feats}
        mp = os.path.join(d, "Cargo.toml")
        if not os.path.exists(mp) or open(mp).read() != man:
            open(mp, "w").write(man)
        shutil.copyfile(os.path.join(repo, "Cargo.lock"), os.path.join(d, "Cargo.lock"))
        env = dict(os.environ)
        env.update({"CARGO_TARGET_DIR": os.path.join(extract.CACHE, "target", "witness"), "CARGO_NET_OFFLINE": "true",
                    "RUSTFLAGS": "-Awarnings"})
        env.pop("RUSTC_WORKSPACE_WRAPPER", None)
        fl = [CFG[cfg][0]] + ([neg] if neg else [])
        t0 = time.time()
        r = subprocess.run(["cargo", "+nightly", "check", "--offline", "--features", ",".join(fl)], cwd=d, env=env,
                           stdout=subprocess.PIPE, stderr=subprocess.STDOUT, text=True)
        import re
        codes = sorted(set(re.findall(r"error\[(E\d+)\]", r.stdout)))
        return {"ok": r.returncode == 0, "codes": codes, "log": r.stdout[-3000:], "wall_s": round(time.time() - t0, 1), "features": fl}
    finally:
        fcntl.flock(lock, fcntl.LOCK_UN)
        lock.close()
