//! Wrong FFI wrappers (C11 fixtures). Same ProcessArg / Buffer machinery as rln::ffi.
use crate::public::RLN;
use std::slice;

trait ProcessArg {
    type ReturnType;
    fn process(self) -> Self::ReturnType;
}
impl ProcessArg for usize {
    type ReturnType = usize;
    fn process(self) -> Self::ReturnType {
        self
    }
}
impl ProcessArg for *const Buffer {
    type ReturnType = &'static [u8];
    fn process(self) -> Self::ReturnType {
        <&[u8]>::from(unsafe { &*self })
    }
}
impl ProcessArg for *const RLN {
    type ReturnType = &'static RLN;
    fn process(self) -> Self::ReturnType {
        unsafe { &*self }
    }
}
impl ProcessArg for *mut RLN {
    type ReturnType = &'static mut RLN;
    fn process(self) -> Self::ReturnType {
        unsafe { &mut *self }
    }
}
#[repr(C)]
pub struct Buffer {
    pub ptr: *const u8,
    pub len: usize,
}
impl From<&[u8]> for Buffer {
    fn from(src: &[u8]) -> Self {
        Self { ptr: src.as_ptr(), len: src.len() }
    }
}
impl<'a> From<&Buffer> for &'a [u8] {
    fn from(src: &Buffer) -> &'a [u8] {
        unsafe { slice::from_raw_parts(src.ptr, src.len) }
    }
}

/// R11-2: two same-typed buffers swapped
#[no_mangle]
pub extern "C" fn swapped_args(ctx: *mut RLN, index: usize, leaves: *const Buffer, indices: *const Buffer) -> bool {
    let r: &mut RLN = ctx.process();
    match r.atomic_operation(index.process(), indices.process(), leaves.process()) {
        Ok(()) => true,
        Err(_) => false,
    }
}

/// R11-3: reports success on the error arm
#[no_mangle]
pub extern "C" fn true_on_error(ctx: *mut RLN, index: usize, input: *const Buffer) -> bool {
    let r: &mut RLN = ctx.process();
    match r.set_leaf(index.process(), input.process()) {
        Ok(()) => true,
        Err(_) => true,
    }
}

/// R11-3: writes the output buffer on the error arm as well
#[no_mangle]
pub extern "C" fn output_on_error(ctx: *const RLN, index: usize, output: *mut Buffer) -> bool {
    let mut out: Vec<u8> = Vec::new();
    let r = ctx.process();
    match r.get_leaf(index.process(), &mut out) {
        Ok(()) => {
            unsafe { *output = Buffer::from(&out[..]) };
            std::mem::forget(out);
            true
        }
        Err(_) => {
            unsafe { *output = Buffer::from(&out[..]) };
            std::mem::forget(out);
            false
        }
    }
}

/// R11-3: length taken from the capacity, not the length
#[no_mangle]
pub extern "C" fn len_from_capacity(ctx: *const RLN, index: usize, output: *mut Buffer) -> bool {
    let mut out: Vec<u8> = Vec::new();
    let r = ctx.process();
    match r.get_leaf(index.process(), &mut out) {
        Ok(()) => {
            unsafe { *output = Buffer { ptr: out.as_ptr(), len: out.capacity() } };
            std::mem::forget(out);
            true
        }
        Err(_) => {
            std::mem::forget(out);
            false
        }
    }
}

/// R11-4: sequential batch that starts at 0 instead of leaves_set()
#[no_mangle]
pub extern "C" fn seq_from_zero(ctx: *mut RLN, leaves: *const Buffer, indices: *const Buffer) -> bool {
    let r: &mut RLN = ctx.process();
    match r.atomic_operation(0usize.process(), leaves.process(), indices.process()) {
        Ok(()) => true,
        Err(_) => false,
    }
}

/// R11-6: the error arm indexes a vector whose length is not established: a panic inside an extern "C" function
#[no_mangle]
pub extern "C" fn err_arm_indexes(ctx: *mut RLN, index: usize, input: *const Buffer) -> bool {
    let r: &mut RLN = ctx.process();
    match r.set_leaf(index.process(), input.process()) {
        Ok(()) => true,
        Err(e) => {
            let parts: Vec<String> = e.split(':').map(|s| s.to_string()).collect();
            eprintln!("execution error: {}", parts[1]);
            false
        }
    }
}
