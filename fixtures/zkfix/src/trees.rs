//! C15/C08/C06 fixtures: a wrapper that keeps an empty-leaves flag vector next to an inner tree.
pub struct MerkleTree<D, H> {
    pub leaves: Vec<u64>,
    pub d: D,
    pub h: H,
}
impl<D, H> MerkleTree<D, H> {
    pub fn set_range(&mut self, start: usize, xs: Vec<u64>) -> Result<(), String> {
        if start + xs.len() > self.leaves.len() {
            return Err("range".to_string());
        }
        for (i, x) in xs.into_iter().enumerate() {
            self.leaves[start + i] = x;
        }
        Ok(())
    }
}
pub struct Flagged {
    pub tree: MerkleTree<u8, u8>,
    pub cached_leaves_indices: Vec<u8>,
}
impl Flagged {
    pub fn set_range_wrong_flags(&mut self, start: usize, v: Vec<u64>) -> Result<(), String> {
        self.tree.set_range(start, v.clone())?;
        for i in start..v.len() {
            self.cached_leaves_indices[i] = 1
        }
        Ok(())
    }
    pub fn set_range_right_flags(&mut self, start: usize, v: Vec<u64>) -> Result<(), String> {
        self.tree.set_range(start, v.clone())?;
        for i in start..start + v.len() {
            self.cached_leaves_indices[i] = 1
        }
        Ok(())
    }
    /// mutates before the fallible step: not atomic on rejection
    pub fn clear_then_write(&mut self, start: usize, v: Vec<u64>, idx: Vec<usize>) -> Result<(), String> {
        for i in idx {
            self.cached_leaves_indices[i] = 0;
        }
        self.tree.set_range(start, v)
    }
}
