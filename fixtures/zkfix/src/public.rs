//! Stand-in for rln::public with the same method shapes (bodies irrelevant: callees are opaque to C11).
use std::io::{Read, Write};
pub type Result<T> = std::result::Result<T, String>;
pub struct RLN {
    pub n: usize,
}
impl RLN {
    pub fn set_leaf<R: Read>(&mut self, index: usize, mut input: R) -> Result<()> {
        let mut v = Vec::new();
        input.read_to_end(&mut v).map_err(|e| e.to_string())?;
        self.n = index;
        Ok(())
    }
    pub fn get_leaf<W: Write>(&self, index: usize, mut out: W) -> Result<()> {
        out.write_all(&[index as u8]).map_err(|e| e.to_string())
    }
    pub fn atomic_operation<R: Read>(&mut self, index: usize, mut leaves: R, mut indices: R) -> Result<()> {
        let mut v = Vec::new();
        leaves.read_to_end(&mut v).map_err(|e| e.to_string())?;
        indices.read_to_end(&mut v).map_err(|e| e.to_string())?;
        self.n = index;
        Ok(())
    }
    pub fn leaves_set(&mut self) -> usize {
        self.n
    }
}

/// wrong: `write` may accept only a prefix and the count is dropped (C12 R12-4 must see this call)
pub fn short_write<W: Write>(mut out: W, msg: &[u8]) -> Result<()> {
    out.write(msg).map_err(|e| e.to_string())?;
    Ok(())
}
