//! C19/C20 fixtures: enum-to-enum codec tables.
#[derive(Clone, Copy, PartialEq, Debug)]
pub enum W {
    A = 0,
    B = 1,
}
#[derive(Clone, Copy, PartialEq, Debug)]
pub enum G {
    A,
    B,
}
/// decodes A as B and B as A
pub fn swapped_dec(v: W) -> G {
    match v {
        W::A => G::B,
        W::B => G::A,
    }
}
pub static mut FLAG: bool = false;
/// not a plain table: depends on something else
pub fn guarded_dec(v: W, flip: bool) -> G {
    match v {
        W::A => {
            if flip {
                G::B
            } else {
                G::A
            }
        }
        W::B => G::B,
    }
}
