//! C19/C20 fixtures: enum-to-enum codec tables.
#[derive(Clone, Copy, PartialEq, Debug)]
pub enum W {
    A = 0,
    B = 1,
}
#[derive(Clone, Copy, PartialEq, Debug)]
pub enum G {
    A,
    B,
}
/// decodes A as B and B as A
pub fn swapped_dec(v: W) -> G {
    match v {
        W::A => G::B,
        W::B => G::A,
    }
}
pub static mut FLAG: bool = false;
/// not a plain table: depends on something else
pub fn guarded_dec(v: W, flip: bool) -> G {
    match v {
        W::A => {
            if flip {
                G::B
            } else {
                G::A
            }
        }
        W::B => G::B,
    }
}

// ---- C19 R19-3 fixture: a conditional reduction that tests `>` instead of `>=`
#[derive(Clone, Copy, PartialEq)]
pub struct BigInt(pub [u64; 4]);
impl PartialOrd for BigInt {
    fn partial_cmp(&self, o: &Self) -> Option<std::cmp::Ordering> {
        for i in (0..4).rev() {
            if self.0[i] != o.0[i] {
                return self.0[i].partial_cmp(&o.0[i]);
            }
        }
        Some(std::cmp::Ordering::Equal)
    }
}
pub struct Fp(pub [u64; 4]);
pub trait PrimeField {
    fn into_bigint(self) -> BigInt;
}
impl PrimeField for Fp {
    fn into_bigint(self) -> BigInt {
        BigInt(self.0)
    }
}
pub trait BigInteger {
    fn sub_with_borrow(&mut self, o: &Self) -> bool;
}
impl BigInteger for BigInt {
    fn sub_with_borrow(&mut self, o: &Self) -> bool {
        let mut borrow = false;
        for i in 0..4 {
            let (x, b1) = self.0[i].overflowing_sub(o.0[i]);
            let (y, b2) = x.overflowing_sub(borrow as u64);
            self.0[i] = y;
            borrow = b1 || b2;
        }
        borrow
    }
}
pub const MODULUS: BigInt = BigInt([0x43e1f593f0000001, 0x2833e84879b97091, 0xb85045b68181585d, 0x30644e72e131a029]);
pub fn sink(x: BigInt) -> u64 {
    x.0[0]
}
pub fn cmp_gt_then_sub(a: Fp, b: Fp) -> u64 {
    let a = a.into_bigint();
    let b = b.into_bigint();
    let mut d = BigInt([a.0[0] | b.0[0], a.0[1] | b.0[1], a.0[2] | b.0[2], a.0[3] | b.0[3]]);
    if d > MODULUS {
        d.sub_with_borrow(&MODULUS);
    }
    sink(d)
}
