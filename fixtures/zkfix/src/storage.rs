//! C16 fixtures: error discipline of a storage layer.
pub struct Db;
impl Db {
    pub fn put(&mut self, k: u8, v: u8) -> Result<(), String> {
        if k == v {
            Err("x".to_string())
        } else {
            Ok(())
        }
    }
    pub fn flush(&mut self) -> Result<usize, String> {
        Ok(0)
    }
}
/// result discarded
pub fn dropped_put(db: &mut Db, k: u8) -> Result<(), String> {
    let _ = db.put(k, 1);
    db.flush()?;
    Ok(())
}
/// error swallowed with ok()
pub fn ok_swallow(db: &mut Db, k: u8) -> Result<(), String> {
    db.put(k, 1).ok();
    db.flush()?;
    Ok(())
}
/// failure reported as success
pub fn err_to_ok(db: &mut Db, k: u8) -> Result<(), String> {
    match db.put(k, 1) {
        Ok(()) => {}
        Err(_) => return Ok(()),
    }
    db.flush()?;
    Ok(())
}
pub fn proper(db: &mut Db, k: u8) -> Result<(), String> {
    db.put(k, 1)?;
    let _ = db.flush().map_err(|e| e + "!")?;
    Ok(())
}

/// C18 fixture: a memo cache behind interior mutability
pub struct Memo {
    pub cache: std::cell::RefCell<Vec<u8>>,
    pub hits: std::sync::atomic::AtomicUsize,
}

/// R06-11 fixtures: a key-value adapter whose batch write drops some records / keeps all of them
pub struct Batch(pub Vec<(u8, Vec<u8>)>);
impl Batch {
    pub fn insert(&mut self, k: &u8, v: Vec<u8>) {
        self.0.push((*k, v));
    }
}
pub struct Kv(pub Vec<(u8, Vec<u8>)>);
impl Kv {
    pub fn apply_batch(&mut self, b: Batch) -> Result<(), String> {
        self.0.extend(b.0);
        Ok(())
    }
}
pub struct Store(pub Kv);
impl Store {
    /// skips the records whose value is empty
    pub fn put_batch_skips(&mut self, m: std::collections::HashMap<u8, Vec<u8>>) -> Result<(), String> {
        let mut batch = Batch(Vec::new());
        for (k, v) in m {
            if v.is_empty() {
                continue;
            }
            batch.insert(&k, v);
        }
        self.0.apply_batch(batch).map_err(|e| e + "!")?;
        Ok(())
    }
    pub fn put_batch_whole(&mut self, m: std::collections::HashMap<u8, Vec<u8>>) -> Result<(), String> {
        let mut batch = Batch(Vec::new());
        for (k, v) in m {
            batch.insert(&k, v);
        }
        self.0.apply_batch(batch).map_err(|e| e + "!")?;
        Ok(())
    }
}
