//! C04/C03 fixtures: formulas with region-confined defects.
#[derive(Clone, Copy, PartialEq)]
pub struct Fr(pub u64);
impl std::ops::Add for Fr {
    type Output = Fr;
    fn add(self, o: Fr) -> Fr {
        Fr(self.0.wrapping_add(o.0))
    }
}
impl std::ops::Mul for Fr {
    type Output = Fr;
    fn mul(self, o: Fr) -> Fr {
        Fr(self.0.wrapping_mul(o.0))
    }
}
pub fn poseidon_hash(x: &[Fr]) -> Fr {
    Fr(x.len() as u64)
}
pub struct RLNWitnessInput {
    pub identity_secret: Fr,
    pub user_message_limit: Fr,
    pub message_id: Fr,
    pub path_elements: Vec<Fr>,
    pub identity_path_index: Vec<u8>,
    pub x: Fr,
    pub external_nullifier: Fr,
}
pub struct RLNProofValues {
    pub y: Fr,
    pub nullifier: Fr,
    pub root: Fr,
    pub x: Fr,
    pub external_nullifier: Fr,
}
pub fn compute_tree_root(s: &Fr, limit: &Fr, pe: &[Fr], bits: &[u8]) -> Fr {
    let c = poseidon_hash(&[*s]);
    let mut root = poseidon_hash(&[c, *limit]);
    for i in 0..bits.len() {
        if bits[i] == 0 {
            root = poseidon_hash(&[root, pe[i]]);
        } else {
            root = poseidon_hash(&[pe[i], root]);
        }
    }
    root
}
/// region-confined defect: a different formula when x is small
pub fn pvfw_region_branch(w: &RLNWitnessInput) -> Result<RLNProofValues, String> {
    let a_0 = w.identity_secret;
    let a_1 = poseidon_hash(&[a_0, w.external_nullifier, w.message_id]);
    let y = if w.x.0 < 16 { a_0 } else { a_0 + w.x * a_1 };
    let nullifier = poseidon_hash(&[a_1]);
    let root = compute_tree_root(&w.identity_secret, &w.user_message_limit, &w.path_elements, &w.identity_path_index);
    Ok(RLNProofValues { y, nullifier, root, x: w.x, external_nullifier: w.external_nullifier })
}
/// nullifier depends on x
pub fn pvfw_x_in_nullifier(w: &RLNWitnessInput) -> Result<RLNProofValues, String> {
    let a_0 = w.identity_secret;
    let a_1 = poseidon_hash(&[a_0, w.external_nullifier, w.message_id]);
    let y = a_0 + w.x * a_1;
    let nullifier = poseidon_hash(&[a_1, w.x]);
    let root = compute_tree_root(&w.identity_secret, &w.user_message_limit, &w.path_elements, &w.identity_path_index);
    Ok(RLNProofValues { y, nullifier, root, x: w.x, external_nullifier: w.external_nullifier })
}
/// operand order not swapped in the right-child arm
pub fn ctr_swapped_arm(s: &Fr, limit: &Fr, pe: &[Fr], bits: &[u8]) -> Fr {
    let c = poseidon_hash(&[*s]);
    let mut root = poseidon_hash(&[c, *limit]);
    for i in 0..bits.len() {
        if bits[i] == 0 {
            root = poseidon_hash(&[root, pe[i]]);
        } else {
            root = poseidon_hash(&[root, pe[i]]);
        }
    }
    root
}
/// off-by-one: skips level 0
pub fn ctr_skip_first(s: &Fr, limit: &Fr, pe: &[Fr], bits: &[u8]) -> Fr {
    let c = poseidon_hash(&[*s]);
    let mut root = poseidon_hash(&[c, *limit]);
    for i in 1..bits.len() {
        if bits[i] == 0 {
            root = poseidon_hash(&[root, pe[i]]);
        } else {
            root = poseidon_hash(&[pe[i], root]);
        }
    }
    root
}

impl std::ops::Sub for Fr {
    type Output = Fr;
    fn sub(self, o: Fr) -> Fr {
        Fr(self.0.wrapping_sub(o.0))
    }
}
impl std::ops::Div for Fr {
    type Output = Fr;
    fn div(self, o: Fr) -> Fr {
        Fr(self.0 / o.0)
    }
}
/// C03: wrong sign in the slope
pub fn secret_wrong_sign(share1: (Fr, Fr), share2: (Fr, Fr)) -> Result<Fr, String> {
    let (x1, y1) = share1;
    let (x2, y2) = share2;
    let a_1 = (y1 - y2) / (x2 - x1);
    let a_0 = y1 - x1 * a_1;
    Ok(a_0)
}
/// C03: unguarded divisor
pub fn secret_unguarded_div(share1: (Fr, Fr), share2: (Fr, Fr)) -> Result<Fr, String> {
    let (x1, y1) = share1;
    let (x2, y2) = share2;
    let a_1 = (y1 - y2) / (x1 - x2);
    Ok(y1 - x1 * a_1)
}
/// C03 negative fixture: guarded divisor (rule must be silent)
pub fn secret_guarded_div(share1: (Fr, Fr), share2: (Fr, Fr)) -> Result<Fr, String> {
    let (x1, y1) = share1;
    let (x2, y2) = share2;
    if x1 == x2 {
        return Err("degenerate".to_string());
    }
    let a_1 = (y1 - y2) / (x1 - x2);
    Ok(y1 - x1 * a_1)
}
