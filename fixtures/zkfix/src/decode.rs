//! C12/C13 fixtures: decoding untrusted bytes with and without guards.
pub fn unguarded_slice(input: &[u8]) -> Result<u64, String> {
    let head = &input[..8];
    Ok(u64::from_le_bytes(head.try_into().unwrap()))
}
pub fn guarded_slice(input: &[u8]) -> Result<u64, String> {
    if input.len() < 8 {
        return Err("short".to_string());
    }
    let head = &input[..8];
    Ok(u64::from_le_bytes(head.try_into().unwrap()))
}
pub fn declared_len_unchecked(input: &[u8]) -> Result<Vec<u8>, String> {
    if input.len() < 8 {
        return Err("short".to_string());
    }
    let n = u64::from_le_bytes(input[0..8].try_into().unwrap()) as usize;
    Ok(input[8..8 + n].to_vec())
}
pub fn declared_len_checked(input: &[u8]) -> Result<Vec<u8>, String> {
    if input.len() < 8 {
        return Err("short".to_string());
    }
    let n = u64::from_le_bytes(input[0..8].try_into().unwrap()) as usize;
    if n > input.len() - 8 {
        return Err("declared length exceeds input".to_string());
    }
    Ok(input[8..8 + n].to_vec())
}
/// C12 fixtures: length-prefixed vector of 32-byte elements
pub fn vec_reader_unchecked(input: &[u8]) -> Result<Vec<[u8; 32]>, String> {
    if input.len() < 8 {
        return Err("short".to_string());
    }
    let len = u64::from_le_bytes(input[0..8].try_into().unwrap()) as usize;
    let mut res = Vec::new();
    for i in 0..len {
        let mut e = [0u8; 32];
        e.copy_from_slice(&input[8 + 32 * i..8 + 32 * (i + 1)]);
        res.push(e);
    }
    Ok(res)
}
pub fn vec_reader_checked(input: &[u8]) -> Result<Vec<[u8; 32]>, String> {
    if input.len() < 8 {
        return Err("short".to_string());
    }
    let len = u64::from_le_bytes(input[0..8].try_into().unwrap()) as usize;
    if len > (input.len() - 8) / 32 {
        return Err("declared length exceeds input".to_string());
    }
    let mut res = Vec::new();
    for i in 0..len {
        let mut e = [0u8; 32];
        e.copy_from_slice(&input[8 + 32 * i..8 + 32 * (i + 1)]);
        res.push(e);
    }
    Ok(res)
}
