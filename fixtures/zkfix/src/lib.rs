//! Deliberately wrong look-alikes. Analysed by the zkfacts driver on every run; every armed rule
//! must fire on its fixture (a rule that cannot fire is broken machinery, not a pass).
#![allow(dead_code, unused_variables, clippy::all)]

pub mod public;
pub mod ffi;
pub mod proto;
pub mod decode;
pub mod tables;
pub mod storage;
pub mod trees;
