//! E3: type-level witnesses. This crate is only ever type-checked (`cargo check`), never run.
//! Each `neg_*` feature enables exactly one item that MUST fail to type-check with the stated error code;
//! its compiling twin is the item right above it.
#![allow(dead_code, unused_imports, unused_variables)]
use std::marker::PhantomData;

pub fn assert_send<T: Send>() {}
pub fn assert_sync<T: Sync>() {}
pub fn assert_tree<T: zerokit_utils::ZerokitMerkleTree<Hasher = rln::hashers::PoseidonHash>>() {}
pub fn assert_proof<P: zerokit_utils::ZerokitMerkleProof<Index = u8, Hasher = rln::hashers::PoseidonHash>>() {}
pub fn same_type<T>(_: PhantomData<T>, _: PhantomData<T>) {}

// ---- C18 R18-1: one RLN instance may be shared between threads
pub fn rln_is_send_sync() {
    assert_send::<rln::public::RLN>();
    assert_sync::<rln::public::RLN>();
}
/// twin that must fail (E0277): the same assertion on a wrapper holding a `Cell`
#[cfg(feature = "neg_sync")]
pub fn neg_sync() {
    struct W(rln::public::RLN, std::cell::Cell<u8>);
    assert_sync::<W>();
}

// ---- C17 R17-2: whatever back end the features select implements the tree interface over the one Poseidon hasher
#[cfg(not(feature = "c_stateless"))]
pub fn tree_surface() {
    use rln::poseidon_tree::{MerkleProof, PoseidonTree};
    assert_tree::<PoseidonTree>();
    assert_proof::<MerkleProof>();
    same_type(PhantomData::<<PoseidonTree as zerokit_utils::ZerokitMerkleTree>::Proof>, PhantomData::<MerkleProof>);
    same_type(
        PhantomData::<<<PoseidonTree as zerokit_utils::ZerokitMerkleTree>::Hasher as zerokit_utils::merkle_tree::Hasher>::Fr>,
        PhantomData::<rln::circuit::Fr>,
    );
    assert_send::<PoseidonTree>();
    assert_sync::<PoseidonTree>();
}
/// twin that must fail (E0271): a tree over a different hasher does not satisfy the same assertion
#[cfg(all(feature = "neg_hasher", not(feature = "c_stateless")))]
pub fn neg_hasher() {
    #[derive(Clone, Copy, PartialEq, Eq)]
    struct Other;
    impl zerokit_utils::merkle_tree::Hasher for Other {
        type Fr = rln::circuit::Fr;
        fn default_leaf() -> Self::Fr {
            rln::circuit::Fr::from(1u64)
        }
        fn hash(i: &[Self::Fr]) -> Self::Fr {
            i[0]
        }
    }
    assert_tree::<zerokit_utils::OptimalMerkleTree<Other>>();
}

// ---- the stateful API exists exactly when the configuration is not stateless
#[cfg(not(feature = "c_stateless"))]
pub fn stateful_api(r: &mut rln::public::RLN) {
    let _ = r.set_leaf(0usize, std::io::Cursor::new(Vec::<u8>::new()));
    let _ = r.flush();
}
/// must fail (E0599) under `c_stateless`: no tree mutators on a stateless instance
#[cfg(all(feature = "neg_tree_api", feature = "c_stateless"))]
pub fn neg_tree_api(r: &mut rln::public::RLN) {
    let _ = r.set_leaf(0usize, std::io::Cursor::new(Vec::<u8>::new()));
}

// ---- C17 R17-4: the key loader has one signature in every configuration
pub fn loader_signature() {
    let _f: fn(&[u8]) -> color_eyre::Result<(ark_groth16::ProvingKey<rln::circuit::Curve>, ark_relations::r1cs::ConstraintMatrices<rln::circuit::Fr>)> =
        rln::circuit::zkey_from_raw;
    let _g: fn() -> &'static (ark_groth16::ProvingKey<rln::circuit::Curve>, ark_relations::r1cs::ConstraintMatrices<rln::circuit::Fr>) =
        rln::circuit::zkey_from_folder;
}
