use rln::circuit::Fr;
use rln::hashers::PoseidonHash;
use rln::pm_tree_adapter::{PmTree, PmtreeConfig};
use utils::{FullMerkleTree, OptimalMerkleTree, ZerokitMerkleTree};

#[test]
fn pm_empty_range() {
    let mut t = PmTree::new(4, Fr::from(0u64), PmtreeConfig::default()).unwrap();
    let r = std::panic::catch_unwind(std::panic::AssertUnwindSafe(|| t.set_range(0, Vec::<Fr>::new().into_iter())));
    println!("pm fresh: {:?}", r.as_ref().map(|x| x.is_ok()).map_err(|_| "PANIC"));
    t.update_next(Fr::from(5u64)).unwrap();
    let r2 = std::panic::catch_unwind(std::panic::AssertUnwindSafe(|| t.set_range(3, Vec::<Fr>::new().into_iter())));
    println!("pm at 3: {:?}", r2.as_ref().map(|x| x.is_ok()).map_err(|_| "PANIC"));
    assert!(r.is_ok() && r2.is_ok());
}
#[test]
fn full_empty_range() {
    let mut t = FullMerkleTree::<PoseidonHash>::default(4).unwrap();
    let r = std::panic::catch_unwind(std::panic::AssertUnwindSafe(|| t.set_range(0, Vec::<Fr>::new().into_iter())));
    println!("full: {:?}", r.as_ref().map(|x| x.is_ok()).map_err(|_| "PANIC"));
    assert!(r.is_ok());
}
#[test]
fn optimal_empty_range() {
    let mut t = OptimalMerkleTree::<PoseidonHash>::default(4).unwrap();
    let r = std::panic::catch_unwind(std::panic::AssertUnwindSafe(|| t.set_range(0, Vec::<Fr>::new().into_iter())));
    println!("optimal: {:?}", r.as_ref().map(|x| x.is_ok()).map_err(|_| "PANIC"));
    assert!(r.is_ok());
}
