// C16: a configuration that names an existing persistent tree but omits "temporary" must not destroy it
use rln::circuit::Fr;
use rln::pm_tree_adapter::{PmTree, PmtreeConfig};
use std::str::FromStr;
use utils::ZerokitMerkleTree;

#[test]
fn opening_an_existing_tree_without_the_temporary_key_keeps_it() {
    let dir = std::env::temp_dir().join(format!("c16_tmpkey_{}", std::process::id()));
    let _ = std::fs::remove_dir_all(&dir);
    let persistent = format!(r#"{{"path": "{}", "temporary": false}}"#, dir.display());
    let path_only = format!(r#"{{"path": "{}"}}"#, dir.display());
    {
        let mut a = PmTree::new(10, Fr::from(0u64), PmtreeConfig::from_str(&persistent).unwrap()).unwrap();
        for i in 0..8u64 {
            a.update_next(Fr::from(100 + i)).unwrap();
        }
        a.close_db_connection().unwrap();
    }
    std::thread::sleep(std::time::Duration::from_millis(300));
    // the operator forgets the "temporary" key
    match PmtreeConfig::from_str(&path_only) {
        Err(e) => println!("configuration rejected (fine): {e}"),
        Ok(cfg) => {
            let b = PmTree::new(10, Fr::from(0u64), cfg).unwrap();
            println!("opened with path only: leaves_set = {}", b.leaves_set());
            drop(b);
        }
    }
    std::thread::sleep(std::time::Duration::from_millis(300));
    println!("directory still exists: {}", dir.exists());
    let c = PmTree::new(10, Fr::from(0u64), PmtreeConfig::from_str(&persistent).unwrap()).unwrap();
    println!("reopened persistent: leaves_set = {}", c.leaves_set());
    assert_eq!(c.leaves_set(), 8, "the persistent tree was destroyed");
    drop(c);
    let _ = std::fs::remove_dir_all(&dir);
}
