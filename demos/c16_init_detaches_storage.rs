// C16 known finding: RLN::init_tree_with_leaves / set_tree replace a persistent tree with a default (temporary) one:
// later updates are acknowledged, flush() returns Ok, and none of it is at the configured location after reopening
use rln::circuit::Fr;
use rln::public::RLN;
use rln::utils::{fr_to_bytes_le, vec_fr_to_bytes_le};
use std::io::Cursor;

#[test]
fn updates_after_init_tree_with_leaves_survive_reopen() {
    let dir = std::env::temp_dir().join(format!("c16_detach_{}", std::process::id()));
    let _ = std::fs::remove_dir_all(&dir);
    let cfg = format!(r#"{{"tree_config": {{"path": "{}", "temporary": false}}}}"#, dir.display());
    {
        let mut rln = RLN::new(20, Cursor::new(cfg.clone())).unwrap();
        rln.set_next_leaf(Cursor::new(fr_to_bytes_le(&Fr::from(1u64)))).unwrap();
        rln.flush().unwrap();
        let leaves = vec![Fr::from(10u64), Fr::from(11u64)];
        rln.init_tree_with_leaves(Cursor::new(vec_fr_to_bytes_le(&leaves).unwrap())).unwrap();
        rln.set_next_leaf(Cursor::new(fr_to_bytes_le(&Fr::from(12u64)))).unwrap();
        assert_eq!(rln.leaves_set(), 3);
        rln.flush().unwrap();
    }
    std::thread::sleep(std::time::Duration::from_millis(300));
    let mut rln = RLN::new(20, Cursor::new(cfg)).unwrap();
    println!("leaves_set after reopen: {}", rln.leaves_set());
    let n = rln.leaves_set();
    drop(rln);
    let _ = std::fs::remove_dir_all(&dir);
    assert_eq!(n, 3, "the updates acknowledged after init_tree_with_leaves are not at the configured location");
}
