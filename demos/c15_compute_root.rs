use std::{fmt::Display, str::FromStr};
use tiny_keccak::{Hasher as _, Keccak};
use zerokit_utils::{FullMerkleTree, Hasher, OptimalMerkleTree, ZerokitMerkleTree};

#[derive(Clone, Copy, Eq, PartialEq)]
struct K;
#[derive(Clone, Copy, Eq, PartialEq, Debug, Default)]
struct TestFr([u8; 32]);
impl Hasher for K {
    type Fr = TestFr;
    fn default_leaf() -> Self::Fr {
        TestFr([0; 32])
    }
    fn hash(inputs: &[Self::Fr]) -> Self::Fr {
        let mut o = [0; 32];
        let mut h = Keccak::v256();
        for i in inputs {
            h.update(i.0.as_slice());
        }
        h.finalize(&mut o);
        TestFr(o)
    }
}
impl Display for TestFr {
    fn fmt(&self, f: &mut std::fmt::Formatter<'_>) -> std::fmt::Result {
        write!(f, "{:?}", self.0)
    }
}
impl FromStr for TestFr {
    type Err = std::string::FromUtf8Error;
    fn from_str(_s: &str) -> Result<Self, Self::Err> {
        Ok(TestFr([0; 32]))
    }
}

#[test]
fn compute_root_does_not_change_the_empty_positions() {
    let mut t = OptimalMerkleTree::<K>::default(3).unwrap();
    t.set(1, TestFr([7; 32])).unwrap();
    assert_eq!(t.get_empty_leaves_indices(), vec![0]);
    let r = t.root();
    assert_eq!(t.compute_root().unwrap(), r);
    println!("optimal: empty positions after compute_root: {:?}", t.get_empty_leaves_indices());
    let mut f = FullMerkleTree::<K>::default(3).unwrap();
    f.set(1, TestFr([7; 32])).unwrap();
    f.compute_root().unwrap();
    assert_eq!(f.get_empty_leaves_indices(), vec![0]);
    assert_eq!(t.get_empty_leaves_indices(), vec![0]);
}
