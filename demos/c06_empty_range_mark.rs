// An empty range write changes nothing in the ideal tree: in particular it must not move the high-water mark.
use zerokit_utils::{FullMerkleTree, FullMerkleConfig, OptimalMerkleTree, OptimalMerkleConfig, ZerokitMerkleTree, Hasher};
use std::str::FromStr;

#[derive(Clone, Copy, Eq, PartialEq, Debug)]
struct TestFr(u64);
struct H;
impl std::fmt::Display for TestFr { fn fmt(&self, f: &mut std::fmt::Formatter<'_>) -> std::fmt::Result { write!(f, "{}", self.0) } }
impl FromStr for TestFr { type Err = std::num::ParseIntError; fn from_str(s: &str) -> Result<Self, Self::Err> { Ok(TestFr(s.parse()?)) } }
impl Default for TestFr { fn default() -> Self { TestFr(0) } }
impl Hasher for H {
    type Fr = TestFr;
    fn default_leaf() -> Self::Fr { TestFr(0) }
    fn hash(inputs: &[Self::Fr]) -> Self::Fr { TestFr(inputs.iter().fold(17u64, |a, x| a.wrapping_mul(31).wrapping_add(x.0))) }
}

#[test]
fn empty_range_write_leaves_the_mark_alone() {
    let mut full = FullMerkleTree::<H>::new(3, TestFr(0), FullMerkleConfig::default()).unwrap();
    let mut opt = OptimalMerkleTree::<H>::new(3, TestFr(0), OptimalMerkleConfig::default()).unwrap();
    full.set_range(5, std::iter::empty()).unwrap();
    opt.set_range(5, std::iter::empty()).unwrap();
    assert_eq!(full.leaves_set(), 0, "full");
    assert_eq!(opt.leaves_set(), 0, "optimal: an empty range write at 5 moved the mark");
    full.update_next(TestFr(9)).unwrap();
    opt.update_next(TestFr(9)).unwrap();
    assert_eq!(full.get(0).unwrap(), opt.get(0).unwrap());
    assert_eq!(full.root(), opt.root());
}
