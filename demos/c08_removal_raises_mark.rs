// C08 known finding R08-7: a removal-only batch on the persistent tree raises the leaf-count high-water mark
// place at rln/tests/c08_removal_raises_mark.rs ; cargo test -p rln --test c08_removal_raises_mark -- --nocapture
use rln::circuit::Fr;
use rln::hashers::PoseidonHash;
use rln::pm_tree_adapter::{PmTree, PmtreeConfig};
use utils::{FullMerkleTree, OptimalMerkleTree, ZerokitMerkleTree};

#[test]
fn removal_of_never_written_positions_keeps_the_mark() {
    let mut pm = PmTree::new(4, Fr::from(0u64), PmtreeConfig::default()).unwrap();
    let mut full = FullMerkleTree::<PoseidonHash>::default(4).unwrap();
    let mut opt = OptimalMerkleTree::<PoseidonHash>::default(4).unwrap();
    pm.override_range(0, Vec::<Fr>::new().into_iter(), [3usize, 4].into_iter()).unwrap();
    full.override_range(0, Vec::<Fr>::new().into_iter(), [3usize, 4].into_iter()).unwrap();
    opt.override_range(0, Vec::<Fr>::new().into_iter(), [3usize, 4].into_iter()).unwrap();
    println!("leaves_set after removing [3,4] from a fresh tree: pmtree {} full {} optimal {}", pm.leaves_set(), full.leaves_set(), opt.leaves_set());
    // the same removals one by one
    let mut pm2 = PmTree::new(4, Fr::from(0u64), PmtreeConfig::default()).unwrap();
    let _ = pm2.delete(3);
    let _ = pm2.delete(4);
    println!("pmtree, removed one by one: {}", pm2.leaves_set());
    // the next append lands elsewhere
    pm.update_next(Fr::from(7u64)).unwrap();
    full.update_next(Fr::from(7u64)).unwrap();
    println!("roots equal after one append: {}", pm.root() == full.root());
    assert_eq!(pm.leaves_set(), full.leaves_set());
    assert_eq!(pm.root(), full.root());
}
