// Reopening a persistent tree while the previous handle has not yet released the lock
use rln::hashers::PoseidonHash;
use rln::pm_tree_adapter::{PmTree, PmtreeConfig};
use rln::circuit::Fr;
use std::str::FromStr;
use utils::{Hasher, ZerokitMerkleTree};

#[test]
fn reopen_while_lock_is_still_held_keeps_the_tree() {
    let dir = std::env::temp_dir().join(format!("c16_busy_{}", std::process::id()));
    let _ = std::fs::remove_dir_all(&dir);
    let cfg = format!(r#"{{"path": "{}", "temporary": false}}"#, dir.display());
    let mut a = PmTree::new(10, Fr::from(0u64), PmtreeConfig::from_str(&cfg).unwrap()).unwrap();
    for i in 0..8u64 {
        a.update_next(Fr::from(100 + i)).unwrap();
    }
    a.close_db_connection().unwrap();
    let root = a.root();
    assert_eq!(a.leaves_set(), 8);
    // the old handle goes away shortly after the new process/handle starts opening
    let h = std::thread::spawn(move || {
        std::thread::sleep(std::time::Duration::from_millis(60));
        drop(a);
    });
    let b = PmTree::new(10, Fr::from(0u64), PmtreeConfig::from_str(&cfg).unwrap());
    h.join().unwrap();
    match b {
        Err(e) => println!("reopen reported an error (acceptable): {e}"),
        Ok(b) => {
            assert_eq!(b.leaves_set(), 8, "acknowledged leaves lost on reopen");
            assert_eq!(b.root(), root, "root differs after reopen");
            assert_eq!(b.get(3).unwrap(), Fr::from(103u64));
        }
    }
    let _ = std::fs::remove_dir_all(&dir);
    let _ = <PoseidonHash as Hasher>::default_leaf();
}
