// C15 known finding: a leaf written with the default value is "written" (not empty) in the session that wrote it
// and "empty" after close and reopen: the flags are not stored and cannot be rebuilt from the leaves alone
use rln::circuit::Fr;
use rln::pm_tree_adapter::{PmTree, PmtreeConfig};
use std::str::FromStr;
use utils::ZerokitMerkleTree;

#[test]
fn listing_is_the_same_after_reopen() {
    let dir = std::env::temp_dir().join(format!("c15_defval_{}", std::process::id()));
    let _ = std::fs::remove_dir_all(&dir);
    let cfg = format!(r#"{{"path": "{}", "temporary": false}}"#, dir.display());
    let before;
    {
        let mut a = PmTree::new(10, Fr::from(0u64), PmtreeConfig::from_str(&cfg).unwrap()).unwrap();
        a.set(0, Fr::from(5u64)).unwrap();
        a.set(1, Fr::from(0u64)).unwrap();
        a.set(2, Fr::from(7u64)).unwrap();
        before = a.get_empty_leaves_indices();
        a.close_db_connection().unwrap();
    }
    std::thread::sleep(std::time::Duration::from_millis(300));
    let b = PmTree::new(10, Fr::from(0u64), PmtreeConfig::from_str(&cfg).unwrap()).unwrap();
    let after = b.get_empty_leaves_indices();
    println!("before close: {before:?}  after reopen: {after:?}");
    drop(b);
    let _ = std::fs::remove_dir_all(&dir);
    assert_eq!(before, after);
}
