#!/bin/sh
# tools/seedrun.sh <patch.diff> [ID ...]  -- apply a seeded change to /repo, run the given checks (default: all), undo.
P="$1"; shift
[ -z "$(git -C /repo status --porcelain)" ] || { echo "/repo not clean"; exit 3; }
git -C /repo apply "$P" || { echo "patch does not apply"; exit 3; }
if [ $# -eq 0 ]; then set -- all; fi
for id in "$@"; do
  /verif/check "$id" 2>&1 | grep -E "^(VIOLATION|KNOWN-FINDING|  R|  [a-z]|C[0-9]+:)" | cut -c1-330
done
git -C /repo checkout -- .
git -C /repo status --short | head -3
