#!/bin/sh
# usage: tools/try_patch.sh <patch.diff> <ID> [<ID>...]  -- apply to /repo, run the checks, undo.
P="$1"; shift
git -C /repo apply "$P" || { echo "patch does not apply"; exit 3; }
for id in "$@"; do
  /verif/check "$id" 2>&1 | grep -E "^(VIOLATION|KNOWN-FINDING|  |C[0-9]+:)" | cut -c1-400
done
git -C /repo checkout -- . 
git -C /repo status --short | head -3
