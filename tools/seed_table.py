#!/usr/bin/env python3
"""Rewrites the block between <!-- seeded-table --> markers in DESIGN.md from seeded/*/meta.json"""
import json, glob, re
rows = []
for f in sorted(glob.glob("/verif/seeded/*/meta.json")):
    m = json.load(open(f))
    d = f.split("/")[-2]
    c = m["confirmed"]
    conf = "%s; demo %s/%s" % (c["suite_with_change"], "fails" if c["demo_fails_with_change"] else "PASSES", "passes" if c["demo_passes_without_change"] else "FAILS")
    rows.append("| `%s` | %s | %s | %s |" % (d, m["needs_to_manifest"].replace("|", "/"), m["caught_by"].replace("|", "/"), conf))
tab = "| seeded change (`/verif/seeded/<dir>`) | needs, to manifest | reported by | suite with change; demonstration with/without |\n|---|---|---|---|\n" + "\n".join(rows)
s = open("/verif/DESIGN.md").read()
s2 = re.sub(r"(<!-- seeded-table -->\n)(?:.*?\n)?(<!-- /seeded-table -->)", lambda m: m.group(1) + tab + "\n" + m.group(2), s, flags=re.S)
open("/verif/DESIGN.md", "w").write(s2)
assert s2 != s or tab in s, "markers not found"
print(len(rows), "rows")
