#!/bin/sh
# usage: tools/tryz.sh <patch.diff> <ID> [<ID>...]  -- apply to the scratch worktree /var/tmp/zkmut, run the checks there (ZK_REPO), undo.
P=$(realpath "$1"); shift
Z=${Z:-/var/tmp/zkmut}
[ -d "$Z" ] || git -C /repo worktree add -q --detach "$Z" HEAD || exit 3
git -C $Z checkout -q -- . ; git -C $Z apply "$P" || { echo "patch does not apply"; exit 3; }
for id in "$@"; do
  ZK_REPO=$Z /verif/check "$id" 2>&1 | grep -E "^(VIOLATION|KNOWN-FINDING|  |C[0-9]+:)" | cut -c1-${W:-400}
done
git -C $Z checkout -q -- .
