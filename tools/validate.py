#!/usr/bin/env python3-vt
import json, glob, jsonschema, sys
jsonschema.validate(json.load(open('/verif/MANIFEST.json')), json.load(open('/root/.vp/MANIFEST.schema.json')))
n = 0
for f in sorted(glob.glob('/verif/evidence/*.json')):
    jsonschema.validate(json.load(open(f)), json.load(open('/root/.vp/EVIDENCE.schema.json')))
    n += 1
print('MANIFEST and %d evidence files valid' % n)
