#!/bin/sh
# tools/r5verify.sh <PID> <n> <demo dest> <cargo test args...> : confirm round-5 change n of property PID (log in _seed/verify<n>.log)
PID=$1; N=$2; DEST=$3; shift 3
W=/tmp/seed5/$PID
sh /verif/tools/verify_seed.sh $W $W/_seed/change$N.diff $W/_seed/demo$N.rs "$DEST" "$@" > $W/_seed/verify$N.log 2>&1
tail -25 $W/_seed/verify$N.log
