#!/bin/sh
# tools/mut.sh [prefix...] : regenerate and run the mutants on a scratch worktree of /repo's HEAD (never touches /repo's working tree)
W=/var/tmp/zkmut
H=$(git -C /repo rev-parse HEAD)
if [ ! -d "$W" ]; then git -C /repo worktree add --detach "$W" "$H" >/dev/null 2>&1 || exit 3; fi
git -C "$W" checkout -q --detach "$H" && git -C "$W" checkout -q -- . || exit 3
export ZK_REPO="$W"
cd /verif
for p in "$@"; do python3 tools/mkmutants.py "$p" >/dev/null || exit 3; done
python3 tools/run_mutants.py "$@"
