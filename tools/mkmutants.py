#!/usr/bin/env python3
"""(Re)generates /verif/mutants/*.patch from small source edits against /repo HEAD. Each mutant compiles and breaks one property.
usage: tools/mkmutants.py [name-prefix]"""
import subprocess, sys, os
REPO = "/repo"
OUT = "/verif/mutants"
M = []


def m(name, file, old, new, prop):
    M.append((name, file, old, new, prop))


PROTO = "rln/src/protocol.rs"
PUB = "rln/src/public.rs"
HASH = "rln/src/hashers.rs"
PH = "utils/src/poseidon/poseidon_hash.rs"
UT = "rln/src/utils.rs"

# ---- C09
m("C09-rp-arity5", HASH, "(5, 8, 60, 0),", "(5, 8, 56, 0),", "C09")
m("C09-special-case-t5", PH, "        let mut state = vec![F::ZERO; t];", "        let t = if t == 5 { 4 } else { t };\n        let mut state = vec![F::ZERO; inp.len() + 1];", "C09")
m("C09-first-block-only", HASH, "    hasher.update(signal);\n    hasher.finalize(&mut hash);", "    hasher.update(&signal[..signal.len().min(136)]);\n    hasher.finalize(&mut hash);", "C09")
m("C09-sbox-boundary", PH, "if (i < n_rounds_f / 2) || (i >= n_rounds_f / 2 + n_rounds_p)", "if (i < n_rounds_f / 2) || (i > n_rounds_f / 2 + n_rounds_p)", "C09")
m("C09-mix-skip-last", PH, "            for j in 0..state.len() {\n                acc += row[j] * state[j];", "            for j in 0..state.len().min(8) {\n                acc += row[j] * state[j];", "C09")
m("C09-ark-offset", PH, "                i * self.round_params[param_index].t,", "                i * (inp.len() + 1).min(8),", "C09")
m("C09-be-read", UT, "        Fr::from(BigUint::from_bytes_le(&input[0..el_size])),", "        Fr::from(BigUint::from_bytes_be(&input[0..el_size])),", "C09")

GR = "rln/src/circuit/iden3calc/graph.rs"
STO = "rln/src/circuit/iden3calc/storage.rs"
CALC = "rln/src/circuit/iden3calc.rs"
# ---- C20
m("C20-lt-gt-swapped-enc", GR, "            Operation::Lt => proto::DuoOp::Lt,\n            Operation::Gt => proto::DuoOp::Gt,", "            Operation::Lt => proto::DuoOp::Gt,\n            Operation::Gt => proto::DuoOp::Lt,", "C20")
m("C20-bc-swapped-dec", STO, "                    tres_op_node.b_idx as usize,\n                    tres_op_node.c_idx as usize,", "                    tres_op_node.c_idx as usize,\n                    tres_op_node.b_idx as usize,", "C20")
m("C20-tres-operands-swapped", GR, "op.eval_fr(values[a], values[b], values[c])", "op.eval_fr(values[a], values[c], values[b])", "C20")
m("C20-const-be-writer", STO, "value_le: bi.to_bytes_le(),", "value_le: bi.to_bytes_be(),", "C20")
m("C20-populate-len-guard-weakened", CALC, "        if len != value.len() {", "        if len < value.len() {", "C20")
m("C20-uno-id-dec", STO, "            proto::UnoOp::Id => UnoOperation::Id,", "            proto::UnoOp::Id => UnoOperation::Neg,", "C20")


def main():
    os.makedirs(OUT, exist_ok=True)
    pref = sys.argv[1] if len(sys.argv) > 1 else ""
    assert subprocess.check_output(["git", "-C", REPO, "status", "--porcelain"], text=True).strip() == "", "/repo not clean"
    for name, file, old, new, prop in M:
        if not name.startswith(pref):
            continue
        p = os.path.join(REPO, file)
        s = open(p).read()
        if s.count(old) < 1:
            print("PATTERN MISSING", name)
            continue
        open(p, "w").write(s.replace(old, new, 1))
        d = subprocess.check_output(["git", "-C", REPO, "diff"], text=True)
        open(os.path.join(OUT, name + ".patch"), "w").write(d)
        subprocess.check_call(["git", "-C", REPO, "checkout", "--", "."])
        print("wrote", name)


if __name__ == "__main__":
    main()
