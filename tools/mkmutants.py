#!/usr/bin/env python3
"""(Re)generates /verif/mutants/*.patch from small source edits against /repo HEAD. Each mutant compiles and breaks one property.
usage: tools/mkmutants.py [name-prefix]"""
import subprocess, sys, os
REPO = os.environ.get("ZK_REPO", "/repo")
OUT = "/verif/mutants"
M = []


def m(name, file, old, new, prop):
    M.append((name, file, old, new, prop))


PROTO = "rln/src/protocol.rs"
PUB = "rln/src/public.rs"
HASH = "rln/src/hashers.rs"
PH = "utils/src/poseidon/poseidon_hash.rs"
UT = "rln/src/utils.rs"
FFI = "rln/src/ffi.rs"

# ---- C09
m("C09-rp-arity5", HASH, "(5, 8, 60, 0),", "(5, 8, 56, 0),", "C09")
m("C09-special-case-t5", PH, "        let mut state = vec![F::ZERO; t];", "        let t = if t == 5 { 4 } else { t };\n        let mut state = vec![F::ZERO; inp.len() + 1];", "C09")
m("C09-first-block-only", HASH, "    hasher.update(signal);\n    hasher.finalize(&mut hash);", "    hasher.update(&signal[..signal.len().min(136)]);\n    hasher.finalize(&mut hash);", "C09")
m("C09-sbox-boundary", PH, "if (i < n_rounds_f / 2) || (i >= n_rounds_f / 2 + n_rounds_p)", "if (i < n_rounds_f / 2) || (i > n_rounds_f / 2 + n_rounds_p)", "C09")
m("C09-mix-skip-last", PH, "            for j in 0..state.len() {\n                acc += row[j] * state[j];", "            for j in 0..state.len().min(8) {\n                acc += row[j] * state[j];", "C09")
m("C09-ark-offset", PH, "                i * self.round_params[param_index].t,", "                i * (inp.len() + 1).min(8),", "C09")
m("C09-be-read", UT, "        Fr::from(BigUint::from_bytes_le(&input[0..el_size])),", "        Fr::from(BigUint::from_bytes_be(&input[0..el_size])),", "C09")

GR = "rln/src/circuit/iden3calc/graph.rs"
STO = "rln/src/circuit/iden3calc/storage.rs"
CALC = "rln/src/circuit/iden3calc.rs"
# ---- C20
m("C20-lt-gt-swapped-enc", GR, "            Operation::Lt => proto::DuoOp::Lt,\n            Operation::Gt => proto::DuoOp::Gt,", "            Operation::Lt => proto::DuoOp::Gt,\n            Operation::Gt => proto::DuoOp::Lt,", "C20")
m("C20-bc-swapped-dec", STO, "                    tres_op_node.b_idx as usize,\n                    tres_op_node.c_idx as usize,", "                    tres_op_node.c_idx as usize,\n                    tres_op_node.b_idx as usize,", "C20")
m("C20-tres-operands-swapped", GR, "op.eval_fr(values[a], values[b], values[c])", "op.eval_fr(values[a], values[c], values[b])", "C20")
m("C20-const-be-writer", STO, "value_le: bi.to_bytes_le(),", "value_le: bi.to_bytes_be(),", "C20")
m("C20-populate-len-guard-weakened", CALC, "        if len != value.len() {", "        if len < value.len() {", "C20")
m("C20-uno-id-dec", STO, "            proto::UnoOp::Id => UnoOperation::Id,", "            proto::UnoOp::Id => UnoOperation::Neg,", "C20")

# ---- C19
m("C19-bor-gt", GR, "    if d >= Fr::MODULUS {\n        d.sub_with_borrow(&Fr::MODULUS);\n    }\n\n    Fr::from_bigint(d).unwrap()\n}\n\nfn bit_xor", "    if d > Fr::MODULUS {\n        d.sub_with_borrow(&Fr::MODULUS);\n    }\n\n    Fr::from_bigint(d).unwrap()\n}\n\nfn bit_xor", "C19")
m("C19-ult-table", GR, "        (false, false) => U256::from(a < b),\n        (true, false) => uint!(1_U256),\n        (false, true) => uint!(0_U256),", "        (false, false) => U256::from(a < b),\n        (true, false) => uint!(0_U256),\n        (false, true) => uint!(1_U256),", "C19")
m("C19-ugt-plain", GR, "        (true, true) => U256::from(a > b),", "        (true, true) => U256::from(a >= b),", "C19")
m("C19-mod-unguarded", GR, "            Mod => {\n                if b.is_zero() {\n                    Fr::zero()\n                } else {\n                    let a_u256 = fr_to_u256(&a);\n                    let b_u256 = fr_to_u256(&b);\n                    u256_to_fr(&(a_u256 % b_u256))\n                }\n            }", "            Mod => {\n                let a_u256 = fr_to_u256(&a);\n                let b_u256 = fr_to_u256(&b);\n                u256_to_fr(&(a_u256 % b_u256))\n            }", "C19")
m("C19-mont-accepts-pow", GR, "                | Shl | Shr | Bor | Band | Bxor,\n                ..,\n            ) => (),\n            Op(op @ Pow, ..) => unimplemented!(\"Operators Montgomery form: {:?}\", op),", "                | Shl | Shr | Bor | Band | Bxor | Pow,\n                ..,\n            ) => (),", "C19")
m("C19-halfm", GR, "uint!(10944121435919637611123202872628637544274182200208017171849102093287904247808_U256);", "uint!(10944121435919637611123202872628637544274182200208017171849102093287904247809_U256);", "C19")
m("C19-shl-no-mask", GR, "    a.0[3] &= (1u64 << 62) - 1;\n", "", "C19")
m("C19-shr-guard-1000", GR, "    match b.cmp(&Fr::from(254u64)) {", "    match b.cmp(&Fr::from(1000u64)) {", "C19")
m("C19-benign-shr-guard-256", GR, "    match b.cmp(&Fr::from(254u64)) {", "    match b.cmp(&Fr::from(256u64)) {", "C19")
m("C19-neg-unguarded", GR, "                if a.is_zero() {\n                    Fr::zero()\n                } else {\n                    let mut x = Fr::MODULUS;\n                    x.sub_with_borrow(&a.into_bigint());\n                    Fr::from_bigint(x).unwrap()\n                }", "                let mut x = Fr::MODULUS;\n                x.sub_with_borrow(&a.into_bigint());\n                Fr::from_bigint(x).unwrap()", "C19")

PMA = "rln/src/pm_tree_adapter.rs"
SLED = "utils/src/pm_tree/sled_adapter.rs"
# ---- C16
m("C16-metadata-put-dropped", PMA, "        self.tree.db.put(METADATA_KEY, metadata.to_vec())?;", "        let _ = self.tree.db.put(METADATA_KEY, metadata.to_vec());", "C16")
m("C16-close-flush-unchecked", SLED, "                \"Cannot flush database\".to_string(),\n            ))\n        })?;", "                \"Cannot flush database\".to_string(),\n            ))\n        });", "C16")
m("C16-put-err-ok", SLED, "            Ok(_) => Ok(()),\n            Err(_e) => Err(PmtreeErrorKind::TreeError(TreeErrorKind::InvalidKey)),", "            Ok(_) => Ok(()),\n            Err(_e) => Ok(()),", "C16")
m("C16-batch-ok", SLED, "            .map_err(|_| PmtreeErrorKind::TreeError(TreeErrorKind::InvalidKey))?;\n        Ok(())", "            .ok();\n        Ok(())", "C16")
m("C16-config-keys-swapped", PMA, "        let temporary = config[\"temporary\"].as_bool();", "        let temporary = config[\"use_compression\"].as_bool();", "C16")
m("C16-mode-lowspace", PMA, "            Some(\"LowSpace\") => Mode::LowSpace,", "            Some(\"LowSpace\") => Mode::HighThroughput,", "C16")
m("C16-flush-noop", PUB, "    pub fn flush(&mut self) -> Result<()> {\n        self.tree.close_db_connection()", "    pub fn flush(&mut self) -> Result<()> {\n        let _ = &self.tree;\n        Ok(())", "C16")
m("C16-create-default-config", PMA, "                pmtree::MerkleTree::new(depth, config.0)?\n", "                pmtree::MerkleTree::new(depth, PmtreeConfig::default().0)?\n", "C16")
m("C16-load-unrecovered", SLED, "        if !db.was_recovered() {", "        if false && !db.was_recovered() {", "C16")
m("C16-delete-err-swallowed", PMA, "        self.tree\n            .delete(index)\n            .map_err(|e| Report::msg(e.to_string()))?;", "        self.tree\n            .delete(index)\n            .map_err(|e| Report::msg(e.to_string()))\n            .unwrap_or_default();", "C16")

PT = "rln/src/poseidon_tree.rs"
CM = "rln/src/circuit/mod.rs"
# ---- C17
m("C17-fullmerkletree-broken", PT, "    if #[cfg(all(feature = \"pmtree-ft\", not(feature = \"fullmerkletree\")))] {", "    if #[cfg(feature = \"pmtree-ft\")] {", "C17")
m("C17-optimal-selects-full", PT, "        pub type PoseidonTree = OptimalMerkleTree<PoseidonHash>;\n        pub type MerkleProof = OptimalMerkleProof<PoseidonHash>;", "        pub type PoseidonTree = FullMerkleTree<PoseidonHash>;\n        pub type MerkleProof = FullMerkleProof<PoseidonHash>;", "C17")
m("C17-pmtree-default-leaf", PMA, "    fn default_leaf() -> Self::Fr {\n        Fr::from(0)\n    }", "    fn default_leaf() -> Self::Fr {\n        Fr::from(1)\n    }", "C17")
m("C17-arkzkey-raw-uses-zkey", CM, "        #[cfg(feature = \"arkzkey\")]\n        () => read_arkzkey_from_bytes_uncompressed(zkey_data)?,", "        #[cfg(feature = \"arkzkey\")]\n        () => {\n            let mut reader = std::io::Cursor::new(zkey_data);\n            crate::circuit::zkey::read_zkey(&mut reader)?\n        }", "C17")
m("C17-utils-hash-reversed", HASH, "    fn hash(inputs: &[Self::Fr]) -> Self::Fr {\n        poseidon_hash(inputs)\n    }", "    fn hash(inputs: &[Self::Fr]) -> Self::Fr {\n        let mut v = inputs.to_vec();\n        v.reverse();\n        poseidon_hash(&v)\n    }", "C17")

QAP = "rln/src/circuit/qap.rs"
# ---- C18
m("C18-static-mut-counter", HASH, "pub fn poseidon_hash(input: &[Fr]) -> Fr {", "static mut CALLS: u64 = 0;\n\npub fn poseidon_hash(input: &[Fr]) -> Fr {\n    unsafe {\n        CALLS += 1;\n    }", "C18")
m("C18-retry-unbounded", SLED, "        if tries >= 10 {", "        if tries >= 10 && false {", "C18")
m("C18-retry-no-increment", SLED, "                Self::new_with_tries(config, tries + 1)", "                Self::new_with_tries(config, tries)", "C18")
m("C18-mutex-cache-static", HASH, "pub fn hash_to_field(signal: &[u8]) -> Fr {", "static LAST: std::sync::Mutex<Option<(Vec<u8>, Fr)>> = std::sync::Mutex::new(None);\n\npub fn hash_to_field(signal: &[u8]) -> Fr {\n    if let Some((s, f)) = LAST.lock().unwrap().as_ref() {\n        if s.as_slice() == signal {\n            return *f;\n        }\n    }", "C18")

# ---- C05
m("C05-global-cache", CALC, "    let (nodes, signals, input_mapping): (Vec<Node>, Vec<usize>, InputSignalsInfo) =\n        deserialize_witnesscalc_graph(std::io::Cursor::new(graph_data)).unwrap();", "    static CACHE: std::sync::Mutex<Option<(usize, Vec<Node>, Vec<usize>, InputSignalsInfo)>> = std::sync::Mutex::new(None);\n    let mut guard = CACHE.lock().unwrap();\n    if guard.as_ref().map(|c| c.0) != Some(graph_data.len()) {\n        let (n, s, m) = deserialize_witnesscalc_graph(std::io::Cursor::new(graph_data)).unwrap();\n        *guard = Some((graph_data.len(), n, s, m));\n    }\n    let (_, nodes, signals, input_mapping) = guard.clone().unwrap();", "C05")
m("C05-hashmap-order-dependent", CALC, "        for (i, v) in value.iter().enumerate() {\n            input_buffer[offset + i] = *v;\n        }", "        for (i, v) in value.iter().enumerate() {\n            input_buffer[offset + i] = *v;\n        }\n        if len == 0 {\n            input_buffer[offset] = U256::ZERO;\n        }", "C05")
m("C05-time-seeded", CALC, "    let mut inputs_buffer = get_inputs_buffer(get_inputs_size(&nodes));", "    let mut inputs_buffer = get_inputs_buffer(get_inputs_size(&nodes));\n    if std::env::var(\"RLN_DEBUG_INPUTS\").is_ok() {\n        inputs_buffer[0] = U256::from(1);\n    }", "C05")

# ---- C12
m("C12-range-check-gt", PROTO, "    if message_id >= user_message_limit {", "    if message_id > user_message_limit {", "C12")
m("C12-witness-prefix-guard-removed", PROTO, "    if serialized.len() < 3 * fr_byte_size() {\n        return Err(Report::msg(\"serialized witness is too short\"));\n    }\n", "", "C12")
m("C12-tail-guard-weakened", PROTO, "    if serialized.len() - all_read < 2 * fr_byte_size() {", "    if serialized.len() - all_read < fr_byte_size() {", "C12")
m("C12-proof-expect", PROTO, "    let merkle_proof = tree.proof(id_index)?;", "    let merkle_proof = tree.proof(id_index).expect(\"proof should exist\");", "C12")
m("C12-shape-check-dropped", PROTO, "    merkle_path_shape_check(\n        &rln_witness.path_elements,\n        &rln_witness.identity_path_index,\n    )?;\n\n    // y share", "\n    // y share", "C12")
m("C12-vec-fr-guard-off", UT, "    if len > (input.len() - 8) / el_size {", "    if len > input.len() / el_size {", "C12")
m("C12-signal-len-guard-off-by-prefix", PROTO, "    if signal_len > serialized.len() - all_read {\n        return Err(Report::msg(\"signal length exceeds input data\"));\n    }\n    let signal: Vec<u8> = serialized[all_read..all_read + signal_len].to_vec();\n\n    let merkle_proof", "    if signal_len > serialized.len() {\n        return Err(Report::msg(\"signal length exceeds input data\"));\n    }\n    let signal: Vec<u8> = serialized[all_read..all_read + signal_len].to_vec();\n\n    let merkle_proof", "C12")
m("C12-binary-check-weakened", PROTO, "    if identity_path_index.iter().any(|direction| *direction > 1) {", "    if identity_path_index.iter().any(|direction| *direction > 2) {", "C12")

# ---- C01
m("C01-index-masked", PROTO, "    let merkle_proof = tree.proof(id_index)?;", "    let merkle_proof = tree.proof(id_index & 0x7ffff)?;", "C01")
m("C01-values-from-other-witness", PUB, "        let (rln_witness, _) = deserialize_witness(&serialized_witness)?;\n        let proof_values = proof_values_from_witness(&rln_witness)?;\n\n        let proof = generate_proof(&self.proving_key, &rln_witness, &self.graph_data)?;", "        let (rln_witness, _) = deserialize_witness(&serialized_witness)?;\n        let proof_values = proof_values_from_witness(&rln_witness)?;\n        let (rln_witness, _) = deserialize_witness(&serialize_witness(&rln_witness)?)?;\n\n        let proof = generate_proof(&self.proving_key, &rln_witness, &self.graph_data)?;", "C01")
m("C01-vk-from-bundled", PUB, "        let proving_key = zkey_from_raw(&zkey_vec)?;\n        let verification_key = proving_key.0.vk.to_owned();\n\n        let mut tree_config_vec", "        let proving_key = zkey_from_raw(&zkey_vec)?;\n        let verification_key = zkey_from_folder().0.vk.to_owned();\n\n        let mut tree_config_vec", "C01")
m("C01-signal-truncated", PROTO, "    let x = hash_to_field(&signal);\n\n    Ok((\n        RLNWitnessInput {\n            identity_secret,\n            path_elements,", "    let x = hash_to_field(&signal[..signal.len().min(1 << 16)]);\n\n    Ok((\n        RLNWitnessInput {\n            identity_secret,\n            path_elements,", "C01")
m("C01-limit-id-swapped-inputs", PROTO, "        (\"userMessageLimit\", vec![rln_witness.user_message_limit]),\n        (\"messageId\", vec![rln_witness.message_id]),", "        (\"userMessageLimit\", vec![rln_witness.message_id]),\n        (\"messageId\", vec![rln_witness.user_message_limit]),", "C01")
m("C01-output-order", PUB, "        proof.serialize_compressed(&mut output_data)?;\n        output_data.write_all(&serialize_proof_values(&proof_values))?;\n\n        Ok(())\n    }\n\n    /// Generate RLN Proof using a witness calculated from outside zerokit\n    ///\n    /// output_data is  [", "        output_data.write_all(&serialize_proof_values(&proof_values))?;\n        proof.serialize_compressed(&mut output_data)?;\n\n        Ok(())\n    }\n\n    /// Generate RLN Proof using a witness calculated from outside zerokit\n    ///\n    /// output_data is  [", "C01")

FMT = "utils/src/merkle_tree/full_merkle_tree.rs"
OMT = "utils/src/merkle_tree/optimal_merkle_tree.rs"
# ---- C07
m("C07-full-branch-inverted", FMT, "                1 => FullMerkleBranch::Left(self.nodes[index + 1]),\n                0 => FullMerkleBranch::Right(self.nodes[index - 1]),", "                1 => FullMerkleBranch::Right(self.nodes[index + 1]),\n                0 => FullMerkleBranch::Left(self.nodes[index - 1]),", "C07")
m("C07-full-pathindex-inverted", FMT, "                FullMerkleBranch::Left(_) => 0,\n                FullMerkleBranch::Right(_) => 1,", "                FullMerkleBranch::Left(_) => 1,\n                FullMerkleBranch::Right(_) => 0,", "C07")
m("C07-optimal-bit-inverted", OMT, "            witness.push((self.get_node(depth, i), (1 - (i & 1)).try_into().unwrap()));", "            witness.push((self.get_node(depth, i), (i & 1).try_into().unwrap()));", "C07")
m("C07-optimal-root-operands", OMT, "            if w.1 == 0 {\n                acc = H::hash(&[acc, w.0]);\n            } else {\n                acc = H::hash(&[w.0, acc]);", "            if w.1 == 0 {\n                acc = H::hash(&[w.0, acc]);\n            } else {\n                acc = H::hash(&[acc, w.0]);", "C07")
m("C07-optimal-leaf-index-no-reverse", OMT, "        binary_repr.reverse();\n", "", "C07")
m("C07-export-order-swapped", PUB, "        output_data.write_all(&vec_fr_to_bytes_le(&path_elements)?)?;\n        output_data.write_all(&vec_u8_to_bytes_le(&identity_path_index)?)?;", "        output_data.write_all(&vec_u8_to_bytes_le(&identity_path_index)?)?;\n        output_data.write_all(&vec_fr_to_bytes_le(&path_elements)?)?;", "C07")
m("C07-full-verify-always", FMT, "        Ok(proof.compute_root_from(hash) == self.root())", "        Ok(proof.compute_root_from(hash) == self.root() || proof.length() == 0)", "C07")
m("C07-get-proof-expect", PUB, "        let merkle_proof = self.tree.proof(index)?;", "        let merkle_proof = self.tree.proof(index).expect(\"proof should exist\");", "C07")
m("C07-optimal-capacity-guard-off", OMT, "    fn proof(&self, index: usize) -> Result<Self::Proof> {\n        if index >= self.capacity() {", "    fn proof(&self, index: usize) -> Result<Self::Proof> {\n        if index > self.capacity() {", "C07")

# ---- C15
m("C15-pm-set-range-flags", PMA, "        for i in start..start + v.len() {", "        for i in start..v.len() {", "C15")
m("C15-pm-update-next-no-flag", PMA, "        self.cached_leaves_indices[index] = 1;\n        Ok(())\n    }\n\n    fn delete", "        let _ = index;\n        Ok(())\n    }\n\n    fn delete", "C15")
m("C15-pm-reopen-no-rebuild", PMA, "            if tree.get(i)? != Self::Hasher::default_leaf() {\n                *flag = 1;\n            }", "            let _ = (i, flag);", "C15")
m("C15-pm-delete-keeps-flag", PMA, "            .map_err(|e| Report::msg(e.to_string()))?;\n        self.cached_leaves_indices[index] = 0;", "            .map_err(|e| Report::msg(e.to_string()))?;", "C15")
m("C15-opt-set-no-flag", OMT, "        self.next_index = max(self.next_index, index + 1);\n        self.cached_leaves_indices[index] = 1;", "        self.next_index = max(self.next_index, index + 1);", "C15")
m("C15-opt-set-range-flag-shift", OMT, "            self.cached_leaves_indices[start + i] = 1;", "            self.cached_leaves_indices[i] = 1;", "C15")
m("C15-full-listing-no-take", FMT, "            .take(self.next_index)\n", "", "C15")
m("C15-full-delete-flag-only", FMT, "            self.set(index, H::default_leaf())?;\n            self.cached_leaves_indices[index] = 0;", "            self.cached_leaves_indices[index] = 0;", "C15")
m("C15-opt-override-direct-flags", OMT, "        for &i in indices.iter().filter(|&&i| i < start || i >= end) {\n            self.delete(i)?;\n        }", "        for &i in indices.iter().filter(|&&i| i < start || i >= end) {\n            self.cached_leaves_indices[i] = 0;\n        }", "C15")
m("C15-pm-listing-filter-ones", PMA, "            .filter(|&(_, &v)| v == 0u8)", "            .filter(|&(_, &v)| v != 1u8 && v != 2u8)", "C15-benign")

# ---- C06
m("C06-full-delete-guard-gt", FMT, "        if index < self.next_index {\n            self.set(index, H::default_leaf())?;", "        if index <= self.next_index {\n            self.set(index, H::default_leaf())?;", "C06")
m("C06-opt-hash-couple-shortcut", OMT, "        let b = index & !1;\n        H::hash(", "        let b = index & !1;\n        if !self.nodes.contains_key(&(depth, b)) {\n            return self.cached_nodes[depth - 1];\n        }\n        H::hash(", "C06")
m("C06-opt-set-write-before-guard", OMT, "        if index >= self.capacity() {\n            return Err(Report::msg(\"index exceeds set size\"));\n        }\n        self.nodes.insert((self.depth, index), leaf);", "        self.nodes.insert((self.depth, index), leaf);\n        if index >= self.capacity() {\n            return Err(Report::msg(\"index exceeds set size\"));\n        }", "C06")
m("C06-opt-highwater-ignores-start", OMT, "        self.next_index = max(self.next_index, start + leaves_len);", "        self.next_index = max(self.next_index, leaves_len);", "C06")
m("C06-full-update-nodes-child", FMT, "                self.nodes[parent] = H::hash(&[self.nodes[child], self.nodes[child + 1]]);", "                self.nodes[parent] = H::hash(&[self.nodes[child + 1], self.nodes[child]]);", "C06")
m("C06-init-tree-reset-first", PUB, "        let mut tree = PoseidonTree::default(self.tree.depth())?;\n        tree.override_range(0, leaves.into_iter(), [].into_iter())\n            .map_err(|_| Report::msg(\"Could not set leaves\"))?;\n        self.tree = tree;", "        self.tree = PoseidonTree::default(self.tree.depth())?;\n        self.tree\n            .override_range(0, leaves.into_iter(), [].into_iter())\n            .map_err(|_| Report::msg(\"Could not set leaves\"))?;", "C06")
m("C06-pm-set-flag-before-write", PMA, "        self.tree\n            .set(index, leaf)\n            .map_err(|e| Report::msg(e.to_string()))?;\n        self.cached_leaves_indices[index] = 1;", "        self.cached_leaves_indices[index] = 1;\n        self.tree\n            .set(index, leaf)\n            .map_err(|e| Report::msg(e.to_string()))?;", "C06")
m("C06-opt-override-validate-after", OMT, "        if indices.iter().any(|&i| i >= self.capacity()) {\n            return Err(Report::msg(\"index to remove exceeds set size\"));\n        }\n        let end = start + leaves_vec.len();", "        let end = start + leaves_vec.len();", "C06-or-C08")
m("C06-opt-update-hashes-last-exclusive", OMT, "            for parent_index in first..=last {", "            for parent_index in first..last {", "C06")
m("C06-opt-update-hashes-halfwidth", OMT, "            first >>= 1;\n            last >>= 1;", "            first >>= 1;\n            last = (last >> 1).min((1usize << (depth - 1)) / 2);", "C06")
m("C06-full-update-nodes-early-exit", FMT, "            self.update_nodes(start, end)?;", "            if start != end {\n                self.update_nodes(start, end)?;\n            }", "C06")
# ---- C08
m("C08-opt-filter-inclusive", OMT, "        for &i in indices.iter().filter(|&&i| i < start || i >= end) {", "        for &i in indices.iter().filter(|&&i| i < start || i > end) {", "C08")
m("C08-full-write-at-min", FMT, "        self.set_range(start, leaves_vec.into_iter())\n    }\n\n    // Sets a leaf at the next available index", "        self.set_range(indices[0].min(start), leaves_vec.into_iter())\n    }\n\n    // Sets a leaf at the next available index", "C08")
m("C08-pm-guard-removed", PMA, "        if indices.iter().any(|&i| i >= capacity) {\n            return Err(Report::msg(\"index to remove exceeds set size\"));\n        }\n", "", "C08")
m("C08-pm-min-guard-removed", PMA, "                if indices[0] > start {\n                    return Err(Report::msg(\n                        \"removals inside or after the written range are not supported together with a write\",\n                    ));\n                }\n", "", "C08")
m("C08-atomic-indices-masked", PUB, "        let indices: Vec<usize> = indices.iter().map(|x| *x as usize).collect();", "        let indices: Vec<usize> = indices.iter().map(|x| (*x & 0x7f) as usize).collect();", "C08")
m("C08-set-leaves-from-zero", PUB, "            .override_range(index, leaves.into_iter(), [].into_iter())\n            .map_err(|_| Report::msg(\"Could not set leaves\"))?;\n        Ok(())", "            .override_range(index.min(1 << 19), leaves.into_iter(), [].into_iter())\n            .map_err(|_| Report::msg(\"Could not set leaves\"))?;\n        Ok(())", "C08")
m("C08-pm-remove-span-defaults", PMA, "            if indices.contains(&i) {\n                new_leaves.push(PmTreeHasher::default_leaf());\n            } else {\n                new_leaves.push(self.tree.get(i)?);\n            }", "            new_leaves.push(PmTreeHasher::default_leaf());", "C08")

# ---- C02
m("C02-rln-proof-root-or", PUB, "        Ok(verified && (self.tree.root() == proof_values.root) && (x == proof_values.x))", "        Ok(verified && ((self.tree.root() == proof_values.root) || (x == proof_values.x)))", "C02")
m("C02-roots-skip-when-single", PUB, "        let roots_verified: bool = if roots.is_empty() {", "        let roots_verified: bool = if roots.len() <= 1 {", "C02")
m("C02-x-not-bound", PUB, "        let partial_result = verified && (x == proof_values.x);", "        let partial_result = verified && (x == proof_values.x || signal.is_empty());", "C02")
m("C02-verify-public-order", PROTO, "    // We re-arrange proof-values according to the circuit specification\n    let inputs = vec![\n        proof_values.y,\n        proof_values.root,", "    // We re-arrange proof-values according to the circuit specification\n    let inputs = vec![\n        proof_values.root,\n        proof_values.y,", "C02")
# ---- C03
m("C03-zero-guard-on-y", PROTO, "    if x1 == x2 {\n        return Err(\"cannot recover", "    if y1 == y2 {\n        return Err(\"cannot recover", "C03")
m("C03-a0-uses-x2", PROTO, "    let a_0 = y1 - x1 * a_1;", "    let a_0 = y1 - x2 * a_1;", "C03")
m("C03-recover-ignores-external-nullifier", PUB, "        if external_nullifier_1 == external_nullifier_2 {\n            // We extract the two shares", "        if external_nullifier_1 == external_nullifier_2 || proof_values_1.nullifier == proof_values_2.nullifier {\n            // We extract the two shares", "C03")
m("C03-nullifier-hashes-a0", PROTO, "    // Nullifier\n    let nullifier = poseidon_hash(&[a_1]);", "    // Nullifier\n    let nullifier = poseidon_hash(&[a_0]);", "C03")
# ---- C04
m("C04-y-uses-message-id", PROTO, "    let y = a_0 + rln_witness.x * a_1;", "    let y = a_0 + rln_witness.message_id * a_1;", "C04")
m("C04-root-branch-swapped", PROTO, "        if identity_path_index[i] == 0 {\n            root = poseidon_hash(&[root, path_elements[i]]);", "        if identity_path_index[i] != 0 {\n            root = poseidon_hash(&[root, path_elements[i]]);", "C04")
m("C04-leaf-without-limit", PROTO, "    let mut root = poseidon_hash(&[id_commitment, *user_message_limit]);", "    let mut root = poseidon_hash(&[id_commitment, *identity_secret]);", "C04")
m("C04-a1-order", PROTO, "    let a_1 = poseidon_hash(&[a_0, rln_witness.external_nullifier, rln_witness.message_id]);", "    let a_1 = poseidon_hash(&[a_0, rln_witness.message_id, rln_witness.external_nullifier]);", "C04")
# ---- C10
m("C10-proof-values-y-x-swapped-writer", PROTO, "    serialized.extend_from_slice(&fr_to_bytes_le(&rln_proof_values.x));\n    serialized.extend_from_slice(&fr_to_bytes_le(&rln_proof_values.y));", "    serialized.extend_from_slice(&fr_to_bytes_le(&rln_proof_values.y));\n    serialized.extend_from_slice(&fr_to_bytes_le(&rln_proof_values.x));", "C10")
m("C10-fr-resize-31", UT, "    res.resize(fr_byte_size(), 0);\n    res\n}", "    res.resize(fr_byte_size() - 1, 0);\n    res.push(0);\n    res\n}", "C10")
m("C10-witness-trailing-accepted", PROTO, "    if serialized.len() != all_read {\n        return Err(Report::msg(\"serialized length is not equal to all_read\"));", "    if serialized.len() < all_read {\n        return Err(Report::msg(\"serialized length is not equal to all_read\"));", "C10")
m("C10-vec-len-u32", UT, "    let len = usize::try_from(u64::from_le_bytes(input[0..8].try_into()?))?;\n    read += 8;\n\n    if len > input.len() - 8 {", "    let len = usize::try_from(u32::from_le_bytes(input[0..4].try_into()?))?;\n    read += 8;\n\n    if len > input.len() - 8 {", "C10")
# ---- C11
m("C11-output-on-err", FFI, "                Err(err) => {\n                    std::mem::forget(output_data);\n                    eprintln!(\"execution error: {err}\");\n                    false\n                }\n            }\n        }\n    };\n    ($instance:expr, $method:ident, $output_arg:expr, $( $arg:expr ),* ) => {", "                Err(err) => {\n                    unsafe { *$output_arg = Buffer::from(&output_data[..]) };\n                    std::mem::forget(output_data);\n                    eprintln!(\"execution error: {err}\");\n                    false\n                }\n            }\n        }\n    };\n    ($instance:expr, $method:ident, $output_arg:expr, $( $arg:expr ),* ) => {", "C11")
m("C11-get-leaf-calls-get-root", FFI, "    call_with_output_arg!(ctx, get_leaf, output_buffer, index)", "    let _ = index;\n    call_with_output_arg!(ctx, get_root, output_buffer)", "C11")
m("C11-verify-bool-negated", FFI, "    call_with_bool_arg!(ctx, verify, proof_is_valid_ptr, proof_buffer)", "    let r = call_with_bool_arg!(ctx, verify, proof_is_valid_ptr, proof_buffer);\n    unsafe { *proof_is_valid_ptr = !*proof_is_valid_ptr };\n    r", "C11")
m("C11-set-leaf-index-off", FFI, "    call!(ctx, set_leaf, index, input_buffer)", "    call!(ctx, set_leaf, index.saturating_sub(1), input_buffer)", "C11")
# ---- C13
m("C13-verify-len-guard-short", PUB, "        if input_byte.len() < 128 + 5 * fr_byte_size() {\n            return Err(Report::msg(\"input data is too short\"));", "        if input_byte.len() < 128 + 4 * fr_byte_size() {\n            return Err(Report::msg(\"input data is too short\"));", "C13")
m("C13-canonical-check-dropped-verify", PUB, "        if serialize_proof_values(&proof_values) != input_byte[128..128 + read] {\n            return Err(Report::msg(\"non-canonical encoding of proof values\"));\n        }\n\n        let verified = verify_proof(&self.verification_key, &proof, &proof_values)?;\n\n        Ok(verified)", "        let _ = read;\n\n        let verified = verify_proof(&self.verification_key, &proof, &proof_values)?;\n\n        Ok(verified)", "C13")
m("C13-recover-guard-second-input", PUB, "        if serialized.len() < 128 + 5 * fr_byte_size() {\n            return Err(Report::msg(\"input proof data 2 is too short\"));\n        }\n", "", "C13")
m("C13-signal-len-guard-inclusive", PUB, "        if signal_len > serialized.len() - all_read {\n            return Err(Report::msg(\"signal length exceeds input data\"));\n        }\n        let signal: Vec<u8> = serialized[all_read..all_read + signal_len].to_vec();\n\n        let verified = verify_proof(&self.verification_key, &proof, &proof_values)?;\n        let x = hash_to_field(&signal);", "        if signal_len > serialized.len() {\n            return Err(Report::msg(\"signal length exceeds input data\"));\n        }\n        let signal: Vec<u8> = serialized[all_read..all_read + signal_len].to_vec();\n\n        let verified = verify_proof(&self.verification_key, &proof, &proof_values)?;\n        let x = hash_to_field(&signal);", "C13")

# ---- later additions (R16-4, R06-4/5, R08-6, witness calculator)
SLED = "utils/src/pm_tree/sled_adapter.rs"
m("C16-create-on-any-load-error", PMA, "            // an existing tree that cannot be read must not be re-initialised\n            Err(e) => return Err(Report::msg(e.to_string())),", "            Err(_) => pmtree::MerkleTree::new(depth, config.0)?,", "C16")
m("C16-load-opens-without-retry", SLED, "        let db = Self::new_with_tries(config, 0)?.0;", "        let db = config.open().map_err(|_| PmtreeErrorKind::DatabaseError(DatabaseErrorKind::CannotLoadDatabase))?;", "C16")
m("C16-nothing-stored-for-open-failure", SLED, "                Err(PmtreeErrorKind::DatabaseError(\n                    DatabaseErrorKind::CustomError(format!(\n                        \"Cannot create database: {e} {config:#?}\"\n                    )),\n                ))", "                let _ = e;\n                Err(PmtreeErrorKind::DatabaseError(\n                    DatabaseErrorKind::CannotLoadDatabase,\n                ))", "C16")
m("C18-retry-backoff-linear", SLED, "thread::sleep(Duration::from_millis(10u64.pow(tries)));", "thread::sleep(Duration::from_millis(10u64 * tries as u64));", "C18")
m("C06-pm-set-skips-equal", PMA, "    fn set(&mut self, index: usize, leaf: FrOf<Self::Hasher>) -> Result<()> {\n        self.tree\n            .set(index, leaf)\n            .map_err(|e| Report::msg(e.to_string()))?;", "    fn set(&mut self, index: usize, leaf: FrOf<Self::Hasher>) -> Result<()> {\n        if self.tree.get(index).map_err(|e| Report::msg(e.to_string()))? != leaf {\n            self.tree\n                .set(index, leaf)\n                .map_err(|e| Report::msg(e.to_string()))?;\n        }", "C06")
m("C06-pm-delete-other-index", PMA, "        self.tree\n            .delete(index)\n            .map_err(|e| Report::msg(e.to_string()))?;", "        self.tree\n            .delete(index & !1)\n            .map_err(|e| Report::msg(e.to_string()))?;", "C06")
m("C06-full-subtree-root-start", FMT, "            let mut idx = self.capacity() + index - 1;\n            let mut nd = self.depth;", "            let mut idx = self.capacity() + index;\n            let mut nd = self.depth;", "C06")
m("C06-opt-subtree-root-shift", OMT, "            Ok(self.get_node(n, index >> (self.depth - n)))", "            Ok(self.get_node(n, index >> (self.depth - n - 1)))", "C06")
m("C06-full-parent-formula", FMT, "            Some(((index + 1) >> 1) - 1)", "            Some((index >> 1).saturating_sub(1))", "C06")
m("C08-benign-pm-span-clamped", PMA, "        let end = indices.last().unwrap() + 1;\n\n        // Positions of the span", "        let end = (indices.last().unwrap() + 1).min(self.tree.leaves_set());\n\n        // Positions of the span", "C08")
m("C08-pm-filter-dropped", PMA, "            .filter(|&i| i < next_index)\n", "            .filter(|&i| i < next_index || true)\n", "C08")
m("C08-pm-filter-inclusive", PMA, "            .filter(|&i| i < next_index)\n", "            .filter(|&i| i <= next_index)\n", "C08")
m("C08-pm-empty-guard-dropped", PMA, "        if indices.is_empty() {\n            return Ok(());\n        }\n        let start = indices[0];", "        let start = indices[0];", "C08")
m("C08-pm-span-short", PMA, "        let end = indices.last().unwrap() + 1;\n\n        // Positions of the span", "        let end = *indices.last().unwrap();\n\n        // Positions of the span", "C08")
m("C08-pm-dispatch-unsorted", PMA, "        indices.sort();\n", "", "C08")
m("C08-full-filter-inclusive-range", FMT, "        for &i in indices.iter().filter(|&&i| i < start || i >= end) {", "        for &i in indices.iter().filter(|&i| !(start..=end).contains(i)) {", "C08")
m("C08-benign-filter-as-range", FMT, "        for &i in indices.iter().filter(|&&i| i < start || i >= end) {", "        for &i in indices.iter().filter(|&i| !(start..end).contains(i)) {", "C08")
m("C12-witness-calc-len-check-dropped", CALC, "        if len != value.len() {\n            return Err(Report::msg(format!(\"Invalid input length for {key}\")));\n        }\n", "        let _ = len;\n", "C12")

m("C15-opt-recalculate-sets-flag", OMT, "            self.nodes.insert((depth, i), h);\n            if depth == 0 {", "            self.nodes.insert((depth, i), h);\n            self.cached_leaves_indices[index] = 1;\n            if depth == 0 {", "C15")
m("C15-full-proof-marks-position", FMT, "    fn compute_root(&mut self) -> Result<FrOf<Self::Hasher>> {\n        Ok(self.root())", "    fn compute_root(&mut self) -> Result<FrOf<Self::Hasher>> {\n        self.cached_leaves_indices[0] = 1;\n        Ok(self.root())", "C15")
m("C06-opt-compute-root-bumps-mark", OMT, "        self.recalculate_from(0)?;\n        Ok(self.root())", "        self.recalculate_from(0)?;\n        self.next_index = self.next_index.max(1);\n        Ok(self.root())", "C06")
m("C06-full-capacity-double", FMT, "    fn capacity(&self) -> usize {\n        1 << self.depth\n    }", "    fn capacity(&self) -> usize {\n        2 << self.depth\n    }", "C06")
m("C06-full-set-metadata-appends", FMT, "        self.metadata = metadata.to_vec();\n        Ok(())", "        self.metadata.extend_from_slice(metadata);\n        Ok(())", "C06")

m("C01-proving-touches-tree", PROTO, "    let merkle_proof = tree.proof(id_index)?;\n    let path_elements", "    let merkle_proof = tree.proof(id_index)?;\n    if id_index + 1 == tree.leaves_set() {\n        let _ = tree.set_metadata(&serialized[0..8]);\n    }\n    let path_elements", "C01")

# ---- behaviour-preserving refactors: every check must stay silent on these
m("C10-benign-proof-values-loop", PROTO, "    serialized.extend_from_slice(&fr_to_bytes_le(&rln_proof_values.root));\n    serialized.extend_from_slice(&fr_to_bytes_le(&rln_proof_values.external_nullifier));\n    serialized.extend_from_slice(&fr_to_bytes_le(&rln_proof_values.x));\n    serialized.extend_from_slice(&fr_to_bytes_le(&rln_proof_values.y));\n    serialized.extend_from_slice(&fr_to_bytes_le(&rln_proof_values.nullifier));\n\n    serialized\n}", "    let root = fr_to_bytes_le(&rln_proof_values.root);\n    serialized.extend_from_slice(&root);\n    let en = fr_to_bytes_le(&rln_proof_values.external_nullifier);\n    serialized.extend_from_slice(&en);\n    serialized.extend_from_slice(&fr_to_bytes_le(&rln_proof_values.x));\n    serialized.extend_from_slice(&fr_to_bytes_le(&rln_proof_values.y));\n    serialized.extend_from_slice(&fr_to_bytes_le(&rln_proof_values.nullifier));\n\n    serialized\n}", "C10")
m("C02-benign-roots-any", PUB, "            roots.contains(&proof_values.root)", "            roots.iter().any(|r| *r == proof_values.root)", "C02")
m("C03-benign-commuted-product", PROTO, "    let a_0 = y1 - x1 * a_1;", "    let a_0 = y1 - a_1 * x1;", "C03")
m("C04-benign-commuted-sum", PROTO, "    let y = a_0 + rln_witness.x * a_1;", "    let y = rln_witness.x * a_1 + a_0;", "C04")
m("C13-benign-len-guard-constant", PUB, "        if input_byte.len() < 128 + 5 * fr_byte_size() {\n            return Err(Report::msg(\"input data is too short\"));", "        if input_byte.len() < 288 {\n            return Err(Report::msg(\"input data is too short\"));", "C13")
m("C12-benign-range-check-negated-lt", PROTO, "    if message_id >= user_message_limit {\n        return Err(color_eyre::Report::msg(\n            \"message_id is not within user_message_limit\",", "    if !(message_id < user_message_limit) {\n        return Err(color_eyre::Report::msg(\n            \"message_id is not within user_message_limit\",", "C12")
m("C15-benign-opt-set-flag-before-mark", OMT, "        self.next_index = max(self.next_index, index + 1);\n        self.cached_leaves_indices[index] = 1;\n        Ok(())", "        self.cached_leaves_indices[index] = 1;\n        self.next_index = max(self.next_index, index + 1);\n        Ok(())", "C15")
m("C06-benign-opt-set-flag-before-mark", OMT, "        self.next_index = max(self.next_index, index + 1);\n        self.cached_leaves_indices[index] = 1;\n        Ok(())", "        self.cached_leaves_indices[index] = 1;\n        self.next_index = max(self.next_index, index + 1);\n        Ok(())", "C06")
m("C16-benign-close-map", SLED, "        let _ = self.0.flush().map_err(|_| {\n            PmtreeErrorKind::DatabaseError(DatabaseErrorKind::CustomError(\n                \"Cannot flush database\".to_string(),\n            ))\n        })?;\n        Ok(())", "        self.0.flush().map(|_| ()).map_err(|_| {\n            PmtreeErrorKind::DatabaseError(DatabaseErrorKind::CustomError(\n                \"Cannot flush database\".to_string(),\n            ))\n        })", "C16")
m("C19-benign-bor-not-lt", GR, "    let mut d: BigInt<4> = BigInt::new(c);\n    if d >= Fr::MODULUS {\n        d.sub_with_borrow(&Fr::MODULUS);\n    }\n\n    Fr::from_bigint(d).unwrap()\n}\n\nfn bit_xor", "    let mut d: BigInt<4> = BigInt::new(c);\n    if !(d < Fr::MODULUS) {\n        d.sub_with_borrow(&Fr::MODULUS);\n    }\n\n    Fr::from_bigint(d).unwrap()\n}\n\nfn bit_xor", "C19")
m("C07-benign-opt-leaf-index-rev-fold", OMT, "        let mut binary_repr = self.get_path_index();\n        binary_repr.reverse();\n        binary_repr\n            .into_iter()\n            .fold(0, |acc, digit| (acc << 1) + usize::from(digit))", "        self.get_path_index()\n            .into_iter()\n            .rev()\n            .fold(0usize, |acc, digit| (acc << 1) + usize::from(digit))", "C07")
m("C01-benign-witness-local", PUB, "        let (rln_witness, _) = proof_inputs_to_rln_witness(&mut self.tree, &witness_byte)?;\n        let proof_values = proof_values_from_witness(&rln_witness)?;\n\n        let proof = generate_proof(&self.proving_key, &rln_witness, &self.graph_data)?;", "        let (rln_witness, _) = proof_inputs_to_rln_witness(&mut self.tree, &witness_byte)?;\n        let witness = &rln_witness;\n        let proof = generate_proof(&self.proving_key, witness, &self.graph_data)?;\n        let proof_values = proof_values_from_witness(witness)?;", "C01")
m("C05-benign-populate-index-loop", CALC, "        for (i, v) in value.iter().enumerate() {\n            input_buffer[offset + i] = *v;\n        }", "        for i in 0..value.len() {\n            input_buffer[offset + i] = value[i];\n        }", "C05")
m("C20-benign-populate-index-loop", CALC, "        for (i, v) in value.iter().enumerate() {\n            input_buffer[offset + i] = *v;\n        }", "        for i in 0..value.len() {\n            input_buffer[offset + i] = value[i];\n        }", "C20")
m("C12-benign-populate-index-loop", CALC, "        for (i, v) in value.iter().enumerate() {\n            input_buffer[offset + i] = *v;\n        }", "        for i in 0..value.len() {\n            input_buffer[offset + i] = value[i];\n        }", "C12")
m("C09-benign-hash-to-field-tuple", HASH, "    let (el, _) = bytes_le_to_fr(hash.as_ref());\n    el\n}", "    bytes_le_to_fr(hash.as_ref()).0\n}", "C09")
m("C08-benign-full-end-inline", FMT, "        for &i in indices.iter().filter(|&&i| i < start || i >= end) {", "        for &i in indices.iter().filter(|&&i| i >= end || i < start) {", "C08")
m("C14-benign-keygen-tuple", PROTO, "    let identity_secret_hash = Fr::rand(&mut rng);\n    let id_commitment = poseidon_hash(&[identity_secret_hash]);\n    (identity_secret_hash, id_commitment)\n}\n\n// Generates a tuple (identity_trapdoor", "    let s = Fr::rand(&mut rng);\n    (s, poseidon_hash(&[s]))\n}\n\n// Generates a tuple (identity_trapdoor", "C14")

# ---- behaviour-preserving refactors, second batch
m("C06-benign-full-delete-early-return", FMT, "        if index < self.next_index {\n            self.set(index, H::default_leaf())?;\n            self.cached_leaves_indices[index] = 0;\n        }\n        Ok(())", "        if index >= self.next_index {\n            return Ok(());\n        }\n        self.set(index, H::default_leaf())?;\n        self.cached_leaves_indices[index] = 0;\n        Ok(())", "C06")
m("C17-benign-full-delete-early-return", FMT, "        if index < self.next_index {\n            self.set(index, H::default_leaf())?;\n            self.cached_leaves_indices[index] = 0;\n        }\n        Ok(())", "        if index >= self.next_index {\n            return Ok(());\n        }\n        self.set(index, H::default_leaf())?;\n        self.cached_leaves_indices[index] = 0;\n        Ok(())", "C17")
m("C15-benign-full-delete-early-return", FMT, "        if index < self.next_index {\n            self.set(index, H::default_leaf())?;\n            self.cached_leaves_indices[index] = 0;\n        }\n        Ok(())", "        if index >= self.next_index {\n            return Ok(());\n        }\n        self.set(index, H::default_leaf())?;\n        self.cached_leaves_indices[index] = 0;\n        Ok(())", "C15")
m("C16-benign-put-map", SLED, "        match self.0.insert(key, value) {\n            Ok(_) => Ok(()),\n            Err(_e) => Err(PmtreeErrorKind::TreeError(TreeErrorKind::InvalidKey)),\n        }", "        self.0\n            .insert(key, value)\n            .map(|_| ())\n            .map_err(|_| PmtreeErrorKind::TreeError(TreeErrorKind::InvalidKey))", "C16")
m("C18-benign-retry-bound-gt9", SLED, "        if tries >= 10 {", "        if tries > 9 {", "C18")
m("C15-benign-pm-set-range-slice-flags", PMA, "        for i in start..start + v.len() {\n            self.cached_leaves_indices[i] = 1\n        }", "        for flag in &mut self.cached_leaves_indices[start..start + v.len()] {\n            *flag = 1;\n        }", "C15")
m("C03-benign-recover-early-return", PUB, "        if external_nullifier_1 == external_nullifier_2 {\n            // We extract the two shares", "        if external_nullifier_1 != external_nullifier_2 {\n            return Ok(());\n        }\n        {\n            // We extract the two shares", "C03")
m("C02-benign-rln-proof-named-conjuncts", PUB, "        Ok(verified && (self.tree.root() == proof_values.root) && (x == proof_values.x))", "        let root_ok = self.tree.root() == proof_values.root;\n        let x_ok = x == proof_values.x;\n        Ok(verified && root_ok && x_ok)", "C02")
m("C19-benign-signed-compare-arms-reordered", GR, "        (false, false) => U256::from(a >= b),\n        (true, false) => uint!(0_U256),\n        (false, true) => uint!(1_U256),\n        (true, true) => U256::from(a >= b),", "        (true, true) => U256::from(a >= b),\n        (false, true) => uint!(1_U256),\n        (true, false) => uint!(0_U256),\n        (false, false) => U256::from(a >= b),", "C19")
m("C04-benign-root-before-y", PROTO, "    // y share\n    let a_0 = rln_witness.identity_secret;\n    let a_1 = poseidon_hash(&[a_0, rln_witness.external_nullifier, rln_witness.message_id]);\n    let y = a_0 + rln_witness.x * a_1;\n\n    // Nullifier\n    let nullifier = poseidon_hash(&[a_1]);\n\n    // Merkle tree root computations\n    let root = compute_tree_root(\n        &rln_witness.identity_secret,\n        &rln_witness.user_message_limit,\n        &rln_witness.path_elements,\n        &rln_witness.identity_path_index,\n    );\n", "    // Merkle tree root computations\n    let root = compute_tree_root(\n        &rln_witness.identity_secret,\n        &rln_witness.user_message_limit,\n        &rln_witness.path_elements,\n        &rln_witness.identity_path_index,\n    );\n\n    // y share\n    let a_0 = rln_witness.identity_secret;\n    let a_1 = poseidon_hash(&[a_0, rln_witness.external_nullifier, rln_witness.message_id]);\n    let y = a_0 + rln_witness.x * a_1;\n\n    // Nullifier\n    let nullifier = poseidon_hash(&[a_1]);\n", "C04")
m("C11-benign-buffer-local", FFI, "                Ok(()) => {\n                    unsafe { *$output_arg = Buffer::from(&output_data[..]) };\n                    std::mem::forget(output_data);\n                    true\n                }\n                Err(err) => {\n                    std::mem::forget(output_data);\n                    eprintln!(\"execution error: {err}\");\n                    false\n                }\n            }\n        }\n    };\n    ($instance:expr, $method:ident, $output_arg:expr, $( $arg:expr ),* ) => {", "                Ok(()) => {\n                    let buffer = Buffer::from(&output_data[..]);\n                    unsafe { *$output_arg = buffer };\n                    std::mem::forget(output_data);\n                    true\n                }\n                Err(err) => {\n                    std::mem::forget(output_data);\n                    eprintln!(\"execution error: {err}\");\n                    false\n                }\n            }\n        }\n    };\n    ($instance:expr, $method:ident, $output_arg:expr, $( $arg:expr ),* ) => {", "C11")
m("C13-benign-signal-end-local", PUB, "        let signal: Vec<u8> = serialized[all_read..all_read + signal_len].to_vec();\n\n        let verified = verify_proof(&self.verification_key, &proof, &proof_values)?;\n        let x = hash_to_field(&signal);", "        let signal_end = all_read + signal_len;\n        let signal: Vec<u8> = serialized[all_read..signal_end].to_vec();\n\n        let verified = verify_proof(&self.verification_key, &proof, &proof_values)?;\n        let x = hash_to_field(&signal);", "C13")
m("C09-benign-update-slice", HASH, "    hasher.update(signal);\n    hasher.finalize(&mut hash);", "    hasher.update(&signal[..]);\n    hasher.finalize(&mut hash);", "C09")
m("C08-benign-opt-end-inline", OMT, "        let end = start + leaves_vec.len();", "        let n = leaves_vec.len();\n        let end = start + n;", "C08")

# ---- behaviour-preserving refactors, third batch
m("C09-benign-sbox-full-rounds-not", PH, "        if (i < n_rounds_f / 2) || (i >= n_rounds_f / 2 + n_rounds_p) {", "        let half = n_rounds_f / 2;\n        if (i < half) || (i >= half + n_rounds_p) {", "C09")
m("C09-benign-mix-iter-zip", PH, "            for j in 0..state.len() {\n                acc += row[j] * state[j];\n            }", "            for (j, s) in state.iter().enumerate() {\n                acc += row[j] * *s;\n            }", "C09")
m("C09-benign-ark-index-loop", PH, "        state.iter_mut().enumerate().for_each(|(i, elem)| {\n            *elem += c[it + i];\n        });", "        for i in 0..state.len() {\n            state[i] += c[it + i];\n        }", "C09")
m("C14-benign-seeded-keygen-inline", PROTO, "    let identity_secret_hash = Fr::rand(&mut rng);\n    let id_commitment = poseidon_hash(&[identity_secret_hash]);\n    (identity_secret_hash, id_commitment)\n}\n\n// Generates a tuple (identity_trapdoor, identity_nullifier, identity_secret_hash, id_commitment) where\n// identity_trapdoor and identity_nullifier are generated deterministically", "    let secret = Fr::rand(&mut rng);\n    let commitment = poseidon_hash(&[secret]);\n    (secret, commitment)\n}\n\n// Generates a tuple (identity_trapdoor, identity_nullifier, identity_secret_hash, id_commitment) where\n// identity_trapdoor and identity_nullifier are generated deterministically", "C14")
m("C10-benign-vec-u8-reader-slice-var", UT, "    let res = input[8..8 + len].to_vec();\n    read += res.len();\n\n    Ok((res, read))", "    let body = &input[8..8 + len];\n    let res = body.to_vec();\n    read += res.len();\n\n    Ok((res, read))", "C10")
m("C12-benign-vec-u8-reader-slice-var", UT, "    let res = input[8..8 + len].to_vec();\n    read += res.len();\n\n    Ok((res, read))", "    let body = &input[8..8 + len];\n    let res = body.to_vec();\n    read += res.len();\n\n    Ok((res, read))", "C12")
m("C13-benign-vec-u8-reader-slice-var", UT, "    let res = input[8..8 + len].to_vec();\n    read += res.len();\n\n    Ok((res, read))", "    let body = &input[8..8 + len];\n    let res = body.to_vec();\n    read += res.len();\n\n    Ok((res, read))", "C13")
m("C16-benign-delete-let", PMA, "        self.tree\n            .delete(index)\n            .map_err(|e| Report::msg(e.to_string()))?;\n        self.cached_leaves_indices[index] = 0;\n        Ok(())", "        let deleted = self.tree.delete(index);\n        deleted.map_err(|e| Report::msg(e.to_string()))?;\n        self.cached_leaves_indices[index] = 0;\n        Ok(())", "C16")
m("C06-benign-pm-delete-let", PMA, "        self.tree\n            .delete(index)\n            .map_err(|e| Report::msg(e.to_string()))?;\n        self.cached_leaves_indices[index] = 0;\n        Ok(())", "        let deleted = self.tree.delete(index);\n        deleted.map_err(|e| Report::msg(e.to_string()))?;\n        self.cached_leaves_indices[index] = 0;\n        Ok(())", "C06")
m("C07-benign-get-proof-let", PUB, "        let merkle_proof = self.tree.proof(index)?;", "        let lookup = self.tree.proof(index);\n        let merkle_proof = lookup?;", "C07")
m("C20-benign-magic-check-ne", STO, "    if !magic.eq(WITNESSCALC_GRAPH_MAGIC) {", "    if magic != *WITNESSCALC_GRAPH_MAGIC {", "C20")
m("C05-benign-inputs-collect-two-steps", CALC, "    let inputs: HashMap<String, Vec<U256>> = inputs\n        .into_iter()\n        .map(|(key, value)| (key, value.iter().map(fr_to_u256).collect()))\n        .collect();", "    let converted = inputs\n        .into_iter()\n        .map(|(key, value)| (key, value.iter().map(fr_to_u256).collect()));\n    let inputs: HashMap<String, Vec<U256>> = converted.collect();", "C05")
FE = "        .for_each(|v| identity_path_index.push(Fr::from(*v)));\n\n    Ok(["
m("C01-direction-bit-inverted", PROTO, FE, "        .for_each(|v| identity_path_index.push(Fr::from(1 - (*v & 1))));\n\n    Ok([", "C01")
m("C01-direction-bit-from-bool", PROTO, FE, "        .for_each(|v| identity_path_index.push(Fr::from(*v > 1)));\n\n    Ok([", "C01")
FE4 = "    rln_witness\n        .identity_path_index\n        .iter()\n" + FE
m("C01-benign-direction-loop", PROTO, FE4, "    for v in rln_witness.identity_path_index.iter() {\n        identity_path_index.push(Fr::from(*v));\n    }\n\n    Ok([", "C01")
m("C01-direction-loop-skips-first", PROTO, FE4, "    for v in rln_witness.identity_path_index.iter().skip(1) {\n        identity_path_index.push(Fr::from(*v));\n    }\n    identity_path_index.push(Fr::from(0u8));\n\n    Ok([", "C01")
m("C01-benign-prove-let-proof", PUB, "        let proof = generate_proof(&self.proving_key, &rln_witness, &self.graph_data)?;\n\n        // Note: we export a serialization of ark-groth16::Proof not semaphore::Proof\n        // This proof is compressed, i.e. 128 bytes long\n        proof.serialize_compressed(&mut output_data)?;\n        output_data.write_all(&serialize_proof_values(&proof_values))?;", "        let proof = generate_proof(&self.proving_key, &rln_witness, &self.graph_data)?;\n\n        // Note: we export a serialization of ark-groth16::Proof not semaphore::Proof\n        // This proof is compressed, i.e. 128 bytes long\n        proof.serialize_compressed(&mut output_data)?;\n        let values = serialize_proof_values(&proof_values);\n        output_data.write_all(&values)?;", "C01")
m("C04-benign-prove-let-values", PUB, "        let proof = generate_proof(&self.proving_key, &rln_witness, &self.graph_data)?;\n\n        // Note: we export a serialization of ark-groth16::Proof not semaphore::Proof\n        // This proof is compressed, i.e. 128 bytes long\n        proof.serialize_compressed(&mut output_data)?;\n        output_data.write_all(&serialize_proof_values(&proof_values))?;", "        let proof = generate_proof(&self.proving_key, &rln_witness, &self.graph_data)?;\n\n        // Note: we export a serialization of ark-groth16::Proof not semaphore::Proof\n        // This proof is compressed, i.e. 128 bytes long\n        proof.serialize_compressed(&mut output_data)?;\n        let values = serialize_proof_values(&proof_values);\n        output_data.write_all(&values)?;", "C04")

m("C16-temporary-guard-on-raw-option", PMA, "        if temporary.unwrap_or(get_tmp()) && path.is_some() && path.as_ref().unwrap().exists() {", "        if temporary.unwrap_or(false) && path.is_some() && path.as_ref().unwrap().exists() {", "C16")
m("C16-temporary-guard-dropped", PMA, "        if temporary.unwrap_or(get_tmp()) && path.is_some() && path.as_ref().unwrap().exists() {", "        if false && temporary.unwrap_or(get_tmp()) && path.is_some() && path.as_ref().unwrap().exists() {", "C16")

# ---- behaviour-preserving refactors, fourth batch: renamed locals (the rules must not depend on variable names)
def rename(name, file, pairs, prop):
    """a mutant made of several textual replacements in one file (all occurrences)"""
    M.append((name, file, ("__multi__", pairs), None, prop))


rename("C06-benign-rename-update-hashes-locals", OMT, [("        let mut first = index;\n        let mut last = index + length - 1;\n        let mut depth = self.depth;\n        while depth > 0 {\n            first >>= 1;\n            last >>= 1;\n            for parent_index in first..=last {\n                let n_hash = self.hash_couple(depth, parent_index << 1);\n                self.nodes.insert((depth - 1, parent_index), n_hash);\n            }\n            depth -= 1;", "        let mut lo_pos = index;\n        let mut hi_pos = index + length - 1;\n        let mut level = self.depth;\n        while level > 0 {\n            lo_pos >>= 1;\n            hi_pos >>= 1;\n            for parent_index in lo_pos..=hi_pos {\n                let n_hash = self.hash_couple(level, parent_index << 1);\n                self.nodes.insert((level - 1, parent_index), n_hash);\n            }\n            level -= 1;")], "C06")
rename("C07-benign-rename-proof-locals", OMT, [("        let mut i = index;\n        let mut depth = self.depth;\n        loop {\n            i ^= 1;\n            witness.push((self.get_node(depth, i), (1 - (i & 1)).try_into().unwrap()));\n            i >>= 1;\n            depth -= 1;\n            if depth == 0 {\n                break;\n            }\n        }\n        if i != 0 {", "        let mut pos = index;\n        let mut level = self.depth;\n        loop {\n            pos ^= 1;\n            witness.push((self.get_node(level, pos), (1 - (pos & 1)).try_into().unwrap()));\n            pos >>= 1;\n            level -= 1;\n            if level == 0 {\n                break;\n            }\n        }\n        if pos != 0 {")], "C07")
rename("C06-benign-rename-subtree-root-locals", FMT, [("            let mut idx = self.capacity() + index - 1;\n            let mut nd = self.depth;\n            loop {\n                let parent = self.parent(idx).unwrap();\n                nd -= 1;\n                if nd == n {\n                    return Ok(self.nodes[parent]);\n                } else {\n                    idx = parent;", "            let mut node = self.capacity() + index - 1;\n            let mut level = self.depth;\n            loop {\n                let parent = self.parent(node).unwrap();\n                level -= 1;\n                if level == n {\n                    return Ok(self.nodes[parent]);\n                } else {\n                    node = parent;")], "C06")
rename("C15-benign-rename-remove-indices-locals", PMA, [("let mut new_leaves = Vec::new();", "let mut span_values = Vec::new();"), ("                new_leaves.push(PmTreeHasher::default_leaf());", "                span_values.push(PmTreeHasher::default_leaf());"), ("                new_leaves.push(self.tree.get(i)?);", "                span_values.push(self.tree.get(i)?);"), (".set_range(start, new_leaves)", ".set_range(start, span_values)")], "C15")
rename("C08-benign-rename-remove-indices-locals", PMA, [("let mut new_leaves = Vec::new();", "let mut span_values = Vec::new();"), ("                new_leaves.push(PmTreeHasher::default_leaf());", "                span_values.push(PmTreeHasher::default_leaf());"), ("                new_leaves.push(self.tree.get(i)?);", "                span_values.push(self.tree.get(i)?);"), (".set_range(start, new_leaves)", ".set_range(start, span_values)")], "C08")
rename("C09-benign-rename-mix-acc", PH, [("            let mut acc = F::ZERO;\n            for j in 0..state.len() {\n                acc += row[j] * state[j];\n            }\n            state_2[i] = acc;", "            let mut sum = F::ZERO;\n            for j in 0..state.len() {\n                sum += row[j] * state[j];\n            }\n            state_2[i] = sum;")], "C09")
rename("C19-benign-rename-shr-locals", GR, [("    let c = result.as_mut();\n    while n >= 64 {\n        for i in 0..3 {\n            c[i as usize] = c[(i + 1) as usize];\n        }\n        c[3] = 0;", "    let limbs = result.as_mut();\n    while n >= 64 {\n        for i in 0..3 {\n            limbs[i as usize] = limbs[(i + 1) as usize];\n        }\n        limbs[3] = 0;"), ("    let mut carrier: u64 = c[3] & mask;\n    c[3] >>= n;\n    for i in (0..3).rev() {\n        let new_carrier = c[i] & mask;\n        c[i] = (c[i] >> n) | (carrier << (64 - n));\n        carrier = new_carrier;", "    let mut low_bits: u64 = limbs[3] & mask;\n    limbs[3] >>= n;\n    for i in (0..3).rev() {\n        let next_low = limbs[i] & mask;\n        limbs[i] = (limbs[i] >> n) | (low_bits << (64 - n));\n        low_bits = next_low;")], "C19")
rename("C20-benign-rename-evaluate-locals", GR, [("    let mut values = Vec::with_capacity(nodes.len());\n    for &node in nodes.iter() {\n        let value = match node {\n            Node::Constant(c) => u256_to_fr(&c),\n            Node::MontConstant(c) => c,\n            Node::Input(i) => u256_to_fr(&inputs[i]),\n            Node::Op(op, a, b) => op.eval_fr(values[a], values[b]),\n            Node::UnoOp(op, a) => op.eval_fr(values[a]),\n            Node::TresOp(op, a, b, c) => op.eval_fr(values[a], values[b], values[c]),\n        };\n        values.push(value);\n    }\n\n    // Convert from Montgomery form and return the outputs.\n    let mut out = vec![Fr::from(0); outputs.len()];\n    for i in 0..outputs.len() {\n        out[i] = values[outputs[i]];\n    }\n\n    out\n}", "    let mut computed = Vec::with_capacity(nodes.len());\n    for &node in nodes.iter() {\n        let value = match node {\n            Node::Constant(c) => u256_to_fr(&c),\n            Node::MontConstant(c) => c,\n            Node::Input(i) => u256_to_fr(&inputs[i]),\n            Node::Op(op, a, b) => op.eval_fr(computed[a], computed[b]),\n            Node::UnoOp(op, a) => op.eval_fr(computed[a]),\n            Node::TresOp(op, a, b, c) => op.eval_fr(computed[a], computed[b], computed[c]),\n        };\n        computed.push(value);\n    }\n\n    // Convert from Montgomery form and return the outputs.\n    let mut signals = vec![Fr::from(0); outputs.len()];\n    for i in 0..outputs.len() {\n        signals[i] = computed[outputs[i]];\n    }\n\n    signals\n}")], "C20")

# renames of PRIVATE functions (every use updated): the rules are anchored on names; the fact base recognises the rename from the
# frozen signature inventory and the checks must stay silent
SLA = "utils/src/pm_tree/sled_adapter.rs"
rename("C06-benign-rename-fn-update-nodes", FMT, [("update_nodes", "rehash_levels")], "C06")
rename("C17-benign-rename-fn-update-nodes", FMT, [("update_nodes", "rehash_levels")], "C17")
rename("C06-benign-rename-fn-update-hashes", OMT, [("update_hashes", "rehash_range"), ("hash_couple", "hash_pair")], "C06")
rename("C08-benign-rename-fn-remove-indices", PMA, [("remove_indices_and_set_leaves", "rewrite_span_with_leaves"), ("fn remove_indices(", "fn reset_positions("), ("self.remove_indices(", "self.reset_positions(")], "C08")
rename("C15-benign-rename-fn-remove-indices", PMA, [("remove_indices_and_set_leaves", "rewrite_span_with_leaves"), ("fn remove_indices(", "fn reset_positions("), ("self.remove_indices(", "self.reset_positions(")], "C15")
rename("C01-benign-rename-fn-witness-element", PROTO, [("calculate_witness_element", "witness_to_field_elements")], "C01")
rename("C18-benign-rename-fn-new-with-tries", SLA, [("new_with_tries", "open_retrying")], "C18")
rename("C16-benign-rename-fn-new-with-tries", SLA, [("new_with_tries", "open_retrying")], "C16")
rename("C19-benign-rename-fn-shr-and-cmp", GR, [("fn shr(", "fn shift_right("), ("shr(a, b)", "shift_right(a, b)"), ("u_lt(", "signed_lt("), ("u_gte(", "signed_ge(")], "C19")
rename("C20-benign-rename-fn-shr-and-cmp", GR, [("fn shr(", "fn shift_right("), ("shr(a, b)", "shift_right(a, b)"), ("u_lt(", "signed_lt("), ("u_gte(", "signed_ge(")], "C20")
# renames of private FIELDS
rename("C15-benign-rename-field-flags-optimal", OMT, [("cached_leaves_indices", "occupancy")], "C15")
rename("C06-benign-rename-field-flags-optimal", OMT, [("cached_leaves_indices", "occupancy")], "C06")
rename("C06-benign-rename-field-next-index-full", FMT, [("next_index", "high_water")], "C06")
rename("C15-benign-rename-field-next-index-full", FMT, [("next_index", "high_water")], "C15")
rename("C08-benign-rename-field-flags-pm", PMA, [("cached_leaves_indices", "occupancy")], "C08")
rename("C16-benign-rename-field-metadata-pm", PMA, [("self.metadata", "self.meta_bytes"), ("    metadata: Vec<u8>,", "    meta_bytes: Vec<u8>,"), ("            metadata: Vec::new(),", "            meta_bytes: Vec::new(),")], "C16")
PH_IN = "    let (inputs, _) = bytes_le_to_vec_fr(&serialized)?;\n    let hash = utils_poseidon_hash(inputs.as_ref());"
m("C09-public-poseidon-rejects-arity-8", PUB, PH_IN, "    let (inputs, _) = bytes_le_to_vec_fr(&serialized)?;\n    if inputs.is_empty() || inputs.len() >= 8 {\n        return Err(Report::msg(\"unsupported number of inputs\"));\n    }\n    let hash = utils_poseidon_hash(inputs.as_ref());", "C09")
m("C09-benign-public-poseidon-arity-guard", PUB, PH_IN, "    let (inputs, _) = bytes_le_to_vec_fr(&serialized)?;\n    if inputs.is_empty() || inputs.len() > 8 {\n        return Err(Report::msg(\"unsupported number of inputs\"));\n    }\n    let hash = utils_poseidon_hash(inputs.as_ref());", "C09")
m("C10-verify-len-guard-rejects-exact", PUB, "        if input_byte.len() < 128 + 5 * fr_byte_size() {\n            return Err(Report::msg(\"input data is too short\"));", "        if input_byte.len() <= 128 + 5 * fr_byte_size() {\n            return Err(Report::msg(\"input data is too short\"));", "C10")
m("C10-vec-u8-guard-rejects-exact", UT, "    if len > input.len() - 8 {\n        return Err(Report::msg(\"vector length exceeds input data\"));", "    if len >= input.len() - 8 {\n        return Err(Report::msg(\"vector length exceeds input data\"));", "C10")


# ---- round 5 rules: store adapter (R06-11), conversions (R19-7), decimal JSON (R10-7), direct open (R18-4), wrapper panics (R11-6)
m("C06-sled-batch-skip-empty", SLED, "        for (key, value) in subtree {\n            batch.insert(&key, value);", "        for (key, value) in subtree {\n            if value.is_empty() {\n                continue;\n            }\n            batch.insert(&key, value);", "C06")
m("C06-sled-put-conditional", SLED, "        match self.0.insert(key, value) {", "        if value.iter().all(|b| *b == 0) {\n            return Ok(());\n        }\n        match self.0.insert(key, value) {", "C06")
m("C06-sled-get-truncates", SLED, "Ok(value) => Ok(value.map(|val| val.to_vec())),", "Ok(value) => Ok(value.map(|val| val[..val.len().min(31)].to_vec())),", "C06")
m("C06-benign-sled-batch-foreach", SLED, "        for (key, value) in subtree {\n            batch.insert(&key, value);\n        }", "        subtree.into_iter().for_each(|(key, value)| batch.insert(&key, value));", "C06")
m("C19-u256-to-fr-low-limb", GR, "pub fn u256_to_fr(x: &U256) -> Fr {\n", "pub fn u256_to_fr(x: &U256) -> Fr {\n    if x.as_limbs()[2] == 0 && x.as_limbs()[3] == 0 {\n        return Fr::from(x.as_limbs()[0]);\n    }\n", "C19")
m("C19-fr-to-u256-montgomery", GR, "    U256::from_limbs(x.into_bigint().0)", "    U256::from_limbs((x.0).0)", "C19")
m("C19-benign-u256-to-fr-literal", GR, "Fr::from_bigint(BigInt::new(x.into_limbs())).expect(\"Failed to convert U256 to Fr\")", "Fr::from_bigint(BigInt(x.into_limbs())).expect(\"U256 is not a field element\")", "C19")
m("C10-to-bigint-signed", UT, "    Ok(BigUint::from(*el).into())", "    Ok(BigInt::from_signed_bytes_le(&BigUint::from(*el).to_bytes_le()))", "C10")
m("C10-benign-to-bigint-from", UT, "    Ok(BigUint::from(*el).into())", "    let unsigned = BigUint::from(*el);\n    Ok(BigInt::from(unsigned))", "C10")
m("C10-bigint-json-x-from-nullifier", PROTO, "        \"x\": to_bigint(&rln_witness.x)?.to_str_radix(10),", "        \"x\": to_bigint(&rln_witness.external_nullifier)?.to_str_radix(10),", "C10")
m("C10-bigint-json-radix16", PROTO, "        \"messageId\": to_bigint(&rln_witness.message_id)?.to_str_radix(10),", "        \"messageId\": to_bigint(&rln_witness.message_id)?.to_str_radix(16),", "C10")
m("C18-load-direct-open", SLED, "        let db = Self::new_with_tries(config, 0)?.0;", "        let db = match config.open() {\n            Ok(db) => db,\n            Err(_) => Self::new_with_tries(config, 0)?.0,\n        };", "C18")
m("C11-macro-err-arm-indexes", FFI, "                Err(err) => {\n                    std::mem::forget(output_data);\n                    eprintln!(\"execution error: {err}\");\n                    false\n                }\n            }\n        }\n    };\n\n}", "                Err(err) => {\n                    std::mem::forget(output_data);\n                    let causes: Vec<String> = err.chain().map(|c| c.to_string()).collect();\n                    eprintln!(\"execution error: {}\", causes[1]);\n                    false\n                }\n            }\n        }\n    };\n\n}", "C11")

CIRC = "rln/src/circuit/mod.rs"
m("C17-arkzkey-fields-swapped", CIRC, "    pub a: SerializableMatrix<F>,\n    pub b: SerializableMatrix<F>,", "    pub b: SerializableMatrix<F>,\n    pub a: SerializableMatrix<F>,", "C17")

def main():
    os.makedirs(OUT, exist_ok=True)
    pref = sys.argv[1] if len(sys.argv) > 1 else ""
    assert subprocess.check_output(["git", "-C", REPO, "status", "--porcelain"], text=True).strip() == "", "/repo not clean"
    for name, file, old, new, prop in M:
        if not name.startswith(pref):
            continue
        p = os.path.join(REPO, file)
        s = open(p).read()
        if isinstance(old, tuple) and old[0] == "__multi__":
            miss = [a for a, b in old[1] if s.count(a) < 1]
            if miss:
                print("PATTERN MISSING", name, miss[0][:60])
                continue
            for a, b in old[1]:
                s = s.replace(a, b)
            open(p, "w").write(s)
        else:
            if s.count(old) < 1:
                print("PATTERN MISSING", name)
                continue
            open(p, "w").write(s.replace(old, new, 1))
        d = subprocess.check_output(["git", "-C", REPO, "diff"], text=True)
        open(os.path.join(OUT, name + ".patch"), "w").write(d)
        subprocess.check_call(["git", "-C", REPO, "checkout", "--", "."])
        print("wrote", name)


if __name__ == "__main__":
    main()
