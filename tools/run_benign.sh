#!/bin/sh
# tools/run_benign.sh [dir]  -- apply each behaviour-preserving refactor of /verif/benign/<set>/*.diff to /repo (one at a time),
# run every quick check, undo, and report any alarm (every alarm here is a false alarm to be investigated)
D=$(realpath "${1:-/verif/benign}")
R=${ZK_REPO:-/repo}; export ZK_REPO=$R
[ -z "$(git -C $R status --porcelain)" ] || { echo "$R not clean"; exit 3; }
bad=0
for p in $(find "$D" -name '*.diff' | sort); do
  git -C $R apply "$p" 2>/dev/null || { echo "SKIP (does not apply) $p"; continue; }
  out=$(/verif/check all 2>&1 | grep -E "^(VIOLATION|  R|  floor|  anchor|  machinery)" | cut -c1-260)
  git -C $R checkout -- .
  if [ -n "$out" ]; then bad=$((bad+1)); echo "ALARM  $p"; echo "$out" | grep -v "^VIOLATION" | head -6; else echo "silent $p"; fi
done
echo "alarms: $bad"
[ "$bad" -eq 0 ]
