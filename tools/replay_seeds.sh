#!/bin/sh
# tools/replay_seeds.sh  -- apply every stored seeded change to /repo (one at a time), run all quick checks, undo;
# every change must be reported by at least one check (the superseded one is skipped when it no longer applies)
[ -z "$(git -C /repo status --porcelain)" ] || { echo "/repo not clean"; exit 3; }
miss=0
for d in /verif/seeded/*/; do
  n=$(basename "$d")
  git -C /repo apply "$d/patch.diff" 2>/dev/null || { echo "SKIP   $n (does not apply)"; continue; }
  out=$(/verif/check all 2>&1 | grep -E "^C[0-9]+:.* [1-9][0-9]* violations" | cut -d: -f1 | tr '\n' ' ')
  git -C /repo checkout -- .
  if [ -z "$out" ]; then miss=$((miss+1)); echo "MISSED $n"; else echo "caught $n  [$out]"; fi
done
echo "missed: $miss"
[ "$miss" -eq 0 ]
