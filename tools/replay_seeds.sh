#!/bin/sh
# tools/replay_seeds.sh [name-regex]  -- apply every stored seeded change (optionally only those whose directory name matches the regex)
# to the tree under test (ZK_REPO, default /repo; one at a time), run all quick checks, undo; every change must be reported by at least
# one check, and "own" says whether the check of the property the change was written for is among them (the superseded one is skipped
# when it no longer applies). Several instances can run side by side on different trees (ZK_REPO).
R=${ZK_REPO:-/repo}; export ZK_REPO=$R
RX=${1:-.}
[ -z "$(git -C $R status --porcelain)" ] || { echo "$R not clean"; exit 3; }
miss=0; notown=0
for d in /verif/seeded/*/; do
  n=$(basename "$d"); own=$(echo "$n" | cut -c1-3)
  echo "$n" | grep -Eq "$RX" || continue
  git -C $R apply "$d/patch.diff" 2>/dev/null || { echo "SKIP   $n (does not apply)"; continue; }
  out=$(/verif/check all 2>&1 | grep -E "^C[0-9]+:.* [1-9][0-9]* violations" | cut -d: -f1 | tr '\n' ' ')
  git -C $R checkout -- .
  if [ -z "$out" ]; then miss=$((miss+1)); echo "MISSED $n"
  else case " $out" in *" $own "*) echo "caught $n  [$out] own";; *) notown=$((notown+1)); echo "caught $n  [$out] NOT-BY-OWN";; esac; fi
done
echo "missed: $miss; reported but not by the property's own check: $notown"
[ "$miss" -eq 0 ]
