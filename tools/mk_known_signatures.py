#!/usr/bin/env python3
"""Freezes zkrules/known_signatures.json: for every function of the workspace crates on today's tree its signature (return and argument
types as the compiler prints them), visibility and the configurations it exists in. Used only to recognise a later RENAME or MOVE of a
function (same signature, old name gone, new name unknown) so that rules anchored on the old name keep reading the same code."""
import sys, json
sys.path.insert(0, '/verif')
from zkrules import extract, facts
CFGS = ["default", "optimal", "full", "stateless", "arkzkey"]
m = extract.ensure_facts(CFGS)
out = {}
for cfg in CFGS:
    fb = facts.FactBase(cfg, m[cfg]["dir"], renames=False)
    for p, it in fb.items.items():
        if it.kind not in ("Fn", "AssocFn", "Static", "Const") or it.crate not in ("rln", "zerokit_utils") or "@" in p:
            continue
        sig = facts.signature(it)
        e = out.setdefault(p, {"sig": sig, "vis": "pub" if str(it.get("vis", "")).startswith("Public") else "priv", "cfgs": [], "fp": facts.fingerprint(it)})
        e["cfgs"].append(cfg)
adts = {}
for cfg in CFGS:
    fb = facts.FactBase(cfg, m[cfg]["dir"], renames=False)
    for p, a in fb.adts.items():
        if a.get("kind") == "Struct" and p.startswith(("rln::", "zerokit_utils::")) and len(a["variants"]) == 1:
            adts.setdefault(p, {})[cfg] = [[f["name"], f["ty"]] for f in a["variants"][0]["fields"]]
out["__adts__"] = adts
json.dump(out, open('/verif/zkrules/known_signatures.json', 'w'), indent=0, sort_keys=True)
print(len(adts), "structs")
print(len(out), "functions")
