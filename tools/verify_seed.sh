#!/bin/sh
# tools/verify_seed.sh <worktree> <change.diff> <demo.rs> <demo dest (relative)> <cargo test args for the demo...>
# Confirms a seeded change: applies to /repo's HEAD, compiles, the whole suite passes, the demo fails with it and passes without it.
W="$1"; D="$2"; DEMO="$3"; DEST="$4"; shift 4
export CARGO_TARGET_DIR="$W/target" CARGO_NET_OFFLINE=true
H=$(git -C /repo rev-parse HEAD)
cd "$W" || exit 3
git checkout -q -- . && git checkout -q --detach "$H" || { echo "RESULT checkout failed"; exit 3; }
rm -f "$W/$DEST"
git apply "$D" || { echo "RESULT patch does not apply to $H"; exit 3; }
echo "== suite with change ($D at $H)"
cargo nextest run --workspace --no-fail-fast --offline --test-threads 4 2>&1 | grep -E "Summary|FAIL|error(\[|:)" | head -20
echo "== demo with change (must fail)"
cp "$DEMO" "$W/$DEST"
cargo test --offline "$@" 2>&1 | grep -E "^test |test result|panicked|error(\[|:)" | head -20
git checkout -q -- .
echo "== demo without change (must pass)"
cargo test --offline "$@" 2>&1 | grep -E "^test |test result|panicked|error(\[|:)" | head -20
rm -f "$W/$DEST"
git status --short | grep -v _seed | head
echo "== done"
