#!/usr/bin/env python3
"""Mutation self-test: for each /verif/mutants/<ID>-*.patch apply it to /repo, run ./check <ID>, require a VIOLATION, restore.
usage: tools/run_mutants.py [prefix ...]   (exit 1 if a mutant is missed)"""
import glob, os, re, subprocess, sys
REPO, VERIF = os.environ.get("ZK_REPO", "/repo"), "/verif"


def main():
    prefs = sys.argv[1:] or [""]
    assert subprocess.check_output(["git", "-C", REPO, "status", "--porcelain"], text=True).strip() == "", "/repo not clean"
    missed = []
    for p in sorted(glob.glob(os.path.join(VERIF, "mutants", "*.patch"))):
        name = os.path.basename(p)[:-6]
        if not any(name.startswith(x) for x in prefs):
            continue
        pid = name.split("-")[0]
        benign = "benign" in name
        r = subprocess.run(["git", "-C", REPO, "apply", p])
        if r.returncode != 0:
            print("%-40s PATCH DOES NOT APPLY" % name)
            missed.append(name)
            continue
        try:
            out = subprocess.run([os.path.join(VERIF, "check"), pid], stdout=subprocess.PIPE, stderr=subprocess.STDOUT, text=True).stdout
        finally:
            subprocess.check_call(["git", "-C", REPO, "checkout", "--", "."])
        v = [l for l in out.split("\n") if l.startswith("VIOLATION")]
        det = [l.strip() for l in out.split("\n") if l.startswith("  ")]
        if benign:
            ok = not v
        else:
            ok = bool(v)
        print("%-40s %s  %s" % (name, "caught" if (ok and not benign) else ("silent(ok)" if ok else "MISSED" if not benign else "FALSE ALARM"), (det[0][:160] if det else "")))
        if not ok:
            missed.append(name)
    print("missed:", missed)
    return 1 if missed else 0


if __name__ == "__main__":
    sys.exit(main())
