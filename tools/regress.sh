#!/bin/sh
# tools/regress.sh  -- the whole self-test of the machinery, sequentially (2-4 hours):
#   1. every check, both tiers, on /repo as it is (must be clean)
#   2. every mutant (tools/mut.sh "" on the scratch worktree /var/tmp/zkmut): broken ones reported, benign ones silent
#   3. every stored seeded change replayed against the checks (tools/replay_seeds.sh): all reported
#   4. every independent benign refactor (tools/run_benign.sh): all silent
# Logs in /var/tmp/regress/.
O=/var/tmp/regress; mkdir -p $O
cd /verif
./check all 2>&1 | grep -E "^(VIOLATION|KNOWN-FINDING|C[0-9]+:)" > $O/quick.log
for p in C01 C02 C03 C04 C05 C06 C07 C08 C09 C10 C11 C12 C13 C14 C15 C16 C17 C18 C19 C20; do ./check $p --tier thorough 2>&1 | grep -E "^(VIOLATION|C[0-9]+:)"; done > $O/thorough.log
[ -d /var/tmp/zkmut2 ] || git -C /repo worktree add -q --detach /var/tmp/zkmut2 HEAD || exit 3
git -C /var/tmp/zkmut2 checkout -q --detach "$(git -C /repo rev-parse HEAD)" && git -C /var/tmp/zkmut2 checkout -q -- . || exit 3
# three lanes on three trees: mutants on /var/tmp/zkmut, benign refactors on /var/tmp/zkmut2, seeded changes on /repo
(tools/mut.sh "" > $O/mutants.log 2>&1) &
(ZK_REPO=/var/tmp/zkmut2 tools/run_benign.sh > $O/benign.log 2>&1) &
tools/replay_seeds.sh > $O/seeds.log 2>&1
wait
echo "quick:    $(grep -c ' 0 violations' $O/quick.log)/20 clean"
echo "thorough: $(grep -c ' 0 violations' $O/thorough.log)/20 clean"
echo "mutants:  $(tail -1 $O/mutants.log)"
echo "seeds:    $(grep -E '^missed' $O/seeds.log)"
echo "benign:   $(grep -E '^alarms' $O/benign.log)"
# the scratch worktrees are removed again (they are re-created on demand)
git -C /repo worktree remove --force /var/tmp/zkmut 2>/dev/null; git -C /repo worktree remove --force /var/tmp/zkmut2 2>/dev/null; git -C /repo worktree prune
