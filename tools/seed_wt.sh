#!/bin/sh
# tools/seed_wt.sh <ID> : scratch worktree /tmp/seed2/<ID> at /repo HEAD with _seed/PROPERTY.json (round 2 of seeded changes)
ID="$1"; R=${SEED_ROOT:-/tmp/seed2}; W=$R/$ID
git -C /repo worktree add -q --detach "$W" HEAD || exit 3
mkdir -p "$W/_seed"
python3 - "$ID" "$R" <<'P'
import json,sys
pid=sys.argv[1]
for l in open('/verif/properties.jsonl'):
    d=json.loads(l)
    if d['id']==pid: json.dump(d,open('%s/%s/_seed/PROPERTY.json'%(sys.argv[2],pid),'w'),indent=1)
P
echo "$W ready"
