#!/usr/bin/env python3
"""tools/keep_seed.py <PID> <n> <slug> <demo dest> <needs> <caught_by> [<demo cargo args>]
Copies a verified seeded change into /verif/seeded/<PID>-<slug>/ (patch.diff, demo, meta.json, verify.log)."""
import json, os, shutil, sys, re
pid, n, slug, dest, needs, caught = sys.argv[1:7]
args = sys.argv[7] if len(sys.argv) > 7 else ""
src = "%s/%s/_seed" % (os.environ.get("SEED_ROOT", "/tmp/seed"), pid)
out = "/verif/seeded/%s-%s" % (pid, slug)
os.makedirs(out, exist_ok=True)
shutil.copyfile("%s/change%s.diff" % (src, n), out + "/patch.diff")
shutil.copyfile("%s/demo%s.rs" % (src, n), out + "/" + os.path.basename(dest))
log = open("%s/verify%s.log" % (src, n)).read()
open(out + "/verify.log", "w").write(log)
m = re.search(r"Summary.*?(\d+) tests run: (\d+) passed", log)
_with = log.split("== demo with change")[1].split("== demo without change")[0] if "== demo with change" in log else ""
fails = "FAILED" in _with or "error: test failed" in _with or ("panicked" in _with and "test result: ok" not in _with)
passes = re.search(r"test result: ok", log.split("== demo without change")[1]) is not None
notes = ""
if os.path.exists(src + "/NOTES.md"):
    shutil.copyfile(src + "/NOTES.md", out + "/NOTES.agent.md")
meta = {
    "property": pid,
    "breaks": json.load(open(src + "/PROPERTY.json"))["title"],
    "needs_to_manifest": needs,
    "demonstration": {"file": os.path.basename(dest), "place_at": dest, "run": "cargo test --offline " + args},
    "confirmed": {
        "how": "tools/verify_seed.sh in a scratch worktree at /repo's HEAD: patch applied, cargo nextest run --workspace (whole suite), demo with the change, demo without it",
        "suite_with_change": ("%s/%s passed" % (m.group(2), m.group(1))) if m else "?",
        "demo_fails_with_change": bool(fails),
        "demo_passes_without_change": bool(passes),
    },
    "caught_by": caught,
    "source": "independent sub-agent given only the property text and a scratch worktree",
}
json.dump(meta, open(out + "/meta.json", "w"), indent=1)
print(out, meta["confirmed"])
