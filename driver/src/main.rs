// zkfacts: rustc_private driver that dumps the type-checked MIR of workspace crates as JSON facts.
// Used as RUSTC_WORKSPACE_WRAPPER under `cargo +nightly check`. Nothing is executed; the facts are
// a pure function of the sources and the cargo configuration.
#![feature(rustc_private)]
#![allow(clippy::all)]

extern crate rustc_abi;
extern crate rustc_driver;
extern crate rustc_hir;
extern crate rustc_interface;
extern crate rustc_middle;
extern crate rustc_session;
extern crate rustc_span;

use rustc_driver::{Callbacks, Compilation};
use rustc_hir::def::DefKind;
use rustc_hir::def_id::{DefId, LOCAL_CRATE};
use rustc_middle::mir::{self, *};
use rustc_middle::ty::{self, Instance, Ty, TyCtxt, TypingEnv};
use rustc_span::{ExpnKind, MacroKind, Span};
use std::fmt::Write as _;

const VERSION: &str = "zkfacts-8";
const WORKSPACE_CRATES: [&str; 5] = ["rln", "zerokit_utils", "rln_cli", "rln_wasm", "zkfix"];

fn esc(s: &str) -> String {
    let mut o = String::with_capacity(s.len() + 2);
    o.push('"');
    for c in s.chars() {
        match c {
            '"' => o.push_str("\\\""),
            '\\' => o.push_str("\\\\"),
            '\n' => o.push_str("\\n"),
            '\r' => o.push_str("\\r"),
            '\t' => o.push_str("\\t"),
            c if (c as u32) < 0x20 => {
                let _ = write!(o, "\\u{:04x}", c as u32);
            }
            c => o.push(c),
        }
    }
    o.push('"');
    o
}

fn arr(items: Vec<String>) -> String {
    let mut o = String::from("[");
    o.push_str(&items.join(","));
    o.push(']');
    o
}

fn obj(items: Vec<(&str, String)>) -> String {
    let mut o = String::from("{");
    let mut first = true;
    for (k, v) in items {
        if !first {
            o.push(',');
        }
        first = false;
        o.push_str(&esc(k));
        o.push(':');
        o.push_str(&v);
    }
    o.push('}');
    o
}

struct Cx<'tcx> {
    tcx: TyCtxt<'tcx>,
    krate: String,
}

impl<'tcx> Cx<'tcx> {
    fn path(&self, did: DefId) -> String {
        if did.is_local() {
            let s = ty::print::with_no_trimmed_paths!(self.tcx.def_path_str(did));
            return format!("{}::{}", self.krate, s);
        }
        // items of other workspace crates: print the defining path, not a re-export path, so that
        // the same function has one name in every crate's facts
        let cn = self.tcx.crate_name(did.krate);
        let cn = cn.as_str();
        if WORKSPACE_CRATES.contains(&cn) {
            ty::print::with_no_visible_paths!(ty::print::with_no_trimmed_paths!(self.tcx.def_path_str(did)))
        } else {
            ty::print::with_no_trimmed_paths!(self.tcx.def_path_str(did))
        }
    }

    fn ty_s(&self, t: Ty<'tcx>) -> String {
        ty::print::with_no_trimmed_paths!(format!("{}", t))
    }

    fn expn_tag(&self, span: Span) -> String {
        if !span.from_expansion() {
            return String::new();
        }
        let d = span.ctxt().outer_expn_data();
        match d.kind {
            ExpnKind::Macro(MacroKind::Derive, n) => format!("derive:{}", n),
            ExpnKind::Macro(MacroKind::Bang, n) => format!("m:{}", n),
            ExpnKind::Macro(MacroKind::Attr, n) => format!("attr:{}", n),
            ExpnKind::Desugaring(k) => format!("d:{:?}", k),
            ExpnKind::AstPass(k) => format!("ast:{:?}", k),
            ExpnKind::Root => String::new(),
        }
    }

    fn in_derive(&self, span: Span) -> bool {
        let mut sp = span;
        let mut n = 0;
        while sp.from_expansion() && n < 32 {
            let d = sp.ctxt().outer_expn_data();
            if let ExpnKind::Macro(MacroKind::Derive, _) = d.kind {
                return true;
            }
            sp = d.call_site;
            n += 1;
        }
        false
    }

    fn loc(&self, span: Span) -> (String, usize, usize) {
        let sp = span.source_callsite();
        let sm = self.tcx.sess.source_map();
        let p = sm.lookup_char_pos(sp.lo());
        let name = format!("{}", p.file.name.prefer_local_unconditionally());
        (name, p.line, p.col.0)
    }

    fn span_j(&self, span: Span) -> String {
        let (_, l, c) = self.loc(span);
        format!("[{},{}]", l, c)
    }

    fn place(&self, body: &Body<'tcx>, p: &Place<'tcx>) -> String {
        let mut pt = PlaceTy::from_ty(body.local_decls[p.local].ty);
        let mut projs = Vec::new();
        for elem in p.projection.iter() {
            let s = match elem {
                ProjectionElem::Deref => "[\"deref\"]".to_string(),
                ProjectionElem::Field(f, fty) => {
                    let mut name = String::new();
                    if let ty::Adt(adt, _) = pt.ty.kind() {
                        let v = pt.variant_index.unwrap_or(rustc_abi::FIRST_VARIANT);
                        if v.as_usize() < adt.variants().len() {
                            let vd = adt.variant(v);
                            if f.as_usize() < vd.fields.len() {
                                name = vd.fields[f].name.to_string();
                            }
                        }
                    }
                    format!("[\"field\",{},{},{}]", f.as_usize(), esc(&name), esc(&self.ty_s(fty)))
                }
                ProjectionElem::Index(l) => format!("[\"index\",{}]", l.as_usize()),
                ProjectionElem::ConstantIndex { offset, min_length, from_end } => {
                    format!("[\"cidx\",{},{},{}]", offset, min_length, from_end)
                }
                ProjectionElem::Subslice { from, to, from_end } => {
                    format!("[\"sub\",{},{},{}]", from, to, from_end)
                }
                ProjectionElem::Downcast(name, v) => {
                    let n = name.map(|s| s.to_string()).unwrap_or_default();
                    format!("[\"down\",{},{}]", v.as_usize(), esc(&n))
                }
                ProjectionElem::OpaqueCast(_) => "[\"opaque\"]".to_string(),
                ProjectionElem::UnwrapUnsafeBinder(_) => "[\"unbinder\"]".to_string(),
            };
            projs.push(s);
            pt = pt.projection_ty(self.tcx, elem);
        }
        format!("{{\"l\":{},\"proj\":{}}}", p.local.as_usize(), arr(projs))
    }

    fn konst(&self, owner: DefId, c: &ConstOperand<'tcx>) -> String {
        let tcx = self.tcx;
        let t = c.const_.ty();
        let mut items: Vec<(&str, String)> = vec![("ty", esc(&self.ty_s(t)))];
        // function items
        if let ty::FnDef(did, args) = *t.kind() {
            items.push(("fn", esc(&self.path(did))));
            items.push(("substs", esc(&ty::print::with_no_trimmed_paths!(format!("{:?}", args)))));
            return obj(items);
        }
        // closures as ZST constants
        if let ty::Closure(did, _) = *t.kind() {
            items.push(("closure", esc(&self.path(did))));
            return obj(items);
        }
        // the item a const refers to
        if let mir::Const::Unevaluated(uv, _) = c.const_ {
            items.push(("item", esc(&self.path(uv.def))));
            if let Some(p) = uv.promoted {
                items.push(("promoted", format!("{}", p.as_usize())));
            }
        }
        let mut disp = ty::print::with_no_trimmed_paths!(format!("{}", c.const_));
        if disp.len() > 2048 {
            disp.truncate(disp.char_indices().take_while(|(i, _)| *i < 2048).last().map(|(i, _)| i).unwrap_or(0));
        }
        items.push(("disp", esc(&disp)));
        let typing_env = TypingEnv::post_analysis(tcx, owner);
        let is_promoted = matches!(c.const_, mir::Const::Unevaluated(uv, _) if uv.promoted.is_some());
        if !is_promoted {
            if let Ok(val) = c.const_.eval(tcx, typing_env, c.span) {
                match val {
                    ConstValue::Scalar(sc) => {
                        if let rustc_middle::mir::interpret::Scalar::Ptr(ptr, _) = sc {
                            let aid = ptr.provenance.alloc_id();
                            match tcx.try_get_global_alloc(aid) {
                                Some(rustc_middle::mir::interpret::GlobalAlloc::Static(sdid)) => {
                                    items.push(("static", esc(&self.path(sdid))));
                                }
                                Some(rustc_middle::mir::interpret::GlobalAlloc::Function { instance }) => {
                                    items.push(("fnptr_to", esc(&self.path(instance.def_id()))));
                                }
                                _ => {}
                            }
                        }
                        if let Some(si) = val.try_to_scalar_int() {
                            let sz = si.size();
                            let bits = si.to_bits(sz);
                            let v: String = match t.kind() {
                                ty::Int(_) => {
                                    let shift = 128 - sz.bits();
                                    let sv = ((bits as i128) << shift) >> shift;
                                    format!("{}", sv)
                                }
                                _ => format!("{}", bits),
                            };
                            items.push(("v", esc(&v)));
                        }
                    }
                    ConstValue::ZeroSized => {
                        items.push(("zst", "true".to_string()));
                    }
                    ConstValue::Slice { .. } => {
                        if let Some(b) = val.try_get_slice_bytes_for_diagnostics(tcx) {
                            items.push(("bytes_len", format!("{}", b.len())));
                            let b = if b.len() > 1024 { &b[..0] } else { b };
                            let v: Vec<String> = b.iter().map(|x| format!("{}", x)).collect();
                            items.push(("bytes", arr(v)));
                        }
                    }
                    ConstValue::Indirect { alloc_id, offset } => {
                        if let Ok(layout) = tcx.layout_of(typing_env.as_query_input(t)) {
                            let size = layout.size;
                            if size.bytes() <= 4096 {
                                if let rustc_middle::mir::interpret::GlobalAlloc::Memory(a) =
                                    tcx.global_alloc(alloc_id)
                                {
                                    let alloc = a.inner();
                                    let start = offset.bytes() as usize;
                                    let end = start + size.bytes() as usize;
                                    if end <= alloc.len() && alloc.provenance().ptrs().is_empty() {
                                        let b = alloc
                                            .inspect_with_uninit_and_ptr_outside_interpreter(start..end);
                                        let v: Vec<String> =
                                            b.iter().map(|x| format!("{}", x)).collect();
                                        items.push(("mem", arr(v)));
                                    }
                                }
                            }
                        }
                    }
                }
            }
        }
        obj(items)
    }

    fn operand(&self, owner: DefId, body: &Body<'tcx>, o: &Operand<'tcx>) -> String {
        match o {
            Operand::Copy(p) => format!("{{\"cp\":{}}}", self.place(body, p)),
            Operand::Move(p) => format!("{{\"mv\":{}}}", self.place(body, p)),
            Operand::Constant(c) => format!("{{\"c\":{}}}", self.konst(owner, c)),
            #[allow(unreachable_patterns)]
            _ => format!("{{\"c\":{{\"disp\":{}}}}}", esc(&format!("{:?}", o))),
        }
    }

    fn rvalue(&self, owner: DefId, body: &Body<'tcx>, rv: &Rvalue<'tcx>) -> String {
        match rv {
            Rvalue::Use(o, _) => format!("{{\"k\":\"use\",\"o\":{}}}", self.operand(owner, body, o)),
            Rvalue::Repeat(o, n) => format!(
                "{{\"k\":\"repeat\",\"o\":{},\"n\":{}}}",
                self.operand(owner, body, o),
                esc(&format!("{}", n))
            ),
            Rvalue::Ref(_, bk, p) => {
                let m = match bk {
                    BorrowKind::Shared => "shared",
                    BorrowKind::Mut { .. } => "mut",
                    BorrowKind::Fake(_) => "fake",
                };
                format!("{{\"k\":\"ref\",\"m\":\"{}\",\"p\":{}}}", m, self.place(body, p))
            }
            Rvalue::RawPtr(k, p) => format!(
                "{{\"k\":\"rawptr\",\"m\":{},\"p\":{}}}",
                esc(&format!("{:?}", k)),
                self.place(body, p)
            ),
            Rvalue::Cast(k, o, t) => format!(
                "{{\"k\":\"cast\",\"ck\":{},\"o\":{},\"ty\":{}}}",
                esc(&format!("{:?}", k)),
                self.operand(owner, body, o),
                esc(&self.ty_s(*t))
            ),
            Rvalue::BinaryOp(op, ab) => format!(
                "{{\"k\":\"bin\",\"op\":{},\"a\":{},\"b\":{}}}",
                esc(&format!("{:?}", op)),
                self.operand(owner, body, &ab.0),
                self.operand(owner, body, &ab.1)
            ),
            Rvalue::UnaryOp(op, o) => format!(
                "{{\"k\":\"un\",\"op\":{},\"o\":{}}}",
                esc(&format!("{:?}", op)),
                self.operand(owner, body, o)
            ),
            Rvalue::Discriminant(p) => format!(
                "{{\"k\":\"discr\",\"p\":{},\"pty\":{}}}",
                self.place(body, p),
                esc(&self.ty_s(p.ty(&body.local_decls, self.tcx).ty))
            ),
            Rvalue::Aggregate(kind, ops) => {
                let os: Vec<String> = ops.iter().map(|o| self.operand(owner, body, o)).collect();
                let kd = match &**kind {
                    AggregateKind::Array(t) => format!("{{\"a\":\"array\",\"ty\":{}}}", esc(&self.ty_s(*t))),
                    AggregateKind::Tuple => "{\"a\":\"tuple\"}".to_string(),
                    AggregateKind::Adt(did, v, _, _, _) => {
                        let adt = self.tcx.adt_def(*did);
                        let vd = adt.variant(*v);
                        let fnames: Vec<String> =
                            vd.fields.iter().map(|f| esc(&f.name.to_string())).collect();
                        format!(
                            "{{\"a\":\"adt\",\"path\":{},\"vi\":{},\"vn\":{},\"fields\":{}}}",
                            esc(&self.path(*did)),
                            v.as_usize(),
                            esc(&vd.name.to_string()),
                            arr(fnames)
                        )
                    }
                    AggregateKind::Closure(did, _) => {
                        format!("{{\"a\":\"closure\",\"path\":{}}}", esc(&self.path(*did)))
                    }
                    AggregateKind::Coroutine(did, _) => {
                        format!("{{\"a\":\"coroutine\",\"path\":{}}}", esc(&self.path(*did)))
                    }
                    AggregateKind::CoroutineClosure(did, _) => {
                        format!("{{\"a\":\"coroutine_closure\",\"path\":{}}}", esc(&self.path(*did)))
                    }
                    AggregateKind::RawPtr(_, _) => "{\"a\":\"rawptr\"}".to_string(),
                };
                format!("{{\"k\":\"agg\",\"kind\":{},\"ops\":{}}}", kd, arr(os))
            }
            Rvalue::CopyForDeref(p) => {
                format!("{{\"k\":\"use\",\"o\":{{\"cp\":{}}}}}", self.place(body, p))
            }
            Rvalue::ThreadLocalRef(did) => {
                format!("{{\"k\":\"tls\",\"path\":{}}}", esc(&self.path(*did)))
            }
            other => format!("{{\"k\":\"other\",\"dbg\":{}}}", esc(&format!("{:?}", other))),
        }
    }

    fn call_target(&self, owner: DefId, body: &Body<'tcx>, func: &Operand<'tcx>) -> Vec<(&'static str, String)> {
        let tcx = self.tcx;
        let mut items: Vec<(&'static str, String)> = Vec::new();
        let fty = func.ty(&body.local_decls, tcx);
        if let ty::FnDef(did, args) = *fty.kind() {
            items.push(("callee", esc(&self.path(did))));
            items.push(("callee_crate", esc(&tcx.crate_name(did.krate).to_string())));
            items.push(("substs", esc(&ty::print::with_no_trimmed_paths!(format!("{:?}", args)))));
            let typing_env = TypingEnv::post_analysis(tcx, owner);
            if let Ok(nargs) = tcx.try_normalize_erasing_regions(typing_env, ty::Unnormalized::new(args)) {
                if let Ok(Some(inst)) = Instance::try_resolve(tcx, typing_env, did, nargs) {
                    let rd = inst.def_id();
                    items.push(("resolved", esc(&self.path(rd))));
                    items.push(("resolved_crate", esc(&tcx.crate_name(rd.krate).to_string())));
                    items.push((
                        "resolved_substs",
                        esc(&ty::print::with_no_trimmed_paths!(format!("{:?}", inst.args))),
                    ));
                    let kind = match inst.def {
                        ty::InstanceKind::Item(_) => "item",
                        ty::InstanceKind::Virtual(..) => "virtual",
                        ty::InstanceKind::Intrinsic(_) => "intrinsic",
                        ty::InstanceKind::ClosureOnceShim { .. } => "closure_once",
                        ty::InstanceKind::FnPtrShim(..) => "fnptr_shim",
                        ty::InstanceKind::CloneShim(..) => "clone_shim",
                        ty::InstanceKind::DropGlue(..) => "drop_glue",
                        _ => "other",
                    };
                    items.push(("ikind", esc(kind)));
                }
            }
        } else {
            items.push(("fnptr", self.operand(owner, body, func)));
            items.push(("fnty", esc(&self.ty_s(fty))));
        }
        items
    }

    fn terminator(&self, owner: DefId, body: &Body<'tcx>, t: &Terminator<'tcx>) -> String {
        let sp = t.source_info.span;
        let mut items: Vec<(&str, String)> = Vec::new();
        match &t.kind {
            TerminatorKind::Goto { target } => {
                items.push(("k", esc("goto")));
                items.push(("t", format!("{}", target.as_usize())));
            }
            TerminatorKind::SwitchInt { discr, targets } => {
                items.push(("k", esc("switch")));
                items.push(("d", self.operand(owner, body, discr)));
                items.push(("dty", esc(&self.ty_s(discr.ty(&body.local_decls, self.tcx)))));
                let ts: Vec<String> = targets
                    .iter()
                    .map(|(v, bb)| format!("[{},{}]", esc(&format!("{}", v)), bb.as_usize()))
                    .collect();
                items.push(("ts", arr(ts)));
                items.push(("o", format!("{}", targets.otherwise().as_usize())));
            }
            TerminatorKind::Return => items.push(("k", esc("return"))),
            TerminatorKind::Unreachable => items.push(("k", esc("unreachable"))),
            TerminatorKind::UnwindResume => items.push(("k", esc("resume"))),
            TerminatorKind::UnwindTerminate(_) => items.push(("k", esc("terminate"))),
            TerminatorKind::Drop { place, target, .. } => {
                items.push(("k", esc("drop")));
                items.push(("p", self.place(body, place)));
                items.push(("t", format!("{}", target.as_usize())));
            }
            TerminatorKind::Call { func, args, destination, target, unwind, .. } => {
                items.push(("k", esc("call")));
                for it in self.call_target(owner, body, func) {
                    items.push(it);
                }
                let a: Vec<String> = args.iter().map(|x| self.operand(owner, body, &x.node)).collect();
                items.push(("args", arr(a)));
                items.push(("dest", self.place(body, destination)));
                items.push((
                    "t",
                    match target {
                        Some(b) => format!("{}", b.as_usize()),
                        None => "null".to_string(),
                    },
                ));
                items.push((
                    "unwind",
                    match unwind {
                        UnwindAction::Cleanup(b) => format!("{}", b.as_usize()),
                        _ => "null".to_string(),
                    },
                ));
            }
            TerminatorKind::TailCall { func, args, .. } => {
                items.push(("k", esc("tailcall")));
                for it in self.call_target(owner, body, func) {
                    items.push(it);
                }
                let a: Vec<String> = args.iter().map(|x| self.operand(owner, body, &x.node)).collect();
                items.push(("args", arr(a)));
            }
            TerminatorKind::Assert { cond, expected, msg, target, .. } => {
                items.push(("k", esc("assert")));
                items.push(("cond", self.operand(owner, body, cond)));
                items.push(("expected", format!("{}", expected)));
                let (kind, ops): (&str, Vec<String>) = match &**msg {
                    AssertKind::BoundsCheck { len, index } => (
                        "BoundsCheck",
                        vec![self.operand(owner, body, len), self.operand(owner, body, index)],
                    ),
                    AssertKind::Overflow(op, a, b) => {
                        let k: &str = match op {
                            BinOp::Add => "Overflow:Add",
                            BinOp::Sub => "Overflow:Sub",
                            BinOp::Mul => "Overflow:Mul",
                            BinOp::Shl => "Overflow:Shl",
                            BinOp::Shr => "Overflow:Shr",
                            _ => "Overflow:Other",
                        };
                        (k, vec![self.operand(owner, body, a), self.operand(owner, body, b)])
                    }
                    AssertKind::OverflowNeg(a) => ("OverflowNeg", vec![self.operand(owner, body, a)]),
                    AssertKind::DivisionByZero(a) => ("DivisionByZero", vec![self.operand(owner, body, a)]),
                    AssertKind::RemainderByZero(a) => ("RemainderByZero", vec![self.operand(owner, body, a)]),
                    AssertKind::MisalignedPointerDereference { .. } => ("MisalignedPointer", vec![]),
                    AssertKind::NullPointerDereference => ("NullPointer", vec![]),
                    _ => ("Other", vec![]),
                };
                items.push(("ak", esc(kind)));
                items.push(("aops", arr(ops)));
                items.push(("t", format!("{}", target.as_usize())));
            }
            other => {
                items.push(("k", esc("other")));
                items.push(("dbg", esc(&format!("{:?}", other))));
            }
        }
        items.push(("sp", self.span_j(sp)));
        let e = self.expn_tag(sp);
        if !e.is_empty() {
            items.push(("exp", esc(&e)));
        }
        obj(items)
    }

    fn body(&self, owner: DefId, body: &Body<'tcx>) -> Vec<(&'static str, String)> {
        let mut names: Vec<String> = vec![String::new(); body.local_decls.len()];
        for vdi in body.var_debug_info.iter() {
            if let VarDebugInfoContents::Place(p) = vdi.value {
                if p.projection.is_empty() && names[p.local.as_usize()].is_empty() {
                    names[p.local.as_usize()] = vdi.name.to_string();
                }
            }
        }
        let locals: Vec<String> = body
            .local_decls
            .iter_enumerated()
            .map(|(l, d)| {
                format!(
                    "{{\"ty\":{},\"name\":{},\"mut\":{}}}",
                    esc(&self.ty_s(d.ty)),
                    esc(&names[l.as_usize()]),
                    d.mutability.is_mut()
                )
            })
            .collect();
        let mut blocks = Vec::new();
        for (_bb, data) in body.basic_blocks.iter_enumerated() {
            let mut stmts = Vec::new();
            for s in data.statements.iter() {
                match &s.kind {
                    StatementKind::Assign(b) => {
                        let (p, rv) = &**b;
                        let mut it: Vec<(&str, String)> = vec![
                            ("k", esc("assign")),
                            ("p", self.place(body, p)),
                            ("rv", self.rvalue(owner, body, rv)),
                            ("sp", self.span_j(s.source_info.span)),
                        ];
                        let e = self.expn_tag(s.source_info.span);
                        if !e.is_empty() {
                            it.push(("exp", esc(&e)));
                        }
                        stmts.push(obj(it));
                    }
                    StatementKind::SetDiscriminant { place, variant_index } => {
                        stmts.push(format!(
                            "{{\"k\":\"setdiscr\",\"p\":{},\"vi\":{}}}",
                            self.place(body, place),
                            variant_index.as_usize()
                        ));
                    }
                    StatementKind::Intrinsic(i) => {
                        stmts.push(format!("{{\"k\":\"intrinsic\",\"dbg\":{}}}", esc(&format!("{:?}", i))));
                    }
                    _ => {}
                }
            }
            let term = self.terminator(owner, body, data.terminator());
            blocks.push(format!(
                "{{\"stmts\":{},\"term\":{},\"cleanup\":{}}}",
                arr(stmts),
                term,
                data.is_cleanup
            ));
        }
        vec![
            ("arg_count", format!("{}", body.arg_count)),
            ("locals", arr(locals)),
            ("blocks", arr(blocks)),
        ]
    }

    fn item(&self, did: DefId, kind: DefKind) -> Option<String> {
        let tcx = self.tcx;
        let span = tcx.def_span(did);
        if self.in_derive(span) {
            return None;
        }
        let (file, line, _) = self.loc(span);
        let mut items: Vec<(&str, String)> = vec![
            ("path", esc(&self.path(did))),
            ("kind", esc(&format!("{:?}", kind))),
            ("file", esc(&file)),
            ("line", format!("{}", line)),
            ("name", esc(&tcx.opt_item_name(did).map(|n| n.to_string()).unwrap_or_default())),
        ];
        let e = self.expn_tag(span);
        if !e.is_empty() {
            items.push(("exp", esc(&e)));
        }
        let is_fn = matches!(kind, DefKind::Fn | DefKind::AssocFn);
        if is_fn {
            items.push(("vis", esc(&format!("{:?}", tcx.visibility(did)))));
            let sig = tcx.fn_sig(did).skip_binder().skip_binder();
            items.push(("abi", esc(&format!("{:?}", sig.abi()))));
            let ins: Vec<String> = sig.inputs().iter().map(|t| esc(&self.ty_s(*t))).collect();
            items.push(("inputs", arr(ins)));
            items.push(("output", esc(&self.ty_s(sig.output()))));
            let cattrs = tcx.codegen_fn_attrs(did);
            items.push((
                "no_mangle",
                format!(
                    "{}",
                    cattrs
                        .flags
                        .contains(rustc_middle::middle::codegen_fn_attrs::CodegenFnAttrFlags::NO_MANGLE)
                ),
            ));
            let generics = tcx.generics_of(did);
            items.push(("generic", format!("{}", generics.count() > 0 && generics.requires_monomorphization(tcx))));
        }
        if matches!(kind, DefKind::AssocFn | DefKind::AssocConst { .. }) {
            if let Some(parent) = tcx.opt_parent(did) {
                if matches!(tcx.def_kind(parent), DefKind::Impl { .. }) {
                    let self_ty = tcx.type_of(parent).instantiate_identity().skip_normalization();
                    items.push(("impl_self", esc(&self.ty_s(self_ty))));
                    if let Some(tr) = tcx.impl_opt_trait_ref(parent) {
                        let tr = tr.instantiate_identity().skip_normalization();
                        items.push(("impl_trait", esc(&self.path(tr.def_id))));
                        items.push((
                            "impl_trait_ref",
                            esc(&ty::print::with_no_trimmed_paths!(format!("{:?}", tr))),
                        ));
                    }
                }
            }
        }
        if matches!(kind, DefKind::Closure) {
            if let Some(parent) = tcx.opt_parent(did) {
                items.push(("parent", esc(&self.path(parent))));
            }
            let cty = tcx.type_of(did).instantiate_identity().skip_normalization();
            if let ty::Closure(_, cargs) = cty.kind() {
                let ups: Vec<String> = cargs
                    .as_closure()
                    .upvar_tys()
                    .iter()
                    .map(|t| esc(&self.ty_s(t)))
                    .collect();
                items.push(("upvars", arr(ups)));
            }
        }
        if matches!(kind, DefKind::Static { .. } | DefKind::Const { .. } | DefKind::AssocConst { .. }) {
            let t = tcx.type_of(did).instantiate_identity().skip_normalization();
            items.push(("ty", esc(&self.ty_s(t))));
            if let DefKind::Static { mutability, .. } = kind {
                items.push(("static_mut", format!("{}", mutability.is_mut())));
            }
        }
        let body: &Body<'tcx> = match kind {
            DefKind::Fn | DefKind::AssocFn | DefKind::Closure => tcx.optimized_mir(did),
            _ => tcx.mir_for_ctfe(did),
        };
        for it in self.body(did, body) {
            items.push(it);
        }
        if let Some(ldid) = did.as_local() {
            let proms = tcx.promoted_mir(ldid.to_def_id());
            let ps: Vec<String> = proms.iter().map(|b| obj(self.body(did, b))).collect();
            items.push(("promoted", arr(ps)));
        }
        Some(obj(items))
    }
}

struct ZkCallbacks;

impl Callbacks for ZkCallbacks {
    fn after_analysis<'tcx>(
        &mut self,
        _compiler: &rustc_interface::interface::Compiler,
        tcx: TyCtxt<'tcx>,
    ) -> Compilation {
        let out_dir = match std::env::var("ZKFACTS_OUT") {
            Ok(d) => d,
            Err(_) => return Compilation::Continue,
        };
        let krate = tcx.crate_name(LOCAL_CRATE).to_string();
        if krate == "build_script_build" {
            return Compilation::Continue;
        }
        let cx = Cx { tcx, krate: krate.clone() };
        let mut fns = Vec::new();
        for ldid in tcx.hir_body_owners() {
            let did = ldid.to_def_id();
            let kind = tcx.def_kind(did);
            match kind {
                DefKind::Fn
                | DefKind::AssocFn
                | DefKind::Closure
                | DefKind::Const { .. }
                | DefKind::AssocConst { .. }
                | DefKind::Static { .. } => {
                    if let Some(s) = cx.item(did, kind) {
                        fns.push(s);
                    }
                }
                _ => {}
            }
        }
        // ADTs and type aliases
        let mut adts = Vec::new();
        let mut aliases = Vec::new();
        for ldid in tcx.hir_crate_items(()).definitions() {
            let did = ldid.to_def_id();
            match tcx.def_kind(did) {
                DefKind::Struct | DefKind::Enum | DefKind::Union => {
                    let adt = tcx.adt_def(did);
                    let mut vars = Vec::new();
                    let discrs: Vec<u128> = if adt.is_enum() {
                        adt.discriminants(tcx).map(|(_, d)| d.val).collect()
                    } else {
                        vec![0]
                    };
                    for (i, v) in adt.variants().iter().enumerate() {
                        let fs: Vec<String> = v
                            .fields
                            .iter()
                            .map(|f| {
                                let t = tcx.type_of(f.did).instantiate_identity().skip_normalization();
                                format!(
                                    "{{\"name\":{},\"ty\":{},\"vis\":{}}}",
                                    esc(&f.name.to_string()),
                                    esc(&cx.ty_s(t)),
                                    esc(&format!("{:?}", f.vis))
                                )
                            })
                            .collect();
                        vars.push(format!(
                            "{{\"name\":{},\"discr\":{},\"fields\":{}}}",
                            esc(&v.name.to_string()),
                            esc(&format!("{}", discrs.get(i).copied().unwrap_or(0))),
                            arr(fs)
                        ));
                    }
                    let (file, line, _) = cx.loc(tcx.def_span(did));
                    adts.push(format!(
                        "{{\"path\":{},\"kind\":{},\"file\":{},\"line\":{},\"derive\":{},\"variants\":{}}}",
                        esc(&cx.path(did)),
                        esc(&format!("{:?}", tcx.def_kind(did))),
                        esc(&file),
                        line,
                        cx.in_derive(tcx.def_span(did)),
                        arr(vars)
                    ));
                }
                DefKind::TyAlias => {
                    let t = tcx.type_of(did).instantiate_identity().skip_normalization();
                    aliases.push(format!(
                        "{{\"path\":{},\"ty\":{}}}",
                        esc(&cx.path(did)),
                        esc(&cx.ty_s(t))
                    ));
                }
                _ => {}
            }
        }
        let crate_types: Vec<String> =
            tcx.crate_types().iter().map(|c| esc(&format!("{:?}", c))).collect();
        let mut cfgs: Vec<String> = Vec::new();
        for (name, val) in tcx.sess.config.iter() {
            if name.as_str() == "feature" {
                if let Some(v) = val {
                    cfgs.push(esc(&v.to_string()));
                }
            }
        }
        cfgs.sort();
        let doc = obj(vec![
            ("version", esc(VERSION)),
            ("crate", esc(&krate)),
            ("crate_types", arr(crate_types)),
            ("features", arr(cfgs)),
            ("items", arr(fns)),
            ("adts", arr(adts)),
            ("aliases", arr(aliases)),
        ]);
        let kind = tcx
            .crate_types()
            .first()
            .map(|c| format!("{:?}", c).to_lowercase())
            .unwrap_or_default();
        let fname = format!("{}/{}.{}.json", out_dir, krate, kind);
        let _ = std::fs::create_dir_all(&out_dir);
        let tmp = format!("{}.tmp{}", fname, std::process::id());
        std::fs::write(&tmp, doc).expect("zkfacts: cannot write facts");
        std::fs::rename(&tmp, &fname).expect("zkfacts: cannot rename facts");
        Compilation::Continue
    }
}

fn main() {
    let mut args: Vec<String> = std::env::args().collect();
    if args.len() >= 2 && args[1] == "--zkfacts-version" {
        println!("{}", VERSION);
        return;
    }
    // RUSTC_WORKSPACE_WRAPPER passes the real rustc path as argv[1]
    if args.len() >= 2 && (args[1].ends_with("rustc") || args[1].contains("/rustc")) {
        args.remove(1);
    }
    let mut cb = ZkCallbacks;
    rustc_driver::run_compiler(&args, &mut cb);
}
